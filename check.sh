#!/bin/sh
# Entry point registered in MANIFEST.json:  ./check.sh <Cxx> quick|thorough [--replay <file>]
cd "$(dirname "$0")" || exit 2
export CARGO_NET_OFFLINE=true
exec python3 driver/check.py "$@"
