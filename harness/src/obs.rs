//! Observed outcomes of implementation calls (Ok / error kind / panic) and their Gallina form.
use crate::coq::{clist, cn, cstr};
use scale_typegen::TypegenError;
use serde_json::{json, Value};

#[derive(Clone, Debug, PartialEq)]
pub enum Obs<T> {
    Ok(T),
    Err(String, Vec<u128>, String),
    Panic,
}

pub fn of_typegen_error(e: &TypegenError) -> (String, Vec<u128>, String) {
    match e {
        TypegenError::SynParseError(_) => ("SynParseError".into(), vec![], String::new()),
        TypegenError::InvalidFields(_) => ("InvalidFields".into(), vec![], String::new()),
        TypegenError::InvalidType(_) => ("InvalidType".into(), vec![], String::new()),
        TypegenError::CompactPathNone => ("CompactPathNone".into(), vec![], String::new()),
        TypegenError::DecodedBitsPathNone => ("DecodedBitsPathNone".into(), vec![], String::new()),
        TypegenError::TypeNotFound(i) => ("TypeNotFound".into(), vec![*i as u128], String::new()),
        TypegenError::InvalidSubstitute(_) => ("InvalidSubstitute".into(), vec![], String::new()),
        TypegenError::SettingsValidation(_) => ("SettingsValidation".into(), vec![], String::new()),
        TypegenError::DuplicateTypePath(p) => ("DuplicateTypePath".into(), vec![], p.clone()),
        TypegenError::RegistryTypeIdsInvalid { given_ty_id, expected_ty_id, .. } => (
            "RegistryTypeIdsInvalid".into(),
            vec![*given_ty_id as u128, *expected_ty_id as u128],
            String::new(),
        ),
        _ => ("Other".into(), vec![], String::new()),
    }
}

pub fn observe<T, F: FnOnce() -> Result<T, TypegenError> + std::panic::UnwindSafe>(f: F) -> Obs<T> {
    match std::panic::catch_unwind(f) {
        Ok(Ok(t)) => Obs::Ok(t),
        Ok(Err(e)) => {
            let (k, n, m) = of_typegen_error(&e);
            Obs::Err(k, n, m)
        }
        Err(_) => Obs::Panic,
    }
}

impl<T> Obs<T> {
    pub fn coq(&self, f: impl Fn(&T) -> String) -> String {
        match self {
            Obs::Ok(t) => format!("(OOk {})", f(t)),
            Obs::Err(k, n, m) => format!("(OErr {} {} {})", cstr(k), clist(n.iter().map(|x| cn(*x))), cstr(m)),
            Obs::Panic => "OPanic".into(),
        }
    }
    pub fn json(&self, f: impl Fn(&T) -> Value) -> Value {
        match self {
            Obs::Ok(t) => json!({"ok": f(t)}),
            Obs::Err(k, n, m) => json!({"err": k, "nums": n.iter().map(|x| *x as u64).collect::<Vec<_>>(), "msg": m}),
            Obs::Panic => json!("panic"),
        }
    }
    pub fn kind(&self) -> String {
        match self {
            Obs::Ok(_) => "Ok".into(),
            Obs::Err(k, _, _) => k.clone(),
            Obs::Panic => "Panic".into(),
        }
    }
}
