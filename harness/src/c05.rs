//! C05: source round trip.  Programs (generic definitions + instantiations) are printed for the
//! Coq source model (Model/Program.v) next to the registry the interner derives from them and
//! the implementation's observed output.
use crate::coq::{cbool, clist, cn, copt, cstr, Shards};
use crate::reggen::{self, Body, Def, FieldDef, GenCfg, Program, Src};
use crate::rng::Rng;
use crate::sets::SettingsSpec;
use crate::tg::{bit_order_subs, coq_case, observe_tg};
use crate::util::Meta;
use serde_json::json;
use std::collections::HashSet;
use std::path::Path;

pub const HEADER: &str = "From Coq Require Import List NArith String.\nFrom V Require Import Base.Util Base.Result Model.Registry Model.Settings Model.Subst Model.Builders Model.Program Corr.RunTG Corr.CheckTG Corr.RunC05 Corr.RunC05Emit.\nImport ListNotations. Open Scope string_scope.";

fn cprim(p: &str) -> &'static str {
    match p {
        "bool" => "PBool", "char" => "PChar", "str" => "PStr", "u8" => "PU8", "u16" => "PU16", "u32" => "PU32",
        "u64" => "PU64", "u128" => "PU128", "u256" => "PU256", "i8" => "PI8", "i16" => "PI16", "i32" => "PI32",
        "i64" => "PI64", "i128" => "PI128", "i256" => "PI256", _ => panic!("harness: prim {p}"),
    }
}

pub fn csrc(s: &Src) -> String {
    match s {
        Src::Param(i) => format!("(SParam {}%nat)", i),
        Src::App(d, a) => format!("(SApp {}%nat {})", d, clist(a.iter().map(csrc))),
        Src::Vec(a) => format!("(SVec {})", csrc(a)),
        Src::VecDeque(a) => format!("(SVecDeque {})", csrc(a)),
        Src::Array(n, a) => format!("(SArray {} {})", cn(*n as u128), csrc(a)),
        Src::Tuple(a) => format!("(STup {})", clist(a.iter().map(csrc))),
        Src::Prim(p) => format!("(SPrimT {})", cprim(p)),
        Src::Compact(a) => format!("(SCompactT {})", csrc(a)),
        Src::BoxT(a) => format!("(SBox {})", csrc(a)),
        Src::Opt(a) => format!("(SOpt {})", csrc(a)),
        Src::Res(a, b) => format!("(SRes {} {})", csrc(a), csrc(b)),
        Src::BTreeMap(a, b) => format!("(SBTreeMap {} {})", csrc(a), csrc(b)),
        Src::BTreeSet(a) => format!("(SBTreeSet {})", csrc(a)),
        Src::Cow(a) => format!("(SCow {})", csrc(a)),
        Src::Range(a) => format!("(SRange {})", csrc(a)),
        Src::BitVec(s, l) => format!("(SBitVec {} {})", cprim(s), cbool(*l)),
    }
}

fn cfield(f: &FieldDef) -> String {
    format!(
        "(mk_sfield {} {} {} {})",
        copt(f.name.as_ref().map(|n| cstr(n))),
        csrc(&f.ty),
        cbool(f.compact_attr),
        cbool(f.type_name)
    )
}

fn cdef(d: &Def) -> String {
    let body = match &d.body {
        Body::Struct(fs) => format!("(SBStruct {})", clist(fs.iter().map(cfield))),
        Body::Enum(vs) => format!(
            "(SBEnum {})",
            clist(vs.iter().map(|(n, i, fs, _)| format!("({}, {}, {})", cstr(n), cn(*i as u128), clist(fs.iter().map(cfield)))))
        ),
    };
    format!(
        "(mk_sdef {} {} {})",
        clist(d.path.iter().map(|s| cstr(s))),
        clist(d.params.iter().map(|(n, s)| format!("({}, {})", cstr(n), cbool(*s)))),
        body
    )
}

/// the random-program stream of C05 (also the stream the derive tier validates the interner on):
/// the `k`-th program and its settings
pub fn next_program(rng: &mut Rng, k: usize) -> (Program, SettingsSpec) {
    let cfg = GenCfg { no_type_name_pct: if k % 10 == 0 { 30 } else { 0 }, ..GenCfg::default() };
    let mut p = reggen::rand_program(rng, &cfg);
    // several instantiations of the same definitions
    let extra = rng.below(4);
    for _ in 0..extra {
        let d = rng.below(p.defs.len());
        let args: Vec<Src> = { let cps = reggen::compact_params(&p.defs[d]); (0..p.defs[d].params.len()).map(|i| if cps.contains(&i) { Src::Prim("u32") } else { reggen::rand_arg(rng, 0) }).collect() };
        p.roots.push(Src::App(d, args));
    }
    let mut s = SettingsSpec::default();
    if rng.chance(1, 3) {
        s.alloc = Some("::alloc".into());
    }
    if rng.chance(1, 4) {
        s.codec = false;
    }
    (p, s)
}

/// `i::Ids<T> { a: Vec<Box<Vec<T>>>, b: Vec<Vec<T>>, d: VecDeque<Box<u8>>, e: Vec<u8>, r: T }` (Model/Program1.v
/// `id1_defs`) at `u16` and `u64`, the first also reached as `Box<Box<Ids<u16>>>` (its own entry): pairs of
/// entries with equal content that scale-info keeps apart (the shapes of `corpus::identity_programs`, which the
/// derive tier validates), in a program whose instantiations are coincidence-free
pub fn identity_cf1_program() -> Program {
    let bx = |s: Src| Box::new(s);
    let f = |n: &str, ty: Src| FieldDef { name: Some(n.into()), ty, compact_attr: false, docs: vec![], type_name: true };
    let t = || Src::Param(0);
    let fields = vec![
        f("a", Src::Vec(bx(Src::BoxT(bx(Src::Vec(bx(t()))))))),
        f("b", Src::Vec(bx(Src::Vec(bx(t()))))),
        f("d", Src::VecDeque(bx(Src::BoxT(bx(Src::Prim("u8")))))),
        f("e", Src::Vec(bx(Src::Prim("u8")))),
        f("r", t()),
    ];
    let defs = vec![Def {
        path: vec!["i".into(), "Ids".into()],
        params: vec![("T".into(), false)],
        body: Body::Struct(fields),
        docs: vec![],
    }];
    let ids = |a: &'static str| Src::App(0, vec![Src::Prim(a)]);
    let roots = vec![ids("u16"), ids("u64"), Src::BoxT(bx(Src::BoxT(bx(ids("u16")))))];
    Program { defs, roots }
}

pub fn stream_rng(seed: u64) -> Rng {
    Rng::new(seed ^ 0xc05)
}

pub fn generate(tier: &str, seed: u64, out: &Path, nshards: usize, replay: Option<&Path>) -> Meta {
    let mut rng = stream_rng(seed);
    let evals = [
        ("corr_ops", "fun c => corr_ops (c5_tg c)"),
        ("corr_gen", "fun c => corr_gen (c5_tg c)"),
        ("corr_paths", "fun c => corr_paths (c5_tg c)"),
        ("prop_source_roundtrip", "prop_source_roundtrip"),
        ("prop_one_item", "prop_one_item"),
        ("known_F16", "known_F16"),
        ("hyp_all_cf", "hyp_all_cf"),
        ("hyp_some_cf_generic", "hyp_some_cf_generic"),
        ("hyp_gen_ok", "fun c => hyp_gen_ok (c5_tg c)"),
        ("corr_registry_of", "corr_registry_of"),
        ("hyp_registry_of", "hyp_registry_of"),
        ("hyp_prelude_nodocs", "hyp_prelude_nodocs"),
        ("hyp_identity_duplicates", "hyp_identity_duplicates"),
        // all hypotheses of C05_checker_accepts_model as one boolean (Corr/RunC05Emit.v): where it holds,
        // prop_source_roundtrip follows from corr_gen (C05_checker_verdict_from_correspondence)
        ("hyp_emission_theorem", "hyp_emission_theorem"),
        ("hyp_emission_theorem_nontrivial", "hyp_emission_theorem_nontrivial"),
        ("corr_registry_of1", "corr_registry_of1"),
        ("hyp_registry_of1", "hyp_registry_of1"),
        ("hyp_labels_agree", "hyp_labels_agree"),
        ("hyp_all_cf1", "hyp_all_cf1"),
        ("hyp_cf1_only", "hyp_cf1_only"),
        ("hyp_thm1_premises", "hyp_thm1_premises"),
        ("hyp_thm1_on_duplicates", "hyp_thm1_on_duplicates"),
        ("hyp_thm_premises", "hyp_thm_premises"),
    ];
    let mut shards = Shards::new(out, nshards, HEADER, "c05_case", &evals);
    let mut meta = Meta::new("C05");
    let mut seen: HashSet<String> = HashSet::new();
    let mut nontrivial = 0usize;
    let mut dup_programs = 0usize;
    let mut dup_entries = 0usize;
    let mut push = |stream: &str, p: &Program, spec0: Option<SettingsSpec>, shards: &mut Shards, meta: &mut Meta| {
        let (rj, insts, labels) = reggen::build_labelled(p);
        let dups = reggen::identity_duplicates(&labels);
        if dups > 0 {
            dup_programs += 1;
            dup_entries += dups;
        }
        let reg = reggen::to_registry(&rj);
        let mut spec = spec0.unwrap_or_default();
        spec.ops.extend(bit_order_subs(&reg));
        let o = observe_tg(&reg, &spec);
        let term = format!(
            "(mk_c05 (mk_program {} {}) {} {} {} {})",
            clist(p.defs.iter().map(cdef)),
            clist(p.roots.iter().map(csrc)),
            clist(insts.iter().map(|(d, a)| format!("({}%nat, {})", d, clist(a.iter().map(csrc))))),
            // per id: the closed source type the entry stands for, in the normal form of the Coq
            // source model (`canon`); None = bit-order marker
            clist(labels.iter().map(|l| copt(l.as_ref().map(|x| csrc(&reggen::canon(x)))))),
            // the same labels as written (the type the entry was first registered for): the Coq side puts
            // them into the normal form of scale-info's real type identity (`ident1`, Model/Program1.v)
            clist(labels.iter().map(|l| copt(l.as_ref().map(|x| csrc(x))))),
            coq_case(stream, &reg, &spec, &o, &None)
        );
        let generic = p.defs.iter().any(|d| d.params.iter().any(|(_, s)| !*s));
        if seen.insert(rj.to_string()) && generic {
            nontrivial += 1;
        }
        let j = json!({"stream": stream, "input": {"program": format!("{:?}", p), "registry": rj, "settings": spec},
                       "observed_generate": o.gen.json(|t| json!(t.join(" ")))});
        let i = shards.push(term, j.clone());
        meta.count(stream);
        if meta.samples.len() < 3 && i % 29 == 3 && reg.types.len() <= 14 {
            meta.samples.push(j);
        }
    };
    let _ = replay; // programs are not reconstructible from a registry: replay re-runs the generator stream
    for (n, p) in crate::corpus::programs() {
        // `Box<Compact<T>>` fields are outside the conventions of the expected-item specification
        // (`field_conv_okb` of Model/ProgramSkel.v: a compact is written `Compact<T>` or `Cow<Compact<T>>`,
        // not under Box; the C05 theorems carry that hypothesis): the generator prints
        // `#[codec(compact)] Box<T>`, the specification would say `Box<Compact<T>>` - both wire-equal.
        // The program is exercised by C01 / C02 / C09, not here.
        if n == "boxed-compact" {
            continue;
        }
        push(&format!("corpus:{n}"), &p, None, &mut shards, &mut meta);
        let mut s = SettingsSpec::default();
        s.codec = false;
        s.alloc = Some("::alloc".into());
        s.root = "root".into();
        push(&format!("corpus:{n}"), &p, Some(s), &mut shards, &mut meta);
    }
    // scale-info's type identity: registries with entries that differ only in the TypeId they were
    // registered under (validated against the real derive by the derive tier)
    for (n, mut p) in crate::corpus::identity_programs() {
        // fields that are compact AND mention Box (`Compact<Box<u32>>`, kept in the identity corpus for the
        // derive tier) are outside the conventions of the expected-item specification (`field_conv_okb`: since
        // the F21 repair the generator prints a compact field without the Box): such fields are dropped here
        for d in p.defs.iter_mut() {
            let drop = |f: &crate::reggen::FieldDef| {
                fn has_box(t: &crate::reggen::Src) -> bool { format!("{t:?}").contains("BoxT") }
                let compact = f.compact_attr || matches!(f.ty, crate::reggen::Src::Compact(_))
                    || matches!(&f.ty, crate::reggen::Src::Cow(x) if matches!(**x, crate::reggen::Src::Compact(_)));
                compact && has_box(&f.ty)
            };
            match &mut d.body {
                crate::reggen::Body::Struct(fs) => fs.retain(|f| !drop(f)),
                crate::reggen::Body::Enum(vs) => vs.iter_mut().for_each(|v| v.2.retain(|f| !drop(f))),
            }
        }
        push(&format!("identity:{n}"), &p, None, &mut shards, &mut meta);
    }
    // coincidence-free instantiations in a registry WITH identity duplicates: `RegistryOf` fails, every
    // hypothesis of `C05_skeleton_is_source1` holds (counted as `hyp_thm1_on_duplicates`)
    push("identity:cf1", &identity_cf1_program(), None, &mut shards, &mut meta);
    let scale = if tier == "thorough" { 8 } else { 1 };
    for k in 0..(400 * scale) {
        let (p, s) = next_program(&mut rng, k);
        push("random-program", &p, Some(s), &mut shards, &mut meta);
    }
    meta.evaluations = shards.len();
    meta.extra = json!({"programs_with_identity_duplicates": dup_programs, "identity_duplicate_entries": dup_entries,
        "identity_duplicates": "entries scale-info registers separately although they stand for the same type up to Box / VecDeque (TypeId of one step of Identity, reggen::tid_key)"});
    meta.distinct_nontrivial = nontrivial;
    meta.rule = "programs of generic struct/enum definitions in nested modules with several closed instantiations each (arm-coverage corpus + random); the registry is derived by the harness interner in scale-info's order and by scale-info's type identity (validated against the real derive in the thorough tier); non-trivial = distinct registry whose program has at least one definition with a non-skipped type parameter".into();
    shards.finish();
    meta
}
