//! C15: the description formatter.  Inputs: corpus, exhaustive strings over the
//! 9-letter alphabet, random properly nested strings (scopes straddling the
//! 32-character look-ahead), random strings with non-ASCII, and the crate's
//! own descriptions of the Polkadot registry.
use crate::coq::{cstr, Shards};
use crate::rng::Rng;
use crate::util::{polkadot_registry, Meta};
use scale_typegen_description::{format_type_description, type_description};
use serde_json::json;
use std::collections::HashSet;
use std::path::Path;

const ALPHABET: [char; 9] = ['{', '}', '(', ')', '<', '>', ',', 'a', ' '];
pub const HEADER: &str = "From Coq Require Import List NArith String.\nFrom V Require Import Base.Util Corr.RunC15.\nImport ListNotations. Open Scope string_scope.";
pub const EVALS: [(&str, &str); 4] = [
    ("hyp_nested", "hyp_nested"),
    ("corr_exact", "corr_exact"),
    ("prop_ws", "prop_ws"),
    ("prop_discipline", "prop_discipline"),
];

fn nested(rng: &mut Rng, budget: &mut isize, depth: usize, out: &mut String) {
    // a sequence of items
    let n = rng.range(1, 5);
    for i in 0..n {
        if *budget <= 0 {
            break;
        }
        if i > 0 {
            out.push(',');
        }
        match rng.below(10) {
            0..=3 => {
                let l = rng.range(1, 12);
                for _ in 0..l {
                    out.push(*rng.pick(&['a', 'b', 'x', ':', ';', '[', ']', '8']));
                }
                *budget -= l as isize;
            }
            _ if depth < 6 => {
                let (o, c) = *rng.pick(&[('{', '}'), ('(', ')'), ('<', '>')]);
                out.push(o);
                *budget -= 2;
                if !rng.chance(1, 8) {
                    nested(rng, budget, depth + 1, out);
                }
                out.push(c);
            }
            _ => {
                out.push('u');
                *budget -= 1;
            }
        }
    }
}

/// a scope whose closing bracket sits at distance `dist` from the opener
fn straddle(rng: &mut Rng, dist: usize) -> String {
    let (o, c) = *rng.pick(&[('(', ')'), ('<', '>')]);
    let mut s = String::new();
    s.push_str(*rng.pick(&["", "a", "x{", "(", "<"]));
    s.push(o);
    let with_inner = rng.chance(1, 3);
    let mut body = String::new();
    if with_inner {
        body.push(o);
        body.push('a');
        body.push(c);
    }
    while body.chars().count() < dist.saturating_sub(1) {
        body.push(*rng.pick(&['a', ',', 'b', 'é']));
    }
    if rng.chance(1, 6) {
        // a brace inside forces Big
        let p = rng.below(body.chars().count().max(1));
        body = body
            .chars()
            .enumerate()
            .map(|(i, ch)| if i == p { '{' } else { ch })
            .collect();
    }
    s.push_str(&body);
    s.push(c);
    s.push_str(*rng.pick(&["", ")", ">", "}", ",a"]));
    s
}

pub fn generate(tier: &str, seed: u64, out: &Path, nshards: usize, replay: Option<&Path>) -> Meta {
    let mut rng = Rng::new(seed);
    let mut shards = Shards::new(out, nshards, HEADER, "case", &EVALS);
    let mut meta = Meta::new("C15");
    let mut seen: HashSet<String> = HashSet::new();
    let mut nontrivial = 0usize;
    let mut hist = [0usize; 6];
    let mut push = |stream: &str, s: String, shards: &mut Shards, meta: &mut Meta| {
        let obs = match std::panic::catch_unwind(|| format_type_description(&s)) {
            Ok(o) => o,
            Err(_) => "\u{1}PANIC".to_string(),
        };
        let n = s.chars().count();
        hist[match n {
            0..=4 => 0,
            5..=16 => 1,
            17..=32 => 2,
            33..=64 => 3,
            65..=256 => 4,
            _ => 5,
        }] += 1;
        if seen.insert(s.clone()) && s.chars().any(|c| "{}()<>,".contains(c)) {
            nontrivial += 1;
        }
        let term = format!("({}, {})", cstr(&s), cstr(&obs));
        let i = shards.push(term, json!({"stream": stream, "input": s, "observed": obs}));
        meta.count(stream);
        if meta.samples.len() < 5 && (i % 977 == 13 || stream == "polkadot" || stream == "replay") {
            meta.samples.push(json!({"stream": stream, "input": s, "observed": obs}));
        }
    };

    if let Some(p) = replay {
        let v: serde_json::Value =
            serde_json::from_str(&std::fs::read_to_string(p).unwrap()).unwrap();
        let s = v["input"].as_str().unwrap().to_string();
        push("replay", s, &mut shards, &mut meta);
    } else {
        // corpus first
        for s in crate::util::corpus_strings("C15") {
            push("corpus", s, &mut shards, &mut meta);
        }
        // exhaustive
        let maxlen = if tier == "thorough" { 6 } else { 4 };
        let mut cur: Vec<String> = vec![String::new()];
        push("exhaustive", String::new(), &mut shards, &mut meta);
        for _ in 0..maxlen {
            let mut next = Vec::with_capacity(cur.len() * 9);
            for s in &cur {
                for c in ALPHABET {
                    let mut t = s.clone();
                    t.push(c);
                    push("exhaustive", t.clone(), &mut shards, &mut meta);
                    next.push(t);
                }
            }
            cur = next;
        }
        let scale = if tier == "thorough" { 10 } else { 1 };
        // straddling scopes: every distance 20..=45
        for _rep in 0..(3 * scale) {
            for dist in 20..=45 {
                let s = straddle(&mut rng, dist);
                push("straddle", s, &mut shards, &mut meta);
            }
        }
        // deep nesting: 1..=16 simultaneously open broken scopes (braces; parens / angles made
        // Big by a brace inside their look-ahead window)
        for d in 1..=16usize {
            let opens = ['{', '(', '<'];
            let closes = ['}', ')', '>'];
            let all_braces: String = "{".repeat(d) + "a,b" + &"}".repeat(d);
            push("deep", all_braces, &mut shards, &mut meta);
            let mut mixed = String::new();
            for k in 0..d {
                mixed.push(opens[k % 3]);
                mixed.push_str("x:");
            }
            mixed.push_str("{a,b}");
            for k in (0..d).rev() {
                mixed.push(closes[k % 3]);
            }
            push("deep", mixed, &mut shards, &mut meta);
            let mut fields = String::new();
            for k in 0..d {
                fields.push_str(&format!("S{k}{{f:u8,g:"));
            }
            fields.push_str("()");
            fields.push_str(&"}".repeat(d));
            push("deep", fields, &mut shards, &mut meta);
        }
        // random properly nested strings
        for _ in 0..(400 * scale) {
            let mut s = String::new();
            let mut budget = rng.range(5, 200) as isize;
            nested(&mut rng, &mut budget, 0, &mut s);
            push("nested", s, &mut shards, &mut meta);
        }
        // random strings (unbalanced, whitespace, non-ASCII)
        let alpha2: Vec<char> = "{}()<>,a b\n:;[]Zé€𝄞\t".chars().collect();
        for _ in 0..(300 * scale) {
            let l = rng.range(1, 300);
            let s: String = (0..l).map(|_| *rng.pick(&alpha2)).collect();
            push("random", s, &mut shards, &mut meta);
        }
        // the crate's own descriptions
        let reg = polkadot_registry();
        let n = reg.types.len();
        let take = if tier == "thorough" { n } else { 60 };
        for k in 0..take {
            let id = if tier == "thorough" { k } else { rng.below(n) } as u32;
            if let Ok(d) = type_description(id, &reg, false) {
                if d.chars().count() <= 6000 {
                    push("polkadot", d, &mut shards, &mut meta);
                }
            }
        }
    }
    meta.evaluations = shards.len();
    meta.distinct_nontrivial = nontrivial;
    meta.rule = "inputs: corpus, all strings over {}()<>,a and space up to the length bound, scopes with the closer at distance 20..45 from the opener, random nested strings, random unbalanced strings with whitespace/non-ASCII, descriptions of Polkadot types; non-trivial = distinct input containing at least one of the seven bracket/comma characters".into();
    meta.extra = json!({"length_histogram(0-4,5-16,17-32,33-64,65-256,>256)": hist.to_vec()});
    shards.finish();
    meta
}
