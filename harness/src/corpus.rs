//! Deterministic arm-coverage corpus (runs first in every TG check): every
//! `TypeDef` arm at top level, as a field, nested in Vec / array / tuple /
//! generic argument; all primitives; all prelude types; named / unnamed /
//! unit structs and variants; used / unused / skipped parameters; boxed and
//! compact fields; bit sequences; docs.
use crate::reggen::{Body, Def, FieldDef, Program, Src, PRIMS};

fn f(name: Option<&str>, ty: Src) -> FieldDef {
    FieldDef { name: name.map(|s| s.to_string()), ty, compact_attr: false, docs: vec![], type_name: true }
}
fn fc(name: Option<&str>, ty: Src) -> FieldDef {
    FieldDef { name: name.map(|s| s.to_string()), ty, compact_attr: true, docs: vec![], type_name: true }
}
fn p(path: &[&str]) -> Vec<String> {
    path.iter().map(|s| s.to_string()).collect()
}
fn strukt(path: &[&str], params: &[(&str, bool)], fields: Vec<FieldDef>) -> Def {
    Def {
        path: p(path),
        params: params.iter().map(|(n, s)| (n.to_string(), *s)).collect(),
        body: Body::Struct(fields),
        docs: vec![],
    }
}
fn bx(s: Src) -> Box<Src> {
    Box::new(s)
}

pub fn shapes(inner: &Src) -> Vec<Src> {
    vec![
        inner.clone(),
        Src::Vec(bx(inner.clone())),
        Src::Array(3, bx(inner.clone())),
        Src::Tuple(vec![inner.clone(), Src::Prim("u8")]),
        Src::Tuple(vec![inner.clone()]),
        Src::Opt(bx(inner.clone())),
        Src::Res(bx(inner.clone()), bx(Src::Prim("str"))),
        Src::BTreeMap(bx(Src::Prim("u32")), bx(inner.clone())),
        Src::BTreeSet(bx(inner.clone())),
        Src::VecDeque(bx(inner.clone())),
        Src::Cow(bx(inner.clone())),
        Src::Range(bx(inner.clone())),
        Src::BoxT(bx(inner.clone())),
        Src::Compact(bx(Src::Prim("u64"))),
    ]
}

pub fn programs() -> Vec<(String, Program)> {
    let mut out: Vec<(String, Program)> = vec![];
    // 1. all primitives as named fields, unnamed fields, and at top level
    {
        let named: Vec<FieldDef> = PRIMS.iter().enumerate().map(|(i, pr)| f(Some(&format!("f{i}")), Src::Prim(pr))).collect();
        let unnamed: Vec<FieldDef> = PRIMS.iter().map(|pr| f(None, Src::Prim(pr))).collect();
        let defs = vec![strukt(&["a", "Named"], &[], named), strukt(&["a", "Unnamed"], &[], unnamed), strukt(&["a", "Unit"], &[], vec![])];
        let mut roots = vec![Src::App(0, vec![]), Src::App(1, vec![]), Src::App(2, vec![])];
        roots.extend(PRIMS.iter().map(|pr| Src::Prim(pr)));
        out.push(("prims".into(), Program { defs, roots }));
    }
    // 2. every shape around a primitive, a struct, and a type parameter
    {
        let inner_defs = vec![strukt(&["m", "Inner"], &[], vec![f(Some("v"), Src::Prim("u8"))])];
        for (k, inner) in [Src::Prim("u32"), Src::App(0, vec![]), Src::Param(0)].iter().enumerate() {
            let mut defs = inner_defs.clone();
            let fields: Vec<FieldDef> = shapes(inner).into_iter().enumerate().map(|(i, s)| f(Some(&format!("s{i}")), s)).collect();
            let ufields: Vec<FieldDef> = shapes(inner).into_iter().map(|s| f(None, s)).collect();
            defs.push(strukt(&["m", "sub", "Shapes"], &[("T", false)], fields));
            defs.push(strukt(&["m", "sub", "TupleShapes"], &[("T", false)], ufields.clone()));
            defs.push(Def {
                path: p(&["m", "En"]),
                params: vec![("T".into(), false)],
                body: Body::Enum(vec![
                    ("A".into(), 0, vec![], vec!["variant doc".into()]),
                    ("B".into(), 3, ufields.clone(), vec![]),
                    ("C".into(), 7, shapes(inner).into_iter().enumerate().map(|(i, s)| f(Some(&format!("c{i}")), s)).collect(), vec![]),
                ]),
                docs: vec!["enum doc".into(), "second \"line\"".into()],
            });
            let roots = vec![
                Src::App(1, vec![Src::Prim("u16")]),
                Src::App(1, vec![Src::Prim("i32")]),
                Src::App(2, vec![Src::Prim("u16")]),
                Src::App(3, vec![Src::Prim("char")]),
                Src::Tuple(vec![]),
            ];
            out.push((format!("shapes{k}"), Program { defs, roots }));
        }
    }
    // 3. parameters: used / unused / skipped, 0..3 of them, unit / tuple / named bodies
    {
        let mut defs = vec![];
        let bodies: Vec<(&str, Vec<FieldDef>)> = vec![
            ("U", vec![]),
            ("N1", vec![f(Some("a"), Src::Param(0))]),
            ("T1", vec![f(None, Src::Vec(bx(Src::Param(0))))]),
            ("N0", vec![f(Some("a"), Src::Prim("u8"))]),
            ("T0", vec![f(None, Src::Prim("u8"))]),
        ];
        for (n, b) in &bodies {
            for np in 1..=3usize {
                for skipmask in 0..(1 << np) {
                    let names = ["T", "U", "V"];
                    let params: Vec<(&str, bool)> = (0..np).map(|i| (names[i], (skipmask >> i) & 1 == 1)).collect();
                    let path_last = format!("{}p{}s{}", n, np, skipmask);
                    defs.push(strukt(&["g", &path_last], &params, b.clone()));
                }
            }
        }
        // an enum with unused params (gets the __Ignore variant)
        defs.push(Def {
            path: p(&["g", "EnumUnused"]),
            params: vec![("T".into(), false), ("U".into(), false)],
            body: Body::Enum(vec![("A".into(), 0, vec![f(None, Src::Param(1))], vec![]), ("B".into(), 1, vec![], vec![])]),
            docs: vec![],
        });
        let args = [Src::Prim("u16"), Src::Prim("i64"), Src::Prim("char")];
        let roots = (0..defs.len()).map(|d| Src::App(d, args[..defs[d].params.len()].to_vec())).collect();
        out.push(("params".into(), Program { defs, roots }));
    }
    // 4. compact: attribute on named/unnamed/variant fields, explicit Compact<T>, compact of a wrapper, in containers
    {
        let defs = vec![
            strukt(&["c", "W"], &[], vec![f(None, Src::Prim("u32"))]),
            strukt(&["c", "WN"], &[], vec![f(Some("inner"), Src::Prim("u128"))]),
            strukt(&["c", "S"], &[], vec![
                fc(Some("a"), Src::Prim("u8")), fc(Some("b"), Src::Prim("u128")),
                f(Some("c"), Src::Compact(bx(Src::Prim("u16")))),
                f(Some("d"), Src::Vec(bx(Src::Compact(bx(Src::Prim("u32")))))),
                f(Some("e"), Src::Compact(bx(Src::App(0, vec![])))),
                f(Some("g"), Src::Opt(bx(Src::Compact(bx(Src::Prim("u64")))))),
            ]),
            strukt(&["c", "T"], &[], vec![fc(None, Src::Prim("u64")), f(None, Src::Tuple(vec![Src::Compact(bx(Src::Prim("u8")))]))]),
            Def { path: p(&["c", "E"]), params: vec![], docs: vec![],
                  body: Body::Enum(vec![("A".into(), 1, vec![fc(None, Src::Prim("u32"))], vec![]),
                                        ("B".into(), 2, vec![fc(Some("x"), Src::Prim("u16"))], vec![])]) },
            // CompactAs candidates and non-candidates
            strukt(&["c", "As8"], &[], vec![f(None, Src::Prim("u8"))]),
            strukt(&["c", "As128"], &[], vec![f(Some("v"), Src::Prim("u128"))]),
            strukt(&["c", "NotI"], &[], vec![f(None, Src::Prim("i32"))]),
            strukt(&["c", "NotBool"], &[], vec![f(None, Src::Prim("bool"))]),
            strukt(&["c", "NotTwo"], &[], vec![f(None, Src::Prim("u8")), f(None, Src::Prim("u8"))]),
            strukt(&["c", "NotCompact"], &[], vec![fc(None, Src::Prim("u8"))]),
            strukt(&["c", "NotParam"], &[("T", false)], vec![f(None, Src::Param(0))]),
        ];
        let mut roots: Vec<Src> = (0..11).map(|d| Src::App(d, vec![])).collect();
        roots.push(Src::App(11, vec![Src::Prim("u32")]));
        roots.push(Src::Compact(bx(Src::Prim("u32"))));
        out.push(("compact".into(), Program { defs, roots }));
    }
    // 5. bit sequences, all stores and orders, as field / nested / top level
    {
        let mut fields = vec![];
        let mut i = 0;
        for st in ["u8", "u16", "u32", "u64"] {
            for lsb in [true, false] {
                fields.push(f(Some(&format!("b{i}")), Src::BitVec(st, lsb)));
                i += 1;
            }
        }
        fields.push(f(Some("v"), Src::Vec(bx(Src::BitVec("u8", true)))));
        let defs = vec![strukt(&["bits", "B"], &[], fields)];
        out.push(("bits".into(), Program { defs, roots: vec![Src::App(0, vec![]), Src::BitVec("u16", false)] }));
    }
    // 6. recursion through Box / Vec / Option, mutual recursion, generic recursion
    {
        let defs = vec![
            Def { path: p(&["r", "List"]), params: vec![("T".into(), false)], docs: vec![],
                  body: Body::Enum(vec![("Nil".into(), 0, vec![], vec![]),
                                        ("Cons".into(), 1, vec![f(None, Src::Param(0)), f(None, Src::BoxT(bx(Src::App(0, vec![Src::Param(0)]))))], vec![])]) },
            strukt(&["r", "Tree"], &[], vec![f(Some("kids"), Src::Vec(bx(Src::App(1, vec![])))), f(Some("parent"), Src::Opt(bx(Src::BoxT(bx(Src::App(1, vec![]))))))]),
            strukt(&["r", "A"], &[], vec![f(Some("b"), Src::Opt(bx(Src::BoxT(bx(Src::App(3, vec![]))))))]),
            strukt(&["r", "B"], &[], vec![f(Some("a"), Src::Vec(bx(Src::App(2, vec![]))))]),
        ];
        out.push(("recursive".into(), Program { defs, roots: vec![Src::App(0, vec![Src::Prim("u16")]), Src::App(0, vec![Src::Prim("i8")]), Src::App(1, vec![]), Src::App(2, vec![])] }));
    }
    // 7. nested generics, several instantiations, generic arguments that are generic types
    {
        let defs = vec![
            strukt(&["n", "Inner"], &[("X", false)], vec![f(Some("x"), Src::Param(0))]),
            strukt(&["n", "Mid"], &[("A", false), ("B", false)], vec![f(Some("i"), Src::App(0, vec![Src::Param(1)])), f(Some("a"), Src::Vec(bx(Src::Param(0))))]),
            strukt(&["n", "deep", "Outer"], &[("T", false)], vec![f(None, Src::App(1, vec![Src::Param(0), Src::App(0, vec![Src::Param(0)])])), f(None, Src::Prim("u8"))]),
        ];
        let roots = vec![
            Src::App(2, vec![Src::Prim("u16")]), Src::App(2, vec![Src::Prim("i64")]),
            Src::App(1, vec![Src::Prim("char"), Src::Prim("i8")]),
            Src::App(0, vec![Src::Tuple(vec![Src::Prim("u16"), Src::Prim("u64")])]),
        ];
        out.push(("nested-generics".into(), Program { defs, roots }));
    }
    // 8. a two-parameter generic whose parameters are only used wrapped, instantiated with
    //    arguments that overlap across positions (Pair<a,b>, Pair<b,c>, Pair<c,a>)
    {
        let defs = vec![strukt(&["x", "Pair"], &[("T", false), ("U", false)], vec![
            f(Some("first"), Src::Vec(bx(Src::Param(0)))),
            f(Some("second"), Src::Vec(bx(Src::Param(1)))),
            f(Some("both"), Src::Tuple(vec![Src::Opt(bx(Src::Param(0))), Src::Array(2, bx(Src::Param(1)))])),
        ])];
        let a = Src::Prim("u8");
        let b = Src::Prim("u16");
        let c = Src::Prim("u32");
        // the instantiation that shares no argument with the others comes first
        let roots = vec![
            Src::App(0, vec![Src::Prim("bool"), Src::Prim("char")]),
            Src::App(0, vec![b.clone(), c.clone()]),
            Src::App(0, vec![a.clone(), b.clone()]),
            Src::App(0, vec![c.clone(), a.clone()]),
        ];
        out.push(("cross-overlap".into(), Program { defs, roots }));
    }
    // 9. instantiation arguments that are transparent wrappers, registered FIRST
    {
        let defs = vec![strukt(&["w", "Wrapper"], &[("T", false)], vec![
            f(Some("value"), Src::Param(0)),
            f(Some("many"), Src::Vec(bx(Src::Param(0)))),
        ])];
        let roots = vec![
            Src::App(0, vec![Src::Cow(bx(Src::Prim("str")))]),
            Src::App(0, vec![Src::Prim("u32")]),
            Src::App(0, vec![Src::Cow(bx(Src::Vec(bx(Src::Prim("u16")))))]),
        ];
        out.push(("cow-args".into(), Program { defs, roots }));
    }
    // 10. compact fields of a type parameter (T: HasCompact), two instantiations; a wrapper
    //     reachable from its user only through a Compact
    {
        let defs = vec![
            strukt(&["k", "Amount"], &[("Balance", false)], vec![fc(Some("value"), Src::Param(0)), f(Some("memo"), Src::Prim("str"))]),
            strukt(&["k", "TupleAmount"], &[("B", false)], vec![fc(None, Src::Param(0))]),
            strukt(&["k", "Percent"], &[], vec![f(None, Src::Prim("u8"))]),
            strukt(&["k", "Payout"], &[], vec![fc(Some("share"), Src::App(2, vec![])), f(Some("to"), Src::Prim("u32"))]),
            strukt(&["k", "Ledger"], &[], vec![f(Some("fee"), Src::App(0, vec![Src::Prim("u32")])), f(Some("stake"), Src::App(0, vec![Src::Prim("u64")])),
                                               f(Some("t"), Src::App(1, vec![Src::Prim("u16")])), f(Some("t2"), Src::App(1, vec![Src::Prim("u128")]))]),
        ];
        out.push(("compact-params".into(), Program { defs, roots: vec![Src::App(4, vec![]), Src::App(3, vec![])] }));
    }
    // 11. a generic type used inside a generic parent with the parent's parameters in swapped /
    //     nested positions (substitution rules see the resolved arguments `_1`, `_0`)
    {
        let defs = vec![
            strukt(&["s", "Pair"], &[("T", false), ("U", false)], vec![f(Some("l"), Src::Param(0)), f(Some("r"), Src::Param(1))]),
            strukt(&["s", "Outer"], &[("X", false), ("Y", false)], vec![
                f(Some("p"), Src::App(0, vec![Src::Param(1), Src::Param(0)])),
                f(Some("q"), Src::App(0, vec![Src::Vec(bx(Src::Param(1))), Src::Opt(bx(Src::Param(0)))])),
                f(Some("same"), Src::App(0, vec![Src::Param(0), Src::Param(1)])),
            ]),
        ];
        let roots = vec![Src::App(1, vec![Src::Prim("u16"), Src::Prim("i64")]), Src::App(1, vec![Src::Prim("char"), Src::Prim("u64")])];
        out.push(("swapped-params".into(), Program { defs, roots }));
    }
    // boxed compact fields (`a: Box<Compact<u32>>`): compact AND boxed, in all four field positions
    // (round-5 seeded change C09-5: the compact marker was dropped on boxed fields)
    {
        let bc = |w: &'static str| Src::BoxT(bx(Src::Compact(bx(Src::Prim(w)))));
        let defs = vec![
            strukt(&["bc", "Named"], &[], vec![f(Some("a"), bc("u32")), f(Some("b"), Src::Prim("u8")), f(Some("c"), bc("u128"))]),
            strukt(&["bc", "Unnamed"], &[], vec![f(None, bc("u16")), f(None, Src::BoxT(bx(Src::Prim("u64"))))]),
            Def { path: p(&["bc", "E"]), params: vec![], docs: vec![],
                  body: Body::Enum(vec![("A".into(), 0, vec![f(None, bc("u64"))], vec![]),
                                        ("B".into(), 3, vec![f(Some("x"), bc("u8")), f(Some("y"), Src::Compact(bx(Src::Prim("u32"))))], vec![])]) },
        ];
        let roots = vec![Src::App(0, vec![]), Src::App(1, vec![]), Src::App(2, vec![])];
        out.push(("boxed-compact".into(), Program { defs, roots }));
    }
    // generated types reachable ONLY below a generic's type parameter (round-5 seeded change C08-5: the
    // traversal recorded parameter ids without descending into them): Root -> Option<Middle> -> Leaf,
    // Vec<(u8, Twig)>;  Root2 -> Wrapper<Middle2> -> Leaf2;  Root3 -> BTreeMap<u8, Middle3> -> Leaf3
    {
        let defs = vec![
            strukt(&["ps", "Leaf"], &[], vec![f(Some("v"), Src::Prim("u8"))]),                       // 0
            strukt(&["ps", "Twig"], &[], vec![f(None, Src::Prim("u16"))]),                           // 1
            strukt(&["ps", "Middle"], &[], vec![f(Some("leaf"), Src::App(0, vec![])),
                                                f(Some("more"), Src::Vec(bx(Src::Tuple(vec![Src::Prim("u8"), Src::App(1, vec![])]))))]), // 2
            strukt(&["ps", "Root"], &[], vec![f(Some("slot"), Src::Opt(bx(Src::App(2, vec![]))))]), // 3
            strukt(&["ps", "Leaf2"], &[], vec![f(Some("v"), Src::Prim("u32"))]),                     // 4
            strukt(&["ps", "Middle2"], &[], vec![f(Some("leaf"), Src::App(4, vec![]))]),            // 5
            strukt(&["ps", "Wrapper"], &[("T", false)], vec![f(Some("inner"), Src::Param(0))]),     // 6
            strukt(&["ps", "Root2"], &[], vec![f(Some("slot"), Src::App(6, vec![Src::App(5, vec![])]))]), // 7
            strukt(&["ps", "Leaf3"], &[], vec![f(Some("v"), Src::Prim("u64"))]),                     // 8
            strukt(&["ps", "Middle3"], &[], vec![f(Some("leaf"), Src::App(8, vec![]))]),            // 9
            strukt(&["ps", "Root3"], &[], vec![f(Some("m"), Src::BTreeMap(bx(Src::Prim("u8")), bx(Src::App(9, vec![])))),
                                               f(Some("r"), Src::Res(bx(Src::App(9, vec![])), bx(Src::Prim("bool"))))]), // 10
        ];
        let roots = vec![Src::App(3, vec![]), Src::App(7, vec![]), Src::App(10, vec![])];
        out.push(("param-subtree".into(), Program { defs, roots }));
    }
    // round-6 seeded changes: (C17-6) a generic whose parameter is instantiated with a Compact type in one
    // instantiation and a plain type in another (the item must not depend on which comes first);
    // (C08-6) a recursive root that is generic, whose LATER instantiation reaches more types;
    // (C18-6) one field list with a compact and a plain field of the same recorded type name
    {
        let defs = vec![
            strukt(&["r6", "Wrapper"], &[("T", false)], vec![f(Some("value"), Src::Param(0))]),          // 0
            strukt(&["r6", "Leaf"], &[], vec![f(Some("v"), Src::Prim("u16"))]),                           // 1
            strukt(&["r6", "Deep"], &[], vec![f(Some("leaf"), Src::App(1, vec![])), f(Some("n"), Src::Prim("u8"))]), // 2
            strukt(&["r6", "Holder"], &[], vec![
                f(Some("a"), Src::App(0, vec![Src::Prim("u8")])),                                         // Wrapper<u8> first: reaches nothing
                f(Some("b"), Src::App(0, vec![Src::App(2, vec![])])),                                     // Wrapper<Deep> later: reaches Deep, Leaf
                f(Some("c"), Src::App(0, vec![Src::Compact(bx(Src::Prim("u32")))])),                      // Wrapper<Compact<u32>>
                f(Some("d"), Src::App(0, vec![Src::Prim("u64")])),
            ]),                                                                                           // 3
            strukt(&["r6", "Fees"], &[], vec![f(Some("dest"), Src::Prim("u8")), fc(Some("value"), Src::Prim("u128")), f(Some("fee_cap"), Src::Prim("u128"))]), // 4
            Def { path: p(&["r6", "Call"]), params: vec![], docs: vec![],
                  body: Body::Enum(vec![
                      ("transfer_with_cap".into(), 0, vec![f(Some("dest"), Src::Prim("u8")), fc(Some("value"), Src::Prim("u128")), f(Some("fee_cap"), Src::Prim("u128"))], vec![]),
                      ("set_limits".into(), 1, vec![f(None, Src::Prim("u32")), fc(None, Src::Prim("u32"))], vec![]),
                  ]) },                                                                                   // 5
        ];
        let roots = vec![Src::App(3, vec![]), Src::App(4, vec![]), Src::App(5, vec![])];
        out.push(("round6".into(), Program { defs, roots }));
    }
    out
}

// ---------------------------------------------------------------------------
// hand-built registries (JSON), shaped entry by entry as scale-info 2.11.5 shapes them
// (src/impls.rs): the prelude table of typegen/src/typegen/type_path.rs:196-218.
//
// Reachable from a scale-info registry (the impl gives the entry a one-segment path):
//   Option, Result, Cow (only when nested directly in a Cow: finding F16), BTreeMap, BTreeSet,
//   BinaryHeap (composite, one unnamed field [T]), Range, RangeInclusive,
//   NonZero{I,U}{8,16,32,64,128} (composite, one unnamed field of the inner primitive).
// NOT reachable (the arm exists, scale-info never produces the path):
//   VecDeque (its TypeInfo identity is [T]: a path-less sequence), LinkedList (no TypeInfo impl),
//   NonZeroIsize / NonZeroUsize (no impl).  They are fed as synthetic entries - a legal
//   PortableRegistry - so that the arm runs at least once.

struct Jb {
    types: Vec<serde_json::Value>,
}

impl Jb {
    fn reserve(&mut self) -> u32 {
        self.types.push(serde_json::Value::Null);
        (self.types.len() - 1) as u32
    }
    fn set(&mut self, id: u32, path: &[&str], params: serde_json::Value, def: serde_json::Value, docs: &[&str]) {
        self.types[id as usize] = serde_json::json!({"id": id, "type": {"path": path, "params": params, "def": def, "docs": docs}});
    }
    fn add(&mut self, path: &[&str], params: serde_json::Value, def: serde_json::Value) -> u32 {
        let id = self.reserve();
        self.set(id, path, params, def, &[]);
        id
    }
    fn prim(&mut self, p: &str) -> u32 {
        for (i, t) in self.types.iter().enumerate() {
            if t["type"]["def"]["primitive"] == serde_json::json!(p) {
                return i as u32;
            }
        }
        self.add(&[], serde_json::json!([]), serde_json::json!({"primitive": p}))
    }
    fn seq(&mut self, e: u32) -> u32 {
        for (i, t) in self.types.iter().enumerate() {
            if t["type"]["def"]["sequence"]["type"] == serde_json::json!(e) {
                return i as u32;
            }
        }
        self.add(&[], serde_json::json!([]), serde_json::json!({"sequence": {"type": e}}))
    }
    fn tuple(&mut self, es: &[u32]) -> u32 {
        self.add(&[], serde_json::json!([]), serde_json::json!({"tuple": es}))
    }
    fn array(&mut self, n: u32, e: u32) -> u32 {
        self.add(&[], serde_json::json!([]), serde_json::json!({"array": {"len": n, "type": e}}))
    }
    /// `Name<T>` as a composite with one unnamed field `[T]` (BTreeSet, BinaryHeap; synthetic VecDeque, LinkedList)
    fn coll(&mut self, name: &str, e: u32) -> u32 {
        let id = self.reserve();
        let s = self.seq(e);
        self.set(id, &[name], serde_json::json!([{"name": "T", "type": e}]),
                 serde_json::json!({"composite": {"fields": [{"type": s, "docs": []}]}}), &[]);
        id
    }
    fn map(&mut self, k: u32, v: u32) -> u32 {
        let id = self.reserve();
        let t = self.tuple(&[k, v]);
        let s = self.seq(t);
        self.set(id, &["BTreeMap"], serde_json::json!([{"name": "K", "type": k}, {"name": "V", "type": v}]),
                 serde_json::json!({"composite": {"fields": [{"type": s, "docs": []}]}}), &[]);
        id
    }
    fn option(&mut self, e: u32) -> u32 {
        self.add(&["Option"], serde_json::json!([{"name": "T", "type": e}]), serde_json::json!({"variant": {"variants": [
            {"name": "None", "index": 0, "fields": [], "docs": []},
            {"name": "Some", "index": 1, "fields": [{"type": e, "docs": []}], "docs": []}]}}))
    }
    fn result(&mut self, x: u32, y: u32) -> u32 {
        self.add(&["Result"], serde_json::json!([{"name": "T", "type": x}, {"name": "E", "type": y}]), serde_json::json!({"variant": {"variants": [
            {"name": "Ok", "index": 0, "fields": [{"type": x, "docs": []}], "docs": []},
            {"name": "Err", "index": 1, "fields": [{"type": y, "docs": []}], "docs": []}]}}))
    }
    fn cow(&mut self, e: u32) -> u32 {
        self.add(&["Cow"], serde_json::json!([{"name": "T", "type": e}]),
                 serde_json::json!({"composite": {"fields": [{"type": e, "docs": []}]}}))
    }
    fn range(&mut self, name: &str, e: u32) -> u32 {
        self.add(&[name], serde_json::json!([{"name": "Idx", "type": e}]), serde_json::json!({"composite": {"fields": [
            {"name": "start", "type": e, "typeName": "Idx", "docs": []},
            {"name": "end", "type": e, "typeName": "Idx", "docs": []}]}}))
    }
    fn nonzero(&mut self, name: &str, inner: &str) -> u32 {
        let p = self.prim(inner);
        self.add(&[name], serde_json::json!([]), serde_json::json!({"composite": {"fields": [{"type": p, "docs": []}]}}))
    }
}

fn jfield(name: Option<&str>, ty: u32, tn: &str) -> serde_json::Value {
    let mut f = serde_json::json!({"type": ty, "typeName": tn, "docs": []});
    if let Some(n) = name {
        f["name"] = serde_json::json!(n);
    }
    f
}

pub const NONZERO: [(&str, &str); 12] = [
    ("NonZeroI8", "i8"), ("NonZeroU8", "u8"), ("NonZeroI16", "i16"), ("NonZeroU16", "u16"),
    ("NonZeroI32", "i32"), ("NonZeroU32", "u32"), ("NonZeroI64", "i64"), ("NonZeroU64", "u64"),
    ("NonZeroI128", "i128"), ("NonZeroU128", "u128"),
    // synthetic (scale-info has no impl for the pointer-sized ones)
    ("NonZeroIsize", "i64"), ("NonZeroUsize", "u64"),
];

/// (name, registry JSON).  `prelude`: every arm of the prelude table as the type of a field, nested
/// in Vec / Option / tuple / array / map / Box, under a type parameter, as a generic argument of a
/// generated type, and (every entry) at top level through `resolve_type_path`; recursion through
/// every heap collection.  `prelude-min`: one struct with one field per heap-allocated arm (the
/// small registry of the C09 switch cube).
pub fn json_registries() -> Vec<(String, serde_json::Value)> {
    use serde_json::json;
    let mut out = vec![];
    {
        let mut b = Jb { types: vec![] };
        let u8t = b.prim("u8");
        let u16t = b.prim("u16");
        let u32t = b.prim("u32");
        let boolt = b.prim("bool");
        let strt = b.prim("str");
        // --- p::All: one named field per table arm
        let all = b.reserve();
        let mut fields = vec![];
        let opt = b.option(u8t);
        fields.push(jfield(Some("option"), opt, "Option<u8>"));
        let res = b.result(u8t, boolt);
        fields.push(jfield(Some("result"), res, "Result<u8, bool>"));
        // the `Cow` arm is only reached by a Cow nested directly in a Cow (F16)
        let cow1 = b.cow(strt);
        let cow2 = b.cow(cow1);
        fields.push(jfield(Some("cow_cow"), cow2, "Cow<'static, Cow<'static, str>>"));
        let m = b.map(u32t, strt);
        fields.push(jfield(Some("btree_map"), m, "BTreeMap<u32, String>"));
        let s = b.coll("BTreeSet", u16t);
        fields.push(jfield(Some("btree_set"), s, "BTreeSet<u16>"));
        let heap = b.coll("BinaryHeap", u32t);
        fields.push(jfield(Some("binary_heap"), heap, "BinaryHeap<u32>"));
        let dq = b.coll("VecDeque", u8t); // synthetic
        fields.push(jfield(Some("vec_deque"), dq, "VecDeque<u8>"));
        let ll = b.coll("LinkedList", u8t); // synthetic
        fields.push(jfield(Some("linked_list"), ll, "LinkedList<u8>"));
        let r = b.range("Range", u32t);
        fields.push(jfield(Some("range"), r, "Range<u32>"));
        let ri = b.range("RangeInclusive", u32t);
        fields.push(jfield(Some("range_inclusive"), ri, "RangeInclusive<u32>"));
        let mut nz_ids = vec![];
        for (n, inner) in NONZERO {
            let id = b.nonzero(n, inner);
            nz_ids.push(id);
            fields.push(jfield(Some(&format!("f_{}", n.to_lowercase())), id, n));
        }
        b.set(all, &["p", "All"], json!([]), json!({"composite": {"fields": fields}}), &["one field per prelude type", " second \"line\""]);
        // --- p::Nested: the heap arms in nested positions, unnamed fields
        let nested = b.reserve();
        let v_heap = b.seq(heap);
        let o_ll = b.option(ll);
        let tup = b.tuple(&[dq, ri]);
        let arr = b.array(2, nz_ids[5]);
        let m2 = b.map(u32t, heap);
        let r_heap = b.result(heap, ll);
        b.set(nested, &["p", "Nested"], json!([]), json!({"composite": {"fields": [
            jfield(None, v_heap, "Vec<BinaryHeap<u32>>"),
            jfield(None, o_ll, "Option<LinkedList<u8>>"),
            jfield(None, tup, "(VecDeque<u8>, RangeInclusive<u32>)"),
            jfield(None, arr, "[NonZeroU32; 2]"),
            jfield(None, m2, "BTreeMap<u32, BinaryHeap<u32>>"),
            jfield(None, heap, "Box<BinaryHeap<u32>>"),
            jfield(None, r_heap, "Result<BinaryHeap<u32>, LinkedList<u8>>"),
        ]}}), &[]);
        // --- p::Gen<T>: the parameter underneath prelude types, two instantiations
        for arg in [u16t, nz_ids[3]] {
            let g = b.reserve();
            let h = b.coll("BinaryHeap", arg);
            let d = b.coll("VecDeque", arg);
            let l = b.coll("LinkedList", arg);
            let r = b.range("RangeInclusive", arg);
            let o = b.option(arg);
            b.set(g, &["p", "Gen"], json!([{"name": "T", "type": arg}]), json!({"composite": {"fields": [
                jfield(Some("h"), h, "BinaryHeap<T>"),
                jfield(Some("d"), d, "VecDeque<T>"),
                jfield(Some("l"), l, "LinkedList<T>"),
                jfield(Some("r"), r, "RangeInclusive<T>"),
                jfield(Some("o"), o, "Option<T>"),
            ]}}), &[]);
        }
        // --- p::Holder<T> { v: T } instantiated with prelude types (generic arguments of a generated type)
        let mut holders = vec![];
        for arg in [heap, ll, nz_ids[0]] {
            let hid = b.add(&["p", "Holder"], json!([{"name": "T", "type": arg}]),
                            json!({"composite": {"fields": [jfield(Some("v"), arg, "T")]}}));
            holders.push(hid);
        }
        // --- p::Rec: recursion through every heap collection (and only through them)
        let rec = b.reserve();
        let rh = b.coll("BinaryHeap", rec);
        let rd = b.coll("VecDeque", rec);
        let rl = b.coll("LinkedList", rec);
        let rm = b.map(u8t, rec);
        let rs = b.coll("BTreeSet", rec);
        let ro = b.option(rec);
        b.set(rec, &["p", "Rec"], json!([]), json!({"composite": {"fields": [
            jfield(Some("heap"), rh, "BinaryHeap<Rec>"),
            jfield(Some("deque"), rd, "VecDeque<Rec>"),
            jfield(Some("list"), rl, "LinkedList<Rec>"),
            jfield(Some("map"), rm, "BTreeMap<u8, Rec>"),
            jfield(Some("set"), rs, "BTreeSet<Rec>"),
            jfield(Some("parent"), ro, "Option<Box<Rec>>"),
        ]}}), &["recursive through collections only"]);
        // --- p::E: prelude types in variant fields, docs on variants, users of the items above
        let e = b.reserve();
        b.set(e, &["p", "E"], json!([]), json!({"variant": {"variants": [
            {"name": "Heap", "index": 0, "docs": ["a heap"], "fields": [jfield(None, heap, "BinaryHeap<u32>"), jfield(None, dq, "VecDeque<u8>")]},
            {"name": "Named", "index": 5, "docs": [], "fields": [jfield(Some("list"), ll, "LinkedList<u8>"), jfield(Some("nz"), nz_ids[11], "NonZeroUsize"),
                                                                jfield(Some("range"), ri, "RangeInclusive<u32>")]},
            {"name": "Items", "index": 9, "docs": ["uses", "the items"], "fields": [jfield(None, all, "All"), jfield(None, nested, "Nested"),
                                                                                   jfield(None, holders[0], "Holder<BinaryHeap<u32>>"),
                                                                                   jfield(None, holders[1], "Holder<LinkedList<u8>>"),
                                                                                   jfield(None, holders[2], "Holder<NonZeroI8>"),
                                                                                   jfield(None, rec, "Box<Rec>")]},
        ]}}), &["enum doc"]);
        out.push(("prelude".to_string(), json!({"types": b.types})));
    }
    {
        let mut b = Jb { types: vec![] };
        let u8t = b.prim("u8");
        let strt = b.prim("str");
        let s = b.reserve();
        let m = b.map(u8t, strt);
        let set = b.coll("BTreeSet", u8t);
        let heap = b.coll("BinaryHeap", u8t);
        let dq = b.coll("VecDeque", u8t);
        let ll = b.coll("LinkedList", u8t);
        let v = b.seq(s);
        let cow1 = b.cow(strt);
        let cow2 = b.cow(cow1);
        b.set(s, &["q", "Heapy"], json!([]), json!({"composite": {"fields": [
            jfield(Some("map"), m, "BTreeMap<u8, String>"),
            jfield(Some("set"), set, "BTreeSet<u8>"),
            jfield(Some("heap"), heap, "BinaryHeap<u8>"),
            jfield(Some("deque"), dq, "VecDeque<u8>"),
            jfield(Some("list"), ll, "LinkedList<u8>"),
            jfield(Some("kids"), v, "Vec<Heapy>"),
            jfield(Some("name"), strt, "String"),
            jfield(Some("boxed"), u8t, "Box<u8>"),
            jfield(Some("cow"), cow2, "Cow<'static, Cow<'static, str>>"),
        ]}}), &["every heap-allocated prelude type", "and Vec, String, Box, Cow"]);
        out.push(("prelude-min".to_string(), json!({"types": b.types})));
    }
    out
}

/// Programs that exercise scale-info's TYPE IDENTITY (`reggen::tid_key`): the registry interns by the TypeId
/// of ONE step of `Identity`, so `Vec<Box<T>>` / `Vec<T>`, `Box<Vec<T>>` / `Vec<T>`, `Option<Box<T>>` /
/// `Option<T>`, `Box<String>` / `String`, `Box<Box<T>>` / `T`, `Foo<Box<X>>` / `Foo<X>` are pairs of distinct
/// entries with equal content, while `Box<Foo>` / `Foo` and `Vec<T>` / `VecDeque<T>` share one entry.
/// Used by the derive tier and by C05's case stream (most of these definitions are outside C05's
/// coincidence-free class: a parameter directly under Box).
pub fn identity_programs() -> Vec<(String, Program)> {
    let mut out: Vec<(String, Program)> = vec![];
    let leaf = strukt(&["i", "Leaf"], &[], vec![f(Some("v"), Src::Prim("u8"))]);
    let t = || Src::Param(0);
    // 1. every pair around a type parameter
    {
        let fields = vec![
            f(Some("a"), Src::Vec(bx(t()))),
            f(Some("b"), Src::Vec(bx(Src::BoxT(bx(t()))))),
            f(Some("c"), Src::BoxT(bx(Src::Vec(bx(t()))))),
            f(Some("d"), Src::VecDeque(bx(t()))),
            f(Some("e"), Src::Opt(bx(t()))),
            f(Some("f"), Src::Opt(bx(Src::BoxT(bx(t()))))),
            f(Some("g"), Src::BoxT(bx(Src::BoxT(bx(t()))))),
            f(Some("h"), Src::BoxT(bx(Src::Prim("str")))),
            f(Some("i"), Src::Prim("str")),
            f(Some("j"), Src::BoxT(bx(Src::VecDeque(bx(t()))))),
            f(Some("k"), Src::Tuple(vec![Src::BoxT(bx(t()))])),
            f(Some("l"), Src::Tuple(vec![t()])),
            f(Some("m"), Src::Array(2, bx(Src::BoxT(bx(t()))))),
            f(Some("n"), Src::Array(2, bx(t()))),
            f(Some("o"), Src::Cow(bx(Src::BoxT(bx(t()))))),
            f(Some("p"), Src::Cow(bx(t()))),
            f(Some("q"), Src::BoxT(bx(t()))),
            f(Some("r"), t()),
            f(Some("s"), Src::VecDeque(bx(Src::VecDeque(bx(t()))))),
            f(Some("t"), Src::Vec(bx(Src::Vec(bx(t()))))),
        ];
        let defs = vec![leaf.clone(), strukt(&["i", "Ids"], &[("T", false)], fields)];
        let roots = vec![
            Src::App(1, vec![Src::Prim("u16")]),
            Src::App(1, vec![Src::App(0, vec![])]),
            Src::App(1, vec![Src::BoxT(bx(Src::App(0, vec![])))]),
            Src::App(1, vec![Src::Vec(bx(Src::Prim("u8")))]),
            Src::App(1, vec![Src::Prim("str")]),
            Src::BoxT(bx(Src::App(1, vec![Src::Prim("u16")]))),
            Src::VecDeque(bx(Src::BoxT(bx(Src::App(0, vec![]))))),
            Src::Vec(bx(Src::App(0, vec![]))),
        ];
        out.push(("identity-generic".into(), Program { defs, roots }));
    }
    // 2. concrete pairs inside prelude types; the same wrapped type reached first through the Box
    {
        let l = || Src::App(0, vec![]);
        let b = |s: Src| Src::BoxT(bx(s));
        let fields = vec![
            f(None, Src::BTreeMap(bx(b(l())), bx(Src::Prim("u8")))),
            f(None, Src::BTreeMap(bx(l()), bx(Src::Prim("u8")))),
            f(None, Src::Res(bx(b(l())), bx(b(Src::Prim("str"))))),
            f(None, Src::Res(bx(l()), bx(Src::Prim("str")))),
            f(None, Src::BTreeSet(bx(b(Src::Prim("u32"))))),
            f(None, Src::BTreeSet(bx(Src::Prim("u32")))),
            f(None, Src::Range(bx(b(Src::Prim("u64"))))),
            f(None, Src::Range(bx(Src::Prim("u64")))),
            f(None, Src::Compact(bx(b(Src::Prim("u32"))))),
            f(None, Src::Compact(bx(Src::Prim("u32")))),
            f(None, b(Src::Vec(bx(l())))),
            f(None, Src::Vec(bx(l()))),
            f(None, b(b(l()))),
            f(None, b(Src::BitVec("u8", true))),
            f(None, Src::BitVec("u8", true)),
        ];
        let defs = vec![leaf.clone(), strukt(&["i", "Concrete"], &[], fields)];
        out.push(("identity-concrete".into(), Program { defs, roots: vec![b(b(Src::App(1, vec![]))), Src::App(1, vec![]), l()] }));
    }
    // 3. recursion with and without the Box in an argument position, an enum
    {
        let defs = vec![
            leaf.clone(),
            Def { path: p(&["i", "Tree"]), params: vec![("T".into(), false)], docs: vec![],
                  body: Body::Enum(vec![
                      ("Tip".into(), 0, vec![f(None, Src::Param(0))], vec![]),
                      ("Node".into(), 1, vec![f(Some("l"), Src::BoxT(bx(Src::App(1, vec![Src::Param(0)])))),
                                              f(Some("r"), Src::Opt(bx(Src::BoxT(bx(Src::App(1, vec![Src::Param(0)]))))))], vec![]),
                      ("Many".into(), 2, vec![f(None, Src::Vec(bx(Src::App(1, vec![Src::Param(0)])))),
                                              f(None, Src::Opt(bx(Src::App(0, vec![])))),
                                              f(None, Src::Opt(bx(Src::BoxT(bx(Src::App(0, vec![]))))))], vec![]),
                  ]) },
        ];
        let roots = vec![Src::App(1, vec![Src::Prim("u16")]), Src::App(1, vec![Src::BoxT(bx(Src::Prim("u16")))]), Src::App(1, vec![Src::App(0, vec![])])];
        out.push(("identity-recursive".into(), Program { defs, roots }));
    }
    out
}
