//! Deterministic arm-coverage corpus (runs first in every TG check): every
//! `TypeDef` arm at top level, as a field, nested in Vec / array / tuple /
//! generic argument; all primitives; all prelude types; named / unnamed /
//! unit structs and variants; used / unused / skipped parameters; boxed and
//! compact fields; bit sequences; docs.
use crate::reggen::{Body, Def, FieldDef, Program, Src, PRIMS};

fn f(name: Option<&str>, ty: Src) -> FieldDef {
    FieldDef { name: name.map(|s| s.to_string()), ty, compact_attr: false, docs: vec![], type_name: true }
}
fn fc(name: Option<&str>, ty: Src) -> FieldDef {
    FieldDef { name: name.map(|s| s.to_string()), ty, compact_attr: true, docs: vec![], type_name: true }
}
fn p(path: &[&str]) -> Vec<String> {
    path.iter().map(|s| s.to_string()).collect()
}
fn strukt(path: &[&str], params: &[(&str, bool)], fields: Vec<FieldDef>) -> Def {
    Def {
        path: p(path),
        params: params.iter().map(|(n, s)| (n.to_string(), *s)).collect(),
        body: Body::Struct(fields),
        docs: vec![],
    }
}
fn bx(s: Src) -> Box<Src> {
    Box::new(s)
}

pub fn shapes(inner: &Src) -> Vec<Src> {
    vec![
        inner.clone(),
        Src::Vec(bx(inner.clone())),
        Src::Array(3, bx(inner.clone())),
        Src::Tuple(vec![inner.clone(), Src::Prim("u8")]),
        Src::Tuple(vec![inner.clone()]),
        Src::Opt(bx(inner.clone())),
        Src::Res(bx(inner.clone()), bx(Src::Prim("str"))),
        Src::BTreeMap(bx(Src::Prim("u32")), bx(inner.clone())),
        Src::BTreeSet(bx(inner.clone())),
        Src::VecDeque(bx(inner.clone())),
        Src::Cow(bx(inner.clone())),
        Src::Range(bx(inner.clone())),
        Src::BoxT(bx(inner.clone())),
        Src::Compact(bx(Src::Prim("u64"))),
    ]
}

pub fn programs() -> Vec<(String, Program)> {
    let mut out: Vec<(String, Program)> = vec![];
    // 1. all primitives as named fields, unnamed fields, and at top level
    {
        let named: Vec<FieldDef> = PRIMS.iter().enumerate().map(|(i, pr)| f(Some(&format!("f{i}")), Src::Prim(pr))).collect();
        let unnamed: Vec<FieldDef> = PRIMS.iter().map(|pr| f(None, Src::Prim(pr))).collect();
        let defs = vec![strukt(&["a", "Named"], &[], named), strukt(&["a", "Unnamed"], &[], unnamed), strukt(&["a", "Unit"], &[], vec![])];
        let mut roots = vec![Src::App(0, vec![]), Src::App(1, vec![]), Src::App(2, vec![])];
        roots.extend(PRIMS.iter().map(|pr| Src::Prim(pr)));
        out.push(("prims".into(), Program { defs, roots }));
    }
    // 2. every shape around a primitive, a struct, and a type parameter
    {
        let inner_defs = vec![strukt(&["m", "Inner"], &[], vec![f(Some("v"), Src::Prim("u8"))])];
        for (k, inner) in [Src::Prim("u32"), Src::App(0, vec![]), Src::Param(0)].iter().enumerate() {
            let mut defs = inner_defs.clone();
            let fields: Vec<FieldDef> = shapes(inner).into_iter().enumerate().map(|(i, s)| f(Some(&format!("s{i}")), s)).collect();
            let ufields: Vec<FieldDef> = shapes(inner).into_iter().map(|s| f(None, s)).collect();
            defs.push(strukt(&["m", "sub", "Shapes"], &[("T", false)], fields));
            defs.push(strukt(&["m", "sub", "TupleShapes"], &[("T", false)], ufields.clone()));
            defs.push(Def {
                path: p(&["m", "En"]),
                params: vec![("T".into(), false)],
                body: Body::Enum(vec![
                    ("A".into(), 0, vec![], vec!["variant doc".into()]),
                    ("B".into(), 3, ufields.clone(), vec![]),
                    ("C".into(), 7, shapes(inner).into_iter().enumerate().map(|(i, s)| f(Some(&format!("c{i}")), s)).collect(), vec![]),
                ]),
                docs: vec!["enum doc".into(), "second \"line\"".into()],
            });
            let roots = vec![
                Src::App(1, vec![Src::Prim("u16")]),
                Src::App(1, vec![Src::Prim("i32")]),
                Src::App(2, vec![Src::Prim("u16")]),
                Src::App(3, vec![Src::Prim("char")]),
                Src::Tuple(vec![]),
            ];
            out.push((format!("shapes{k}"), Program { defs, roots }));
        }
    }
    // 3. parameters: used / unused / skipped, 0..3 of them, unit / tuple / named bodies
    {
        let mut defs = vec![];
        let bodies: Vec<(&str, Vec<FieldDef>)> = vec![
            ("U", vec![]),
            ("N1", vec![f(Some("a"), Src::Param(0))]),
            ("T1", vec![f(None, Src::Vec(bx(Src::Param(0))))]),
            ("N0", vec![f(Some("a"), Src::Prim("u8"))]),
            ("T0", vec![f(None, Src::Prim("u8"))]),
        ];
        for (n, b) in &bodies {
            for np in 1..=3usize {
                for skipmask in 0..(1 << np) {
                    let names = ["T", "U", "V"];
                    let params: Vec<(&str, bool)> = (0..np).map(|i| (names[i], (skipmask >> i) & 1 == 1)).collect();
                    let path_last = format!("{}p{}s{}", n, np, skipmask);
                    defs.push(strukt(&["g", &path_last], &params, b.clone()));
                }
            }
        }
        // an enum with unused params (gets the __Ignore variant)
        defs.push(Def {
            path: p(&["g", "EnumUnused"]),
            params: vec![("T".into(), false), ("U".into(), false)],
            body: Body::Enum(vec![("A".into(), 0, vec![f(None, Src::Param(1))], vec![]), ("B".into(), 1, vec![], vec![])]),
            docs: vec![],
        });
        let args = [Src::Prim("u16"), Src::Prim("i64"), Src::Prim("char")];
        let roots = (0..defs.len()).map(|d| Src::App(d, args[..defs[d].params.len()].to_vec())).collect();
        out.push(("params".into(), Program { defs, roots }));
    }
    // 4. compact: attribute on named/unnamed/variant fields, explicit Compact<T>, compact of a wrapper, in containers
    {
        let defs = vec![
            strukt(&["c", "W"], &[], vec![f(None, Src::Prim("u32"))]),
            strukt(&["c", "WN"], &[], vec![f(Some("inner"), Src::Prim("u128"))]),
            strukt(&["c", "S"], &[], vec![
                fc(Some("a"), Src::Prim("u8")), fc(Some("b"), Src::Prim("u128")),
                f(Some("c"), Src::Compact(bx(Src::Prim("u16")))),
                f(Some("d"), Src::Vec(bx(Src::Compact(bx(Src::Prim("u32")))))),
                f(Some("e"), Src::Compact(bx(Src::App(0, vec![])))),
                f(Some("g"), Src::Opt(bx(Src::Compact(bx(Src::Prim("u64")))))),
            ]),
            strukt(&["c", "T"], &[], vec![fc(None, Src::Prim("u64")), f(None, Src::Tuple(vec![Src::Compact(bx(Src::Prim("u8")))]))]),
            Def { path: p(&["c", "E"]), params: vec![], docs: vec![],
                  body: Body::Enum(vec![("A".into(), 1, vec![fc(None, Src::Prim("u32"))], vec![]),
                                        ("B".into(), 2, vec![fc(Some("x"), Src::Prim("u16"))], vec![])]) },
            // CompactAs candidates and non-candidates
            strukt(&["c", "As8"], &[], vec![f(None, Src::Prim("u8"))]),
            strukt(&["c", "As128"], &[], vec![f(Some("v"), Src::Prim("u128"))]),
            strukt(&["c", "NotI"], &[], vec![f(None, Src::Prim("i32"))]),
            strukt(&["c", "NotBool"], &[], vec![f(None, Src::Prim("bool"))]),
            strukt(&["c", "NotTwo"], &[], vec![f(None, Src::Prim("u8")), f(None, Src::Prim("u8"))]),
            strukt(&["c", "NotCompact"], &[], vec![fc(None, Src::Prim("u8"))]),
            strukt(&["c", "NotParam"], &[("T", false)], vec![f(None, Src::Param(0))]),
        ];
        let mut roots: Vec<Src> = (0..11).map(|d| Src::App(d, vec![])).collect();
        roots.push(Src::App(11, vec![Src::Prim("u32")]));
        roots.push(Src::Compact(bx(Src::Prim("u32"))));
        out.push(("compact".into(), Program { defs, roots }));
    }
    // 5. bit sequences, all stores and orders, as field / nested / top level
    {
        let mut fields = vec![];
        let mut i = 0;
        for st in ["u8", "u16", "u32", "u64"] {
            for lsb in [true, false] {
                fields.push(f(Some(&format!("b{i}")), Src::BitVec(st, lsb)));
                i += 1;
            }
        }
        fields.push(f(Some("v"), Src::Vec(bx(Src::BitVec("u8", true)))));
        let defs = vec![strukt(&["bits", "B"], &[], fields)];
        out.push(("bits".into(), Program { defs, roots: vec![Src::App(0, vec![]), Src::BitVec("u16", false)] }));
    }
    // 6. recursion through Box / Vec / Option, mutual recursion, generic recursion
    {
        let defs = vec![
            Def { path: p(&["r", "List"]), params: vec![("T".into(), false)], docs: vec![],
                  body: Body::Enum(vec![("Nil".into(), 0, vec![], vec![]),
                                        ("Cons".into(), 1, vec![f(None, Src::Param(0)), f(None, Src::BoxT(bx(Src::App(0, vec![Src::Param(0)]))))], vec![])]) },
            strukt(&["r", "Tree"], &[], vec![f(Some("kids"), Src::Vec(bx(Src::App(1, vec![])))), f(Some("parent"), Src::Opt(bx(Src::BoxT(bx(Src::App(1, vec![]))))))]),
            strukt(&["r", "A"], &[], vec![f(Some("b"), Src::Opt(bx(Src::BoxT(bx(Src::App(3, vec![]))))))]),
            strukt(&["r", "B"], &[], vec![f(Some("a"), Src::Vec(bx(Src::App(2, vec![]))))]),
        ];
        out.push(("recursive".into(), Program { defs, roots: vec![Src::App(0, vec![Src::Prim("u16")]), Src::App(0, vec![Src::Prim("i8")]), Src::App(1, vec![]), Src::App(2, vec![])] }));
    }
    // 7. nested generics, several instantiations, generic arguments that are generic types
    {
        let defs = vec![
            strukt(&["n", "Inner"], &[("X", false)], vec![f(Some("x"), Src::Param(0))]),
            strukt(&["n", "Mid"], &[("A", false), ("B", false)], vec![f(Some("i"), Src::App(0, vec![Src::Param(1)])), f(Some("a"), Src::Vec(bx(Src::Param(0))))]),
            strukt(&["n", "deep", "Outer"], &[("T", false)], vec![f(None, Src::App(1, vec![Src::Param(0), Src::App(0, vec![Src::Param(0)])])), f(None, Src::Prim("u8"))]),
        ];
        let roots = vec![
            Src::App(2, vec![Src::Prim("u16")]), Src::App(2, vec![Src::Prim("i64")]),
            Src::App(1, vec![Src::Prim("char"), Src::Prim("i8")]),
            Src::App(0, vec![Src::Tuple(vec![Src::Prim("u16"), Src::Prim("u64")])]),
        ];
        out.push(("nested-generics".into(), Program { defs, roots }));
    }
    // 8. a two-parameter generic whose parameters are only used wrapped, instantiated with
    //    arguments that overlap across positions (Pair<a,b>, Pair<b,c>, Pair<c,a>)
    {
        let defs = vec![strukt(&["x", "Pair"], &[("T", false), ("U", false)], vec![
            f(Some("first"), Src::Vec(bx(Src::Param(0)))),
            f(Some("second"), Src::Vec(bx(Src::Param(1)))),
            f(Some("both"), Src::Tuple(vec![Src::Opt(bx(Src::Param(0))), Src::Array(2, bx(Src::Param(1)))])),
        ])];
        let a = Src::Prim("u8");
        let b = Src::Prim("u16");
        let c = Src::Prim("u32");
        // the instantiation that shares no argument with the others comes first
        let roots = vec![
            Src::App(0, vec![Src::Prim("bool"), Src::Prim("char")]),
            Src::App(0, vec![b.clone(), c.clone()]),
            Src::App(0, vec![a.clone(), b.clone()]),
            Src::App(0, vec![c.clone(), a.clone()]),
        ];
        out.push(("cross-overlap".into(), Program { defs, roots }));
    }
    // 9. instantiation arguments that are transparent wrappers, registered FIRST
    {
        let defs = vec![strukt(&["w", "Wrapper"], &[("T", false)], vec![
            f(Some("value"), Src::Param(0)),
            f(Some("many"), Src::Vec(bx(Src::Param(0)))),
        ])];
        let roots = vec![
            Src::App(0, vec![Src::Cow(bx(Src::Prim("str")))]),
            Src::App(0, vec![Src::Prim("u32")]),
            Src::App(0, vec![Src::Cow(bx(Src::Vec(bx(Src::Prim("u16")))))]),
        ];
        out.push(("cow-args".into(), Program { defs, roots }));
    }
    // 10. compact fields of a type parameter (T: HasCompact), two instantiations; a wrapper
    //     reachable from its user only through a Compact
    {
        let defs = vec![
            strukt(&["k", "Amount"], &[("Balance", false)], vec![fc(Some("value"), Src::Param(0)), f(Some("memo"), Src::Prim("str"))]),
            strukt(&["k", "TupleAmount"], &[("B", false)], vec![fc(None, Src::Param(0))]),
            strukt(&["k", "Percent"], &[], vec![f(None, Src::Prim("u8"))]),
            strukt(&["k", "Payout"], &[], vec![fc(Some("share"), Src::App(2, vec![])), f(Some("to"), Src::Prim("u32"))]),
            strukt(&["k", "Ledger"], &[], vec![f(Some("fee"), Src::App(0, vec![Src::Prim("u32")])), f(Some("stake"), Src::App(0, vec![Src::Prim("u64")])),
                                               f(Some("t"), Src::App(1, vec![Src::Prim("u16")])), f(Some("t2"), Src::App(1, vec![Src::Prim("u128")]))]),
        ];
        out.push(("compact-params".into(), Program { defs, roots: vec![Src::App(4, vec![]), Src::App(3, vec![])] }));
    }
    // 11. a generic type used inside a generic parent with the parent's parameters in swapped /
    //     nested positions (substitution rules see the resolved arguments `_1`, `_0`)
    {
        let defs = vec![
            strukt(&["s", "Pair"], &[("T", false), ("U", false)], vec![f(Some("l"), Src::Param(0)), f(Some("r"), Src::Param(1))]),
            strukt(&["s", "Outer"], &[("X", false), ("Y", false)], vec![
                f(Some("p"), Src::App(0, vec![Src::Param(1), Src::Param(0)])),
                f(Some("q"), Src::App(0, vec![Src::Vec(bx(Src::Param(1))), Src::Opt(bx(Src::Param(0)))])),
                f(Some("same"), Src::App(0, vec![Src::Param(0), Src::Param(1)])),
            ]),
        ];
        let roots = vec![Src::App(1, vec![Src::Prim("u16"), Src::Prim("i64")]), Src::App(1, vec![Src::Prim("char"), Src::Prim("u64")])];
        out.push(("swapped-params".into(), Program { defs, roots }));
    }
    out
}

/// Programs that exercise scale-info's TYPE IDENTITY (`reggen::tid_key`): the registry interns by the TypeId
/// of ONE step of `Identity`, so `Vec<Box<T>>` / `Vec<T>`, `Box<Vec<T>>` / `Vec<T>`, `Option<Box<T>>` /
/// `Option<T>`, `Box<String>` / `String`, `Box<Box<T>>` / `T`, `Foo<Box<X>>` / `Foo<X>` are pairs of distinct
/// entries with equal content, while `Box<Foo>` / `Foo` and `Vec<T>` / `VecDeque<T>` share one entry.
/// Used by the derive tier and by C05's case stream (most of these definitions are outside C05's
/// coincidence-free class: a parameter directly under Box).
pub fn identity_programs() -> Vec<(String, Program)> {
    let mut out: Vec<(String, Program)> = vec![];
    let leaf = strukt(&["i", "Leaf"], &[], vec![f(Some("v"), Src::Prim("u8"))]);
    let t = || Src::Param(0);
    // 1. every pair around a type parameter
    {
        let fields = vec![
            f(Some("a"), Src::Vec(bx(t()))),
            f(Some("b"), Src::Vec(bx(Src::BoxT(bx(t()))))),
            f(Some("c"), Src::BoxT(bx(Src::Vec(bx(t()))))),
            f(Some("d"), Src::VecDeque(bx(t()))),
            f(Some("e"), Src::Opt(bx(t()))),
            f(Some("f"), Src::Opt(bx(Src::BoxT(bx(t()))))),
            f(Some("g"), Src::BoxT(bx(Src::BoxT(bx(t()))))),
            f(Some("h"), Src::BoxT(bx(Src::Prim("str")))),
            f(Some("i"), Src::Prim("str")),
            f(Some("j"), Src::BoxT(bx(Src::VecDeque(bx(t()))))),
            f(Some("k"), Src::Tuple(vec![Src::BoxT(bx(t()))])),
            f(Some("l"), Src::Tuple(vec![t()])),
            f(Some("m"), Src::Array(2, bx(Src::BoxT(bx(t()))))),
            f(Some("n"), Src::Array(2, bx(t()))),
            f(Some("o"), Src::Cow(bx(Src::BoxT(bx(t()))))),
            f(Some("p"), Src::Cow(bx(t()))),
            f(Some("q"), Src::BoxT(bx(t()))),
            f(Some("r"), t()),
            f(Some("s"), Src::VecDeque(bx(Src::VecDeque(bx(t()))))),
            f(Some("t"), Src::Vec(bx(Src::Vec(bx(t()))))),
        ];
        let defs = vec![leaf.clone(), strukt(&["i", "Ids"], &[("T", false)], fields)];
        let roots = vec![
            Src::App(1, vec![Src::Prim("u16")]),
            Src::App(1, vec![Src::App(0, vec![])]),
            Src::App(1, vec![Src::BoxT(bx(Src::App(0, vec![])))]),
            Src::App(1, vec![Src::Vec(bx(Src::Prim("u8")))]),
            Src::App(1, vec![Src::Prim("str")]),
            Src::BoxT(bx(Src::App(1, vec![Src::Prim("u16")]))),
            Src::VecDeque(bx(Src::BoxT(bx(Src::App(0, vec![]))))),
            Src::Vec(bx(Src::App(0, vec![]))),
        ];
        out.push(("identity-generic".into(), Program { defs, roots }));
    }
    // 2. concrete pairs inside prelude types; the same wrapped type reached first through the Box
    {
        let l = || Src::App(0, vec![]);
        let b = |s: Src| Src::BoxT(bx(s));
        let fields = vec![
            f(None, Src::BTreeMap(bx(b(l())), bx(Src::Prim("u8")))),
            f(None, Src::BTreeMap(bx(l()), bx(Src::Prim("u8")))),
            f(None, Src::Res(bx(b(l())), bx(b(Src::Prim("str"))))),
            f(None, Src::Res(bx(l()), bx(Src::Prim("str")))),
            f(None, Src::BTreeSet(bx(b(Src::Prim("u32"))))),
            f(None, Src::BTreeSet(bx(Src::Prim("u32")))),
            f(None, Src::Range(bx(b(Src::Prim("u64"))))),
            f(None, Src::Range(bx(Src::Prim("u64")))),
            f(None, Src::Compact(bx(b(Src::Prim("u32"))))),
            f(None, Src::Compact(bx(Src::Prim("u32")))),
            f(None, b(Src::Vec(bx(l())))),
            f(None, Src::Vec(bx(l()))),
            f(None, b(b(l()))),
            f(None, b(Src::BitVec("u8", true))),
            f(None, Src::BitVec("u8", true)),
        ];
        let defs = vec![leaf.clone(), strukt(&["i", "Concrete"], &[], fields)];
        out.push(("identity-concrete".into(), Program { defs, roots: vec![b(b(Src::App(1, vec![]))), Src::App(1, vec![]), l()] }));
    }
    // 3. recursion with and without the Box in an argument position, an enum
    {
        let defs = vec![
            leaf.clone(),
            Def { path: p(&["i", "Tree"]), params: vec![("T".into(), false)], docs: vec![],
                  body: Body::Enum(vec![
                      ("Tip".into(), 0, vec![f(None, Src::Param(0))], vec![]),
                      ("Node".into(), 1, vec![f(Some("l"), Src::BoxT(bx(Src::App(1, vec![Src::Param(0)])))),
                                              f(Some("r"), Src::Opt(bx(Src::BoxT(bx(Src::App(1, vec![Src::Param(0)]))))))], vec![]),
                      ("Many".into(), 2, vec![f(None, Src::Vec(bx(Src::App(1, vec![Src::Param(0)])))),
                                              f(None, Src::Opt(bx(Src::App(0, vec![])))),
                                              f(None, Src::Opt(bx(Src::BoxT(bx(Src::App(0, vec![]))))))], vec![]),
                  ]) },
        ];
        let roots = vec![Src::App(1, vec![Src::Prim("u16")]), Src::App(1, vec![Src::BoxT(bx(Src::Prim("u16")))]), Src::App(1, vec![Src::App(0, vec![])])];
        out.push(("identity-recursive".into(), Program { defs, roots }));
    }
    out
}
