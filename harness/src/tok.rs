//! Flattening of token streams: idents, single punctuation characters, literal
//! texts and group delimiters (None-delimited groups are transparent).
use proc_macro2::{Delimiter, TokenStream, TokenTree};

pub fn flatten(ts: TokenStream) -> Vec<String> {
    let mut out = Vec::new();
    flatten_into(ts, &mut out);
    out
}

fn flatten_into(ts: TokenStream, out: &mut Vec<String>) {
    for t in ts {
        match t {
            TokenTree::Group(g) => {
                let (o, c) = match g.delimiter() {
                    Delimiter::Parenthesis => ("(", ")"),
                    Delimiter::Brace => ("{", "}"),
                    Delimiter::Bracket => ("[", "]"),
                    Delimiter::None => ("", ""),
                };
                if !o.is_empty() {
                    out.push(o.to_string());
                }
                flatten_into(g.stream(), out);
                if !c.is_empty() {
                    out.push(c.to_string());
                }
            }
            TokenTree::Ident(i) => out.push(i.to_string()),
            TokenTree::Punct(p) => out.push(p.as_char().to_string()),
            TokenTree::Literal(l) => out.push(l.to_string()),
        }
    }
}

pub fn flatten_of<T: quote::ToTokens>(x: &T) -> Vec<String> {
    flatten(x.to_token_stream())
}
