//! Per-property selection of checkers and generator emphasis for the TG case type.
use crate::reggen::GenCfg;
use crate::rng::Rng;
use crate::tg::{random_cases, Ctx, SetCfg};

pub fn evals(prop: &str) -> Vec<(&'static str, &'static str)> {
    let mut v = vec![("corr_ops", "corr_ops"), ("corr_gen", "corr_gen"), ("corr_paths", "corr_paths")];
    match prop {
        _ => {}
    }
    v.push(("hyp_gen_ok", "hyp_gen_ok"));
    v
}

pub fn rule(_prop: &str) -> &'static str {
    "registries generated as programs (generic struct/enum definitions in nested modules + closed instantiations, interned in scale-info order) with random settings histories; non-trivial = distinct (registry, settings) with at least one generated item"
}

pub fn cases(prop: &str, tier: &str, ctx: &mut Ctx, rng: &mut Rng) {
    let scale = if tier == "thorough" { 8 } else { 1 };
    let _ = prop;
    random_cases(ctx, rng, 400 * scale, &GenCfg::default(),
                 &SetCfg { derives: true, substitutes: true, switches: true, missing_paths: false });
}
