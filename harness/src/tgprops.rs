//! Per-property selection of checkers and generator emphasis for the TG case type.
use crate::corpus;
use crate::faults::{self, Fault};
use crate::reggen::{self, GenCfg};
use crate::rng::Rng;
use crate::sets::{OpSpec, SettingsSpec};
use crate::tg::{bit_order_subs, item_paths, rand_settings, random_cases, Ctx, SetCfg};
use scale_info::PortableRegistry;

pub fn is_pair(prop: &str) -> bool {
    matches!(prop, "C06" | "C09" | "C17")
}

pub fn evals(prop: &str) -> Vec<(&'static str, &'static str)> {
    if is_pair(prop) {
        let mut v = vec![("corr_pair", "corr_pair")];
        match prop {
            "C06" => v.extend([("prop_same_tokens", "prop_same_tokens"), ("prop_sorted_derives", "prop_sorted_derives"),
                              ("prop_sorted_attrs", "prop_sorted_attrs"), ("corr_attr_keys", "corr_attr_keys"),
                              ("hyp_attrs_ge2", "hyp_attrs_ge2"), ("hyp_subs_permuted", "hyp_subs_permuted"),
                              ("hyp_last_wins_differ", "hyp_last_wins_differ")]),
            "C09" => v.extend([("prop_frame", "prop_frame"), ("prop_switches", "prop_switches"),
                              ("hyp_compact_marker", "hyp_compact_marker"), ("hyp_codec_off_dirty", "hyp_codec_off_dirty")]),
            // C17 runs on the case type c17_case (Corr/RunC17.v): a pair + the description-crate artefacts
            // of the retained ids; the pair checkers are lifted (same tag names)
            "C17" => {
                v = vec![("corr_pair", "c17_corr_pair"),
                         ("prop_same_tokens", "c17_prop_same_tokens"), ("prop_dedup_groups", "c17_prop_dedup_groups"),
                         ("hyp_c17", "c17_hyp_c17"), ("hyp_dedup_renames", "c17_hyp_dedup_renames"),
                         ("known_F18", "c17_known_F18"), ("known_F18_groups", "c17_known_F18_groups"),
                         ("known_F3_groups", "c17_known_F3_groups"),
                         ("corr_describe_retained", "corr_describe_retained"), ("corr_example_retained", "corr_example_retained"),
                         ("prop_describe_retained", "prop_describe_retained"), ("prop_example_retained", "prop_example_retained"),
                         ("hyp_retained_arts", "hyp_retained_arts"), ("hyp_retained_examples", "hyp_retained_examples"),
                         ("hyp_retain_c17", "hyp_retain_c17"), ("hyp_retain_items", "hyp_retain_items"),
                         ("hyp_retain_settings_valid", "hyp_retain_settings_valid"),
                         ("hyp_both_ok", "c17_hyp_both_ok")];
                return v;
            }
            _ => {}
        }
        v.push(("hyp_both_ok", "hyp_both_ok"));
        return v;
    }
    let mut v = vec![
        ("corr_ops", "corr_ops"),
        ("corr_gen", "corr_gen"),
        ("corr_paths", "corr_paths"),
        ("corr_upcasts", "corr_upcasts"),
        ("corr_dedup_obs", "corr_dedup_obs"),
    ];
    match prop {
        "C01" => v.extend([("prop_faithful", "prop_faithful"), ("prop_faithful_all", "prop_faithful_all"),
                           ("known_F3_conflation", "known_F3_conflation"), ("corr_teq_trace", "corr_teq_trace"),
                           ("hyp_coincidence_free", "hyp_coincidence_free"), ("hyp_cf_reg", "hyp_cf_reg")]),
        "C02" => v.extend([("prop_syn_parses", "prop_syn_parses"), ("prop_closed", "prop_closed"), ("prop_sized", "prop_sized"),
                           ("hyp_recursive_items", "hyp_recursive_items")]),
        "C07" => v.extend([("prop_subst", "prop_subst"), ("prop_faithful", "prop_faithful"), ("hyp_has_subst", "hyp_has_subst"), ("known_F5", "known_F5"),
                           // substitution never turns a well-formed input into a panic (or an error other than the
                           // duplicate-path one): the totality checker of C10 on the substitute-heavy stream
                           ("prop_wf_total", "prop_wf_total"), ("hyp_wf", "hyp_wf")]),
        "C08" => v.extend([("prop_derives_exact", "prop_derives_exact"), ("hyp_has_recursive", "hyp_has_recursive")]),
        "C10" => v.extend([("prop_fault_expect", "prop_fault_expect"), ("prop_wf_total", "prop_wf_total"), ("hyp_wf", "hyp_wf"),
                           ("prop_missing_path", "prop_missing_path"), ("prop_missing_id_paths", "prop_missing_id_paths"),
                           ("hyp_missing_path", "hyp_missing_path"), ("hyp_missing_path_gen", "hyp_missing_path_gen"),
                           ("hyp_missing_id_paths", "hyp_missing_id_paths"), ("hyp_missing_id_gen", "hyp_missing_id_gen"),
                           ("hyp_descent_unsure", "hyp_descent_unsure")]),
        "C18" => v.extend([("prop_standalone", "prop_standalone"), ("prop_standalone_registry", "prop_standalone_registry")]),
        _ => {}
    }
    v.push(("hyp_gen_ok", "hyp_gen_ok"));
    v
}

pub fn rule(prop: &str) -> &'static str {
    match prop {
        "C10" => "fault enumeration: for each well-formed base registry every entry id, every reference site and every field list receives one fault (wrong id / missing id / mixed fields), plus settings without compact / bits path (stream fault:no-compact-path / fault:no-bits-path and the random missing_paths settings: prop_missing_path demands CompactPathNone / DecodedBitsPathNone from resolve_type_path of every id whose descent meets such an entry and from generation, Ok elsewhere; counters hyp_missing_path, hyp_missing_path_gen), missing ids at EVERY site (field, sequence / array / tuple element, compact inner, bit store / order, type parameter: prop_missing_id_paths demands TypeNotFound [m] from resolve_type_path of exactly the entries whose descent reaches the dangling reference and from generation when an item field reaches it; the harness expectation of prop_fault_expect now also covers nested sites reached by generation, see extra.notes), plus fault-free registries, plus the out-of-class stream outside:compact-field (compact fields with tuple / array / unit inner types: panic, model and implementation alike); non-trivial = distinct (registry, settings) with at least one generated item",
        "C06" => "pairs of runs on equal inputs: permuted / repeated builder histories (derive / attribute calls permuted, one repeated; stream permuted-subs: substitute calls with pairwise distinct sources permuted together with everything else) and fresh settings objects; outputs must be token-identical; two independent de-duplication runs; stream subs-last-wins (kind last-wins): one source inserted twice with two targets in both orders - outputs need not agree, only the model must reproduce both; derive AND attribute lists of every observed item strictly sorted; non-trivial = distinct pair with at least one generated item",
        "C09" => "pairs of settings differing in exactly one switch (root, docs, codec, alloc, compact path, bits path) over the arm-coverage corpus (incl. the hand-built prelude registries: every arm of the prelude table) and random programs: a random base point with its six flips, and stream cube:* = all 64 switch combinations on small corpus registries (all corpus registries in thorough), every edge of the switch cube as one pair",
        "C02" => "arm-coverage corpus (incl. the hand-built prelude registries: recursion through every heap collection) x settings, registries generated as programs with random settings histories, and stream dedup-family: same-path family programs after ensure_unique_type_paths (the de-duplicated registry is the input); non-trivial = distinct (registry, settings) with at least one generated item",
        "C17" => "pairs (registry, consistently renumbered registry) and (registry, retain()-ed sub-registry: three root sets per registry - one random id, two random ids, an instantiation of a generic definition - alternately with the registry's random settings and with settings free of path-specific derives / substitutes); every retain pair carries, for up to 12 retained ids (old id, new id of scale-info's id map), type_description and scale_value_from_seed (2 seeds) on both registries and the real encode/decode round trips of each value against both registries",
        _ => "arm-coverage corpus x settings, then registries generated as programs (generic struct/enum definitions in nested modules + closed instantiations, interned in scale-info order) with random settings histories; non-trivial = distinct (registry, settings) with at least one generated item",
    }
}

fn corpus_regs() -> Vec<(String, serde_json::Value, PortableRegistry)> {
    let mut v: Vec<(String, serde_json::Value, PortableRegistry)> = corpus::programs()
        .into_iter()
        .map(|(n, p)| {
            let (rj, _) = reggen::build(&p);
            let reg = reggen::to_registry(&rj);
            (n, rj, reg)
        })
        .collect();
    // hand-built JSON registries: every arm of the prelude table (reachable and synthetic)
    for (n, rj) in corpus::json_registries() {
        let reg = reggen::to_registry(&rj);
        v.push((n, rj, reg));
    }
    v
}

fn base_spec(reg: &PortableRegistry) -> SettingsSpec {
    let mut s = SettingsSpec::default();
    s.ops.extend(bit_order_subs(reg));
    s
}

fn all_on(reg: &PortableRegistry) -> SettingsSpec {
    let mut s = base_spec(reg);
    s.ops.push(OpSpec::DerivesAll(vec!["::codec::Encode".into(), "::codec::Decode".into(), "Debug".into()]));
    s
}

/// Deterministic registries with a namespaced item `m::S` whose single field has the type
/// `Compact<X>` for X in { (u8,u8), [u8;2], (), Cow<(u8,u8)>, Vec<u8> (control), Cow<Vec<u8>> (control) },
/// as a named field, a tuple-struct field, an enum variant field, and reached through a type
/// parameter (`struct S<T> { #[codec(compact)] x: T }` instantiated with X: the inner type of the
/// Compact entry resolves to the parameter `_0`, so the field prints `_0` and nothing panics).
/// Out-of-class inputs (C10's "explicit panic / error outcomes outside the class"): identifiers
/// that `syn` rejects, keywords, unknown single-segment (prelude) paths such as scale-info's
/// `Duration`, a parameterless type called `Cow`, 256-bit integers.  Only the model's prediction of
/// the outcome (error kind / panic) is compared; `hyp_wf` is false on all of them.
pub fn outside_idents_and_prelude() -> Vec<serde_json::Value> {
    use serde_json::json;
    let u8t = |id: u32| json!({"id": id, "type": {"path": [], "params": [], "def": {"primitive": "u8"}, "docs": []}});
    let st = |id: u32, path: Vec<&str>, fname: Option<&str>, fty: u32| {
        let mut f = json!({"type": fty, "docs": []});
        if let Some(n) = fname { f["name"] = json!(n); }
        json!({"id": id, "type": {"path": path, "params": [], "def": {"composite": {"fields": [f]}}, "docs": []}})
    };
    let mut v = vec![];
    for bad in ["1abc", "type", "a-b", "", "_", "fn", "Self", "crate", "try", "self", "super"] {
        // bad field name, bad type name, bad namespace segment, bad variant name
        v.push(json!({"types": [st(0, vec!["a", "S"], Some(bad), 1), u8t(1)]}));
        v.push(json!({"types": [st(0, vec!["a", bad], Some("x"), 1), u8t(1)]}));
        v.push(json!({"types": [st(0, vec![bad, "S"], Some("x"), 1), u8t(1)]}));
        v.push(json!({"types": [{"id": 0, "type": {"path": ["a", "E"], "params": [], "docs": [],
                       "def": {"variant": {"variants": [{"name": bad, "index": 0, "fields": [], "docs": []}]}}}}, u8t(1)]}));
    }
    // unknown prelude names, used as a field type and at top level
    for name in ["Duration", "PhantomData", "Foo", "Cow"] {
        v.push(json!({"types": [st(0, vec!["a", "S"], Some("d"), 1), st(1, vec![name], Some("secs"), 2), u8t(2)]}));
    }
    // 256-bit integers
    for p in ["u256", "i256"] {
        v.push(json!({"types": [st(0, vec!["a", "S"], Some("big"), 1),
                                {"id": 1, "type": {"path": [], "params": [], "def": {"primitive": p}, "docs": []}}]}));
    }
    v
}

/// `struct X<T: Config> { inner: T::Inner }`: the parameter is not used in the fields, so the
/// instantiations X<A1>, X<A2> (Inner = u8) and X<B> (Inner = u32) are three entries with one path, two
/// of them with the same shape; in every order of the three (and with a fourth, equal, member)
pub fn three_member_families() -> Vec<serde_json::Value> {
    use serde_json::json;
    let prim = |id: u32, p: &str| json!({"id": id, "type": {"path": [], "params": [], "def": {"primitive": p}, "docs": []}});
    let unit = |id: u32, n: &str| json!({"id": id, "type": {"path": ["cfg", n], "params": [], "def": {"composite": {"fields": []}}, "docs": []}});
    let x = |id: u32, arg: u32, inner: u32, tn: &str| json!({"id": id, "type": {"path": ["m", "X"],
        "params": [{"name": "T", "type": arg}], "docs": [],
        "def": {"composite": {"fields": [{"name": "inner", "type": inner, "typeName": tn, "docs": []}]}}}});
    let mut out = vec![];
    // members: (argument id, inner id)
    let members = [(2u32, 0u32), (3, 0), (4, 1), (5, 0)];
    let orders: Vec<Vec<usize>> = vec![
        vec![0, 1, 2], vec![0, 2, 1], vec![2, 0, 1], vec![1, 0, 2], vec![0, 1, 3, 2], vec![0, 1, 3], vec![2, 0, 1, 3],
    ];
    for ord in orders {
        let mut types = vec![prim(0, "u8"), prim(1, "u32"), unit(2, "A1"), unit(3, "A2"), unit(4, "B"), unit(5, "A3")];
        let mut ids = vec![];
        for m in &ord {
            let id = types.len() as u32;
            let (arg, inner) = members[*m];
            types.push(x(id, arg, inner, "T::Inner"));
            ids.push(id);
        }
        let uid = types.len() as u32;
        let fields: Vec<serde_json::Value> = ids.iter().enumerate()
            .map(|(k, i)| json!({"name": format!("f{k}"), "type": i, "typeName": "X<_>", "docs": []})).collect();
        types.push(json!({"id": uid, "type": {"path": ["m", "User"], "params": [], "docs": [], "def": {"composite": {"fields": fields}}}}));
        out.push(json!({"types": types}));
    }
    out
}

/// Does `generate_types_mod` certainly run into an id without entry?  Restates the walk of
/// `resolve_type_path_recurse` (typegen/src/typegen/mod.rs:327-454) on registry JSON for the one use the
/// fault injector has: ids >= number of entries exist only at the injected site, the base registry is
/// well-formed with an acyclic non-field graph, both settings paths are present.  Item-eligible entries:
/// namespaced composite / variant entries that are not `bitvec::order::*` (substituted by `base_spec`).
pub fn generation_reaches_missing(reg: &serde_json::Value) -> bool {
    let types = reg["types"].as_array().unwrap();
    let n = types.len() as u64;
    fn params_of(t: &serde_json::Value) -> Vec<(String, u64)> {
        t["params"].as_array().map(|ps| ps.iter().filter_map(|p| {
            p.get("type").and_then(|x| x.as_u64()).map(|i| (p["name"].as_str().unwrap_or("").to_string(), i))
        }).collect()).unwrap_or_default()
    }
    fn last_seg(t: &serde_json::Value) -> Option<&str> {
        t["path"].as_array().and_then(|p| p.last()).and_then(|s| s.as_str())
    }
    fn walk(types: &[serde_json::Value], n: u64, id: u64, parents: &[(String, u64)], name: Option<&str>, depth: usize) -> bool {
        if depth > 200 {
            return false;
        }
        if parents.iter().any(|(pn, c)| *c == id && name.map_or(true, |x| x == pn)) {
            return false;
        }
        if id >= n {
            return true;
        }
        let mut t = &types[id as usize]["type"];
        if last_seg(t) == Some("Cow") {
            match params_of(t).first() {
                Some((_, inner)) => {
                    if *inner >= n {
                        return true;
                    }
                    t = &types[*inner as usize]["type"];
                }
                None => return false,
            }
        }
        for (_, p) in params_of(t) {
            if walk(types, n, p, parents, None, depth + 1) {
                return true;
            }
        }
        let d = &t["def"];
        let sub = |x: &serde_json::Value| x.as_u64().map_or(false, |i| walk(types, n, i, parents, None, depth + 1));
        if let Some(x) = d.get("sequence") {
            sub(&x["type"])
        } else if let Some(x) = d.get("array") {
            sub(&x["type"])
        } else if let Some(x) = d.get("compact") {
            sub(&x["type"])
        } else if let Some(x) = d.get("tuple") {
            x.as_array().unwrap().iter().any(|e| sub(e))
        } else if let Some(x) = d.get("bitsequence") {
            sub(&x["bit_order_type"]) || sub(&x["bit_store_type"])
        } else {
            false
        }
    }
    for e in types {
        let t = &e["type"];
        let path: Vec<&str> = t["path"].as_array().map(|p| p.iter().filter_map(|s| s.as_str()).collect()).unwrap_or_default();
        if path.len() < 2 || (path.len() == 3 && path[0] == "bitvec") {
            continue;
        }
        let parents = params_of(t);
        let mut fields: Vec<&serde_json::Value> = vec![];
        if let Some(c) = t["def"].get("composite") {
            fields.extend(c["fields"].as_array().unwrap().iter());
        } else if let Some(v) = t["def"].get("variant") {
            for var in v["variants"].as_array().unwrap() {
                fields.extend(var["fields"].as_array().unwrap().iter());
            }
        } else {
            continue;
        }
        for f in fields {
            if let Some(id) = f["type"].as_u64() {
                if walk(types, n, id, &parents, f.get("typeName").and_then(|x| x.as_str()), 0) {
                    return true;
                }
            }
        }
    }
    false
}

/// same-path members that differ ONLY in which listed parameters are skipped (an associated-type style
/// parameter `#[scale_info(skip_type_params(U))]` in one crate version, a plain one in the other): the item
/// declares only the non-skipped parameters, so the two have different generic arity although they list the
/// same number of parameters (round-4 seeded change C02-4: the arity guard of types_equal counted listed
/// parameters).  Every order, with a holder that mentions both.
pub fn skip_flip_families() -> Vec<serde_json::Value> {
    use serde_json::json;
    let prim = |id: u32, p: &str| json!({"id": id, "type": {"path": [], "params": [], "def": {"primitive": p}, "docs": []}});
    // Foo<T, U> { x: T }   with U either bound to `u` (Some) or skipped (None)
    let foo = |id: u32, t: u32, u: Option<u32>, named: bool| {
        let mut f = json!({"type": t, "typeName": "T", "docs": []});
        if named { f["name"] = json!("x"); }
        json!({"id": id, "type": {"path": ["a", "Foo"],
            "params": [{"name": "T", "type": t}, {"name": "U", "type": u}], "docs": [],
            "def": {"composite": {"fields": [f]}}}})
    };
    let mut out = vec![];
    for named in [true, false] {
        for order in [[0usize, 1], [1, 0]] {
            for same_t in [true, false] {
                let mut types = vec![prim(0, "u32"), prim(1, "bool"), prim(2, "u16")];
                let members = [(0u32, Some(1u32)), (if same_t { 0 } else { 2 }, None)];
                let mut ids = vec![];
                for m in order {
                    let id = types.len() as u32;
                    types.push(foo(id, members[m].0, members[m].1, named));
                    ids.push(id);
                }
                let hid = types.len() as u32;
                let fields: Vec<serde_json::Value> = ids.iter().enumerate()
                    .map(|(k, i)| json!({"name": format!("f{k}"), "type": i, "typeName": "Foo<..>", "docs": []})).collect();
                types.push(json!({"id": hid, "type": {"path": ["a", "Holder"], "params": [], "docs": [], "def": {"composite": {"fields": fields}}}}));
                out.push(json!({"types": types}));
            }
        }
    }
    out
}

pub fn outside_compact_field() -> Vec<serde_json::Value> {
    use serde_json::json;
    let prim = |id: u32| json!({"id": id, "type": {"path": [], "params": [], "def": {"primitive": "u8"}, "docs": []}});
    let plain = |id: u32, def: serde_json::Value| json!({"id": id, "type": {"path": [], "params": [], "def": def, "docs": []}});
    // inner types: (name, entries after the u8 at id 0, id of X)
    let inners: Vec<(&str, Vec<serde_json::Value>, u32)> = vec![
        ("(u8, u8)", vec![plain(1, json!({"tuple": [0, 0]}))], 1),
        ("[u8; 2]", vec![plain(1, json!({"array": {"len": 2, "type": 0}}))], 1),
        ("()", vec![plain(1, json!({"tuple": []}))], 1),
        ("Cow<'static, (u8, u8)>", vec![
            plain(1, json!({"tuple": [0, 0]})),
            json!({"id": 2, "type": {"path": ["Cow"], "params": [{"name": "T", "type": 1}],
                   "def": {"composite": {"fields": [{"type": 1, "docs": []}]}}, "docs": []}}),
        ], 2),
        ("Vec<u8>", vec![plain(1, json!({"sequence": {"type": 0}}))], 1),
        ("Cow<'static, Vec<u8>>", vec![
            plain(1, json!({"sequence": {"type": 0}})),
            json!({"id": 2, "type": {"path": ["Cow"], "params": [{"name": "T", "type": 1}],
                   "def": {"composite": {"fields": [{"type": 1, "docs": []}]}}, "docs": []}}),
        ], 2),
    ];
    let mut out = vec![];
    for (name, entries, x) in &inners {
        for shape in ["named", "unnamed", "variant", "param"] {
            let mut types = vec![prim(0)];
            types.extend(entries.iter().cloned());
            let c = x + 1; // Compact<X>
            types.push(plain(c, json!({"compact": {"type": x}})));
            let item = c + 1;
            let tn = if shape == "param" { "T".to_string() } else { format!("Compact<{name}>") };
            let named = json!({"name": "x", "type": c, "typeName": tn, "docs": []});
            let unnamed = json!({"type": c, "typeName": tn, "docs": []});
            let (params, def) = match shape {
                "named" => (json!([]), json!({"composite": {"fields": [named]}})),
                "unnamed" => (json!([]), json!({"composite": {"fields": [unnamed]}})),
                "variant" => (json!([]), json!({"variant": {"variants": [
                    {"name": "A", "index": 0, "docs": [], "fields": [named]},
                    {"name": "B", "index": 1, "docs": [], "fields": [unnamed]}]}})),
                _ => (json!([{"name": "T", "type": x}]), json!({"composite": {"fields": [named]}})),
            };
            types.push(json!({"id": item, "type": {"path": ["m", "S"], "params": params, "def": def, "docs": []}}));
            out.push(json!({"types": types}));
        }
    }
    out
}

/// consistent renumbering of a registry by a permutation of its entries
pub fn renumber(reg: &serde_json::Value, perm: &[usize]) -> serde_json::Value {
    // perm[new_pos] = old_pos
    let types = reg["types"].as_array().unwrap();
    let n = types.len();
    let mut new_of_old = vec![0usize; n];
    for (newp, oldp) in perm.iter().enumerate() {
        new_of_old[*oldp] = newp;
    }
    let sites = faults::sites(reg);
    let mut r = reg.clone();
    for s in &sites {
        let old = reg.pointer(s).unwrap().as_u64().unwrap() as usize;
        *r.pointer_mut(s).unwrap() = serde_json::Value::from(new_of_old[old] as u64);
    }
    let old_types = r["types"].as_array().unwrap().clone();
    let mut out = vec![];
    for (newp, oldp) in perm.iter().enumerate() {
        let mut e = old_types[*oldp].clone();
        e["id"] = serde_json::Value::from(newp as u64);
        out.push(e);
    }
    serde_json::json!({ "types": out })
}

pub fn cases(prop: &str, tier: &str, ctx: &mut Ctx, rng: &mut Rng) {
    let thorough = tier == "thorough";
    let scale = if thorough { 6 } else { 1 };
    let corp = corpus_regs();
    let full = SetCfg { derives: true, substitutes: true, switches: true, missing_paths: false };
    match prop {
        "C10" => {
            // fault-free
            for (n, rj, reg) in &corp {
                ctx.push_reg(&format!("corpus:{n}"), reg, Some(rj), &all_on(reg));
            }
            // single faults on small base registries
            let mut bases: Vec<(serde_json::Value, PortableRegistry)> = vec![];
            let gc = GenCfg { max_defs: 3, ..GenCfg::default() };
            let mut tries = 0;
            while bases.len() < 6 * scale && tries < 2000 {
                tries += 1;
                let p = reggen::rand_program(rng, &gc);
                let (rj, _) = reggen::build(&p);
                let reg = reggen::to_registry(&rj);
                if reg.types.len() <= 14 && item_paths(&reg).len() >= 1 {
                    bases.push((rj, reg));
                }
            }
            for (n, rj, reg) in &corp {
                if reg.types.len() <= 30 && (n == "compact" || n == "bits" || n == "recursive" || n == "nested-generics") {
                    bases.push((rj.clone(), reggen::to_registry(rj)));
                }
            }
            for (rj, reg) in &bases {
                let spec = base_spec(reg);
                let n = reg.types.len();
                // C10 quantifies over bases with unique item paths: expectations only there
                let unique = {
                    let mut seen = std::collections::BTreeSet::new();
                    reg.types.iter().filter(|t| t.ty.path.segments.len() >= 2).all(|t| seen.insert(t.ty.path.segments.clone()))
                };
                for pos in 0..n {
                    let f = Fault::Id { pos, new_id: (pos as u32 + 1 + rng.below(3) as u32) };
                    let fr = faults::apply(rj, &f);
                    let new_id = fr["types"][pos]["id"].as_u64().unwrap();
                    let r2 = reggen::to_registry(&fr);
                    ctx.push_full("fault:id", &r2, Some(&fr), &spec,
                                  Some(("RegistryTypeIdsInvalid".into(), vec![new_id as u128, pos as u128])));
                }
                let sites = faults::sites(rj);
                for si in 0..sites.len() {
                    let missing = (n + rng.below(5)) as u32;
                    let fr = faults::apply(rj, &Fault::Missing { site: si, id: missing });
                    let r2 = reggen::to_registry(&fr);
                    // expectation where the site is certainly visited by generation: a field of an
                    // item-eligible entry, or a nested site (sequence / array / tuple element, compact
                    // inner, bit store / order, type parameter) that the field descent of some
                    // item-eligible entry reaches (`generation_reaches_missing`)
                    let parts: Vec<&str> = sites[si].split('/').collect();
                    let pos: usize = parts[2].parse().unwrap();
                    let is_field = sites[si].contains("/fields/");
                    let t = &reg.types[pos].ty;
                    let eligible = t.path.segments.len() >= 2
                        && !(t.path.segments.len() == 3 && t.path.segments[0] == "bitvec");
                    let nested = !is_field && generation_reaches_missing(&fr);
                    let expect = if ((is_field && eligible) || nested) && unique { Some(("TypeNotFound".to_string(), vec![missing as u128])) } else { None };
                    if !is_field {
                        *ctx.notes.entry(format!("fault:missing-id nested site, generation expectation {}",
                                                 if expect.is_some() { "TypeNotFound" } else { "none" })).or_insert(0) += 1;
                    }
                    ctx.push_full("fault:missing-id", &r2, Some(&fr), &spec, expect);
                }
                for (pos, variant, nf) in faults::field_lists(rj) {
                    let field = rng.below(nf);
                    let fr = faults::apply(rj, &Fault::Mixed { pos, variant, field });
                    let r2 = reggen::to_registry(&fr);
                    let t = &reg.types[pos].ty;
                    let expect = if t.path.segments.len() >= 2 && unique { Some(("InvalidFields".to_string(), vec![])) } else { None };
                    ctx.push_full("fault:mixed-fields", &r2, Some(&fr), &spec, expect);
                }
                // missing settings paths
                let mut s1 = spec.clone();
                s1.compact = None;
                ctx.push_reg("fault:no-compact-path", reg, Some(rj), &s1);
                let mut s2 = spec.clone();
                s2.bits = None;
                ctx.push_reg("fault:no-bits-path", reg, Some(rj), &s2);
            }
            random_cases(ctx, rng, 150 * scale, &GenCfg::default(),
                         &SetCfg { derives: false, substitutes: false, switches: true, missing_paths: true });
            // outside the class of C10 (clause compact_inner_okb of wf_regb): a compact FIELD whose inner
            // type is a tuple / an array makes `to_syn_type` panic (`parse_quote!( #inner )` into a
            // `syn::TypePath`).  The model must agree (corr_gen / corr_upcasts) and `hyp_wf` must be false
            // on the panicking ones (otherwise `prop_wf_total` fails).
            for rj in outside_idents_and_prelude() {
                let reg = reggen::to_registry(&rj);
                ctx.push_reg("outside:idents-prelude", &reg, Some(&rj), &SettingsSpec::default());
            }
            for rj in outside_compact_field() {
                let reg = reggen::to_registry(&rj);
                ctx.push_reg("outside:compact-field", &reg, Some(&rj), &base_spec(&reg));
            }
        }
        "C06" => {
            let gc = GenCfg::default();
            let mut regs: Vec<(serde_json::Value, PortableRegistry)> = corp.iter().map(|(_, rj, r)| (rj.clone(), reggen::to_registry(rj))).collect();
            let _ = &regs;
            for _ in 0..(120 * scale) {
                let p = reggen::rand_program(rng, &gc);
                let (rj, _) = reggen::build(&p);
                let reg = reggen::to_registry(&rj);
                regs.push((rj, reg));
            }
            for (_rj, reg) in &regs {
                let mut spec = rand_settings(rng, reg, &full);
                // many derives / attributes so that an order leak would show
                let paths = item_paths(reg);
                for k in 0..3 {
                    spec.ops.push(OpSpec::DerivesAll(vec![format!("D{k}"), format!("::m::E{k}"), "Clone".into()]));
                    spec.ops.push(OpSpec::AttrsAll(vec![format!("#[attr{k}]"), format!("#[shared(arg{k})]"), format!("#[shared(other = {k})]")]));
                    if !paths.is_empty() {
                        let key = rng.pick(&paths).join("::");
                        spec.ops.push(OpSpec::DerivesFor(key.clone(), vec![format!("S{k}"), "Debug".into()], k % 2 == 0));
                        spec.ops.push(OpSpec::AttrsFor(key.clone(), vec![format!("#[sattr{k}]"), format!("#[shared(specific{k})]")], k % 2 == 1));
                        // the same type under other SPELLINGS of its path (leading `::`, spurious generics): distinct
                        // keys of the derives registry that name no registry type path exactly - they must not
                        // interfere with the entry for `key` (round-5 seeded change C06-5: keys collapsed to segments)
                        if k == 0 {
                            // an UNKNOWN path under two spellings, same recursive flag: validation must report
                            // both keys, each with its own derives, whatever the hash seed (seeded change C06-6)
                            // ... and derives / attributes that are ALSO registered for all types (before or after, depending
                            // on the permutation): the per-type sets that validation reports must not depend on
                            // that order (seeded change C06r8: per-type registrations dropped what was already global)
                            spec.ops.push(OpSpec::DerivesFor("zz::gone::Unknown".into(), vec!["U1".into(), "Clone".into(), "D1".into()], true));
                            spec.ops.push(OpSpec::DerivesFor("zz::gone::OnlyGlobal".into(), vec!["Clone".into()], false));
                            spec.ops.push(OpSpec::AttrsFor("zz::gone::OnlyGlobalAttr".into(), vec!["#[attr2]".into()], true));
                            spec.ops.push(OpSpec::DerivesFor("::zz::gone::Unknown".into(), vec!["U2".into()], true));
                            spec.ops.push(OpSpec::AttrsFor("zz::gone::Unknown<T>".into(), vec!["#[u3]".into()], false));
                            spec.ops.push(OpSpec::AttrsFor("zz::gone::Unknown".into(), vec!["#[u4]".into(), "#[attr1]".into(), "#[shared(arg2)]".into()], false));
                            spec.ops.push(OpSpec::DerivesFor(format!("::{key}"), vec!["SpelledAbs".into()], false));
                            spec.ops.push(OpSpec::DerivesFor(format!("{key}<T>"), vec!["SpelledGen".into()], false));
                            spec.ops.push(OpSpec::AttrsFor(format!("::{key}"), vec!["#[spelled_abs]".into()], true));
                        }
                    }
                }
                // permutation of the history that keeps the relative order of substitute ops (last insert wins)
                let mut spec2 = spec.clone();
                let (subs, mut ders): (Vec<OpSpec>, Vec<OpSpec>) = spec2.ops.drain(..).partition(|o| {
                    matches!(o, OpSpec::SubInsert(..) | OpSpec::SubInsertIfAbsent(..) | OpSpec::SubExtend(..))
                });
                rng.shuffle(&mut ders);
                // repeat one registration
                if let Some(first) = ders.first().cloned() {
                    ders.push(first);
                }
                // interleave
                let mut ops = vec![];
                let (mut i, mut j) = (0, 0);
                while i < subs.len() || j < ders.len() {
                    if j >= ders.len() || (i < subs.len() && rng.chance(1, 2)) {
                        ops.push(subs[i].clone());
                        i += 1;
                    } else {
                        ops.push(ders[j].clone());
                        j += 1;
                    }
                }
                spec2.ops = ops;
                ctx.push_pair("permuted-history", "same", (reg, &spec), (reg, &spec2));
                ctx.push_pair("repeated-run", "same", (reg, &spec), (reg, &spec));
            }
            // substitutes registered in a different order: k >= 2 substitute calls with pairwise DISTINCT
            // sources (last-insert-wins only matters for equal sources), all three builder calls, permuted
            // together with the derive / attribute calls
            let no_subs = SetCfg { derives: true, substitutes: false, switches: true, missing_paths: false };
            let targets = ["::ext::Subst", "crate::ext::Other", "::ext::Gen<A>", "::ext::deep::Path", "::ext::Third<A, A>"];
            for (_rj, reg) in &regs {
                let mut paths: Vec<Vec<String>> = item_paths(reg).into_iter().filter(|p| p[0] != "bitvec").collect();
                if paths.len() < 2 {
                    continue;
                }
                rng.shuffle(&mut paths);
                let k = rng.range(2, 4).min(paths.len());
                let mut spec = rand_settings(rng, reg, &no_subs);
                let mut sub_ops = vec![];
                for (i, p) in paths[..k].iter().enumerate() {
                    let np = reg.types.iter().find(|t| &t.ty.path.segments == p)
                        .map(|t| t.ty.type_params.iter().filter(|q| q.ty.is_some()).count()).unwrap_or(0);
                    let tgt = targets[(i + rng.below(targets.len())) % targets.len()].to_string();
                    let src = if np >= 1 && tgt.contains("<A") { format!("{}<A>", p.join("::")) } else { p.join("::") };
                    let tgt = if src.ends_with("<A>") { tgt } else { tgt.split('<').next().unwrap().to_string() };
                    sub_ops.push(match rng.below(3) {
                        0 => OpSpec::SubInsertIfAbsent(src, tgt),
                        1 => OpSpec::SubExtend(vec![(src, tgt)]),
                        _ => OpSpec::SubInsert(src, tgt),
                    });
                }
                spec.ops.extend(sub_ops.iter().cloned());
                let mut spec2 = spec.clone();
                rng.shuffle(&mut spec2.ops);
                // at least the substitute calls change their relative order
                let subs_of = |ops: &Vec<OpSpec>| -> Vec<String> {
                    ops.iter().filter(|o| matches!(o, OpSpec::SubInsert(..) | OpSpec::SubInsertIfAbsent(..) | OpSpec::SubExtend(..)))
                        .map(|o| format!("{o:?}")).collect()
                };
                if subs_of(&spec.ops) == subs_of(&spec2.ops) {
                    let idx: Vec<usize> = spec2.ops.iter().enumerate()
                        .filter(|(_, o)| matches!(o, OpSpec::SubInsert(..) | OpSpec::SubInsertIfAbsent(..) | OpSpec::SubExtend(..)) && !format!("{o:?}").contains("bitvec"))
                        .map(|(i, _)| i).collect();
                    if idx.len() >= 2 {
                        spec2.ops.swap(idx[0], idx[idx.len() - 1]);
                    }
                }
                ctx.push_pair("permuted-subs", "same", (reg, &spec), (reg, &spec2));
                // one source inserted twice with different targets, in both orders: the settings differ
                // (last insert wins), the outputs follow the model
                // prefer a path that is the type of a field of another item (the outputs then differ)
                let used = |p: &Vec<String>| reg.types.iter().any(|t| t.ty.path.segments.len() >= 2 && &t.ty.path.segments != p && {
                    let fs: Vec<u32> = match &t.ty.type_def {
                        scale_info::TypeDef::Composite(c) => c.fields.iter().map(|f| f.ty.id).collect(),
                        scale_info::TypeDef::Variant(v) => v.variants.iter().flat_map(|x| x.fields.iter().map(|f| f.ty.id)).collect(),
                        _ => vec![],
                    };
                    fs.iter().any(|i| reg.resolve(*i).map(|x| &x.path.segments == p).unwrap_or(false))
                });
                let p = paths.iter().find(|p| used(p)).unwrap_or(&paths[0]).join("::");
                let mut sa = rand_settings(rng, reg, &no_subs);
                let mut sb = sa.clone();
                sa.ops.push(OpSpec::SubInsert(p.clone(), "::ext::First".into()));
                sa.ops.push(OpSpec::SubInsert(p.clone(), "::ext::Second".into()));
                sb.ops.push(OpSpec::SubInsert(p.clone(), "::ext::Second".into()));
                sb.ops.push(OpSpec::SubInsert(p.clone(), "::ext::First".into()));
                ctx.push_pair("subs-last-wins", "last-wins", (reg, &sa), (reg, &sb));
            }
            // the de-duplicated registry: two independent runs of ensure_unique_type_paths on
            // registries with several clashing paths (fresh hash maps each time)
            for _ in 0..(60 * scale) {
                let p = crate::famgen::family_program(rng);
                let (rj, _) = reggen::build(&p);
                let reg = reggen::to_registry(&rj);
                let mut a = reg.clone();
                let mut b = reg.clone();
                let ra = std::panic::catch_unwind(move || { let r = scale_typegen::utils::ensure_unique_type_paths(&mut a); (r.is_ok(), a) });
                let rb = std::panic::catch_unwind(move || { let r = scale_typegen::utils::ensure_unique_type_paths(&mut b); (r.is_ok(), b) });
                if let (Ok((true, a)), Ok((true, b))) = (ra, rb) {
                    let spec = base_spec(&reg);
                    ctx.push_pair("dedup-twice", "dedup-same", (&a, &spec), (&b, &spec));
                }
            }
        }
        "C09" => {
            let gc = GenCfg::default();
            let mut regs: Vec<PortableRegistry> = corp.iter().map(|(_, rj, _)| reggen::to_registry(rj)).collect();
            for _ in 0..(40 * scale) {
                let p = reggen::rand_program(rng, &gc);
                let (rj, _) = reggen::build(&p);
                regs.push(reggen::to_registry(&rj));
            }
            for reg in &regs {
                // a random base point of the switch cube, then flip each switch
                let reps = if thorough { 4 } else { 2 };
                for _ in 0..reps {
                    let mut base = rand_settings(rng, reg, &SetCfg { derives: true, substitutes: true, switches: true, missing_paths: false });
                    if rng.chance(1, 2) {
                        base.ops.push(OpSpec::DerivesAll(vec!["::codec::Encode".into()]));
                    }
                    let mut flip = |kind: &str, f: &dyn Fn(&mut SettingsSpec)| {
                        let mut b = base.clone();
                        f(&mut b);
                        ctx.push_pair(&format!("flip:{kind}"), kind, (reg, &base), (reg, &b));
                    };
                    flip("root", &|s| s.root = if s.root == "types" { "other_root".into() } else { "types".into() });
                    flip("docs", &|s| s.docs = !s.docs);
                    flip("codec", &|s| s.codec = !s.codec);
                    flip("alloc", &|s| s.alloc = match &s.alloc { None => Some("::alloc".into()), Some(a) if a == "::alloc" => Some("::my_crate::alloc_crate".into()), _ => None });
                    flip("compact_path", &|s| s.compact = Some(if s.compact.as_deref() == Some("::codec::Compact") { "::other::Cpt".into() } else { "::codec::Compact".into() }));
                    flip("bits_path", &|s| s.bits = Some(if s.bits.as_deref() == Some("::bits::DecodedBits") { "::other::Bits".into() } else { "::bits::DecodedBits".into() }));
                }
            }
            // substitutes WITH DECLARED GENERICS under every switch flip (seeded change C09-1: a spliced
            // parameter was rendered with the default alloc path): every generic item path of the corpus
            // is substituted, its parameters spliced into the target, identity and reversed order
            for (n, _rj, reg) in &corp {
                if reg.types.len() > 60 {
                    continue;
                }
                for p in item_paths(reg) {
                    let np = reg.types.iter().find(|t| t.ty.path.segments == p)
                        .map(|t| t.ty.type_params.iter().filter(|q| q.ty.is_some()).count()).unwrap_or(0);
                    if np == 0 || np > 3 {
                        continue;
                    }
                    let names: Vec<String> = (0..np).map(|i| ["A", "B", "C"][i].to_string()).collect();
                    let mut rev = names.clone();
                    rev.reverse();
                    let mut base = base_spec(reg);
                    base.ops.push(OpSpec::SubInsert(
                        format!("{}<{}>", p.join("::"), names.join(", ")),
                        format!("::ext::Sub<{}, ::ext::Inner<{}>>", rev.join(", "), names[0]),
                    ));
                    let mut flip = |kind: &str, f: &dyn Fn(&mut SettingsSpec)| {
                        let mut b = base.clone();
                        f(&mut b);
                        ctx.push_pair(&format!("flip-subst:{kind}:{n}"), kind, (reg, &base), (reg, &b));
                    };
                    flip("alloc", &|s| s.alloc = Some("::my_crate::alloc_crate".into()));
                    flip("root", &|s| s.root = "other_root".into());
                    flip("compact_path", &|s| s.compact = Some("::other::Cpt".into()));
                    flip("bits_path", &|s| s.bits = Some("::other::Bits".into()));
                }
            }
            // every SPELLING of a custom alloc path (seeded change C09r8: a path without a leading `::`
            // was made global): global, bare, crate-rooted, relative and nested paths, each against the
            // default and against each other, on the registries with heap types
            for (n, _rj, reg) in &corp {
                if !(n == "prelude-min" || n == "prelude" || reg.types.len() <= 40) {
                    continue;
                }
                let spellings = ["::alloc", "alloc", "crate::alloc", "self::alloc", "super::super::alloc", "::a::b::c", "my::nested::alloc"];
                let base = base_spec(reg);
                for (i, a) in spellings.iter().enumerate() {
                    let mut x = base.clone();
                    x.alloc = Some(a.to_string());
                    ctx.push_pair(&format!("alloc-spelling:{n}"), "alloc", (reg, &base), (reg, &x));
                    let mut y = base.clone();
                    y.alloc = Some(spellings[(i + 1) % spellings.len()].to_string());
                    ctx.push_pair(&format!("alloc-spelling:{n}"), "alloc", (reg, &x), (reg, &y));
                }
            }
            // all 2^6 combinations of the switches; every edge of the cube (two combinations that differ
            // in one switch) is one pair for prop_frame, every vertex is checked by prop_switches
            let cube_regs: Vec<&(String, serde_json::Value, PortableRegistry)> = corp.iter()
                .filter(|(n, _, r)| thorough && r.types.len() <= 80 || n == "compact" || n == "bits" || n == "prelude-min")
                .collect();
            let kinds = ["root", "docs", "codec", "alloc", "compact_path", "bits_path"];
            for (n, _, reg) in cube_regs {
                let vertex = |bits: usize| -> SettingsSpec {
                    let mut s = base_spec(reg);
                    s.ops.push(OpSpec::DerivesAll(vec!["::codec::Encode".into(), "Debug".into()]));
                    s.root = if bits & 1 == 0 { "types".into() } else { "other_root".into() };
                    s.docs = bits & 2 == 0;
                    s.codec = bits & 4 == 0;
                    s.alloc = if bits & 8 == 0 { None } else { Some("::my_crate::alloc_crate".into()) };
                    s.compact = Some(if bits & 16 == 0 { "::codec::Compact".into() } else { "::other::Cpt".into() });
                    s.bits = Some(if bits & 32 == 0 { "::bits::DecodedBits".into() } else { "::other::Bits".into() });
                    s
                };
                for v in 0..64usize {
                    for (k, kind) in kinds.iter().enumerate() {
                        if v & (1 << k) == 0 {
                            let a = vertex(v);
                            let b = vertex(v | (1 << k));
                            ctx.push_pair(&format!("cube:{n}"), kind, (reg, &a), (reg, &b));
                        }
                    }
                }
            }
        }
        "C17" => {
            let gc = GenCfg::default();
            let mut regs: Vec<serde_json::Value> = corp.iter().map(|(_, rj, _)| rj.clone()).collect();
            for _ in 0..(80 * scale) {
                let p = reggen::rand_program(rng, &gc);
                let (rj, _) = reggen::build(&p);
                regs.push(rj);
            }
            // same-path families: de-duplication has something to rename (clause "maps de-duplication
            // renames to the same shape groups")
            for _ in 0..(60 * scale) {
                let p = crate::famgen::family_program(rng);
                let (rj, _) = reggen::build(&p);
                regs.push(rj);
            }
            for (ri, rj) in regs.iter().enumerate() {
                let reg = reggen::to_registry(rj);
                let n = reg.types.len();
                let spec = rand_settings(rng, &reg, &SetCfg { derives: true, substitutes: true, switches: true, missing_paths: false });
                let nperm = if n <= 40 { 5 } else { 2 };
                for k in 0..nperm {
                    let mut perm: Vec<usize> = (0..n).collect();
                    if k == 0 {
                        perm.reverse();
                    } else {
                        rng.shuffle(&mut perm);
                    }
                    let r2j = renumber(rj, &perm);
                    let r2 = reggen::to_registry(&r2j);
                    ctx.push_pair_perm("renumbered", "renumbered", (&reg, &spec), (&r2, &spec), &perm);
                }
                // restriction to the types reachable from a chosen set of ids (scale-info's own retain):
                // one root, two roots, a root that is an instantiation of a generic definition
                if n > 0 {
                    let generic: Vec<u32> = reg.types.iter().filter(|t| t.ty.type_params.iter().any(|p| p.ty.is_some())
                        && matches!(t.ty.type_def, scale_info::TypeDef::Composite(_) | scale_info::TypeDef::Variant(_)))
                        .map(|t| t.id).collect();
                    // roots are mostly entries that become items (so that the retained registry generates
                    // something), otherwise any id
                    let items: Vec<u32> = reg.types.iter().filter(|t| t.ty.path.segments.len() >= 2
                        && matches!(t.ty.type_def, scale_info::TypeDef::Composite(_) | scale_info::TypeDef::Variant(_)))
                        .map(|t| t.id).collect();
                    let mut root = |rng: &mut Rng| -> u32 {
                        if !items.is_empty() && rng.chance(2, 3) { *rng.pick(&items) } else { rng.below(n) as u32 }
                    };
                    for k in 0..3usize {
                        let keep: Vec<u32> = match k {
                            0 => vec![root(rng)],
                            1 => vec![root(rng), root(rng)],
                            _ => if generic.is_empty() { vec![rng.below(n) as u32] } else { vec![*rng.pick(&generic)] },
                        };
                        let mut r3 = reg.clone();
                        let map = r3.retain(|id| keep.contains(&id));
                        // every second retain pair: settings without derives / substitutes for specific paths
                        // (only the bit-order substitutes of the RETAINED registry, whose paths both
                        // registries have), so that the settings are valid for both registries
                        let plain = (ri + k) % 2 == 1;
                        let spec_k = if plain {
                            let mut s = rand_settings(rng, &r3, &SetCfg { derives: false, substitutes: false, switches: true, missing_paths: false });
                            if rng.chance(1, 2) {
                                s.ops.push(OpSpec::DerivesAll(vec!["Debug".into(), "::codec::Encode".into()]));
                            }
                            if rng.chance(1, 3) {
                                s.ops.push(OpSpec::AttrsAll(vec!["#[allow(dead_code)]".into()]));
                            }
                            s
                        } else {
                            spec.clone()
                        };
                        let seeds = vec![*rng.pick(&[42u64, 0, 1, 2, 3, 20, 30, u64::MAX]), rng.next_u64() >> rng.below(64)];
                        let info = crate::c17::RetainInfo { roots: keep.clone(), ids: crate::c17::select_ids(&map, &keep), seeds };
                        if plain {
                            ctx.c17_counts.retain_pairs_plain_settings += 1;
                        }
                        if k == 2 && !generic.is_empty() {
                            ctx.c17_counts.roots_generic_instantiation += 1;
                        }
                        let stream = ["retain:one-root", "retain:two-roots", "retain:generic-root"][k];
                        ctx.push_pair_retain(stream, (&reg, &spec_k), (&r3, &spec_k), &info);
                    }
                }
            }
        }
        _ => {
            // corpus x settings
            for (n, rj, reg) in &corp {
                ctx.push_reg(&format!("corpus:{n}"), reg, Some(rj), &all_on(reg));
                let mut s = base_spec(reg);
                s.codec = false;
                s.docs = false;
                s.alloc = Some("::alloc".into());
                s.root = "root".into();
                ctx.push_reg(&format!("corpus:{n}"), reg, Some(rj), &s);
                for _ in 0..(if prop == "C07" || prop == "C08" { 6 } else { 2 }) {
                    let spec = rand_settings(rng, reg, &full);
                    ctx.push_reg(&format!("corpus:{n}"), reg, Some(rj), &spec);
                }
            }
            if prop == "C07" || prop == "C16" {
                // every generic item path of the corpus substituted, with source parameters named
                // in the user's style and in the generator's own `_i` style, identity and reversed
                for (n, rj, reg) in &corp {
                    for p in item_paths(reg) {
                        let np = reg.types.iter().find(|t| t.ty.path.segments == p)
                            .map(|t| t.ty.type_params.iter().filter(|q| q.ty.is_some()).count()).unwrap_or(0);
                        if np == 0 || np > 4 || reg.types.len() > 60 {
                            continue;
                        }
                        if prop == "C07" {
                            // source written WITHOUT generics, target with FIXED generic arguments (round-5 seeded
                            // change C07-5: the resolved arguments were appended to such a target)
                            let mut s = base_spec(reg);
                            s.ops.push(OpSpec::SubInsert(p.join("::"), "::ext::Opaque<::ext::Bytes, ::core::primitive::u8>".into()));
                            ctx.push_reg(&format!("corpus-subst-fixed:{n}"), reg, Some(rj), &s);
                        }
                        for style in 0..2 {
                            let names: Vec<String> = (0..np).map(|i| if style == 0 { format!("_{i}") } else { ["A", "B", "C", "D"][i].to_string() }).collect();
                            let mut rev = names.clone();
                            rev.reverse();
                            for tgt_args in [names.clone(), rev] {
                                let mut s = base_spec(reg);
                                s.ops.push(OpSpec::SubInsert(
                                    format!("{}<{}>", p.join("::"), names.join(", ")),
                                    format!("::ext::Sub<{}>", tgt_args.join(", ")),
                                ));
                                ctx.push_reg(&format!("corpus-subst:{n}"), reg, Some(rj), &s);
                            }
                        }
                    }
                }
            }
            if prop == "C08" || prop == "C16" {
                // every item path of the corpus as a recursive root, alone and with a second root
                for (n, rj, reg) in &corp {
                    let paths = item_paths(reg);
                    for (k, p) in paths.iter().enumerate() {
                        if reg.types.len() > 60 && k % 4 != 0 {
                            continue;
                        }
                        let mut s = base_spec(reg);
                        s.ops.push(OpSpec::DerivesFor(p.join("::"), vec!["RecDerive".into()], true));
                        s.ops.push(OpSpec::AttrsFor(p.join("::"), vec!["#[rec_attr]".into()], true));
                        if k + 1 < paths.len() {
                            s.ops.push(OpSpec::DerivesFor(paths[k + 1].join("::"), vec!["Second".into()], true));
                        }
                        ctx.push_reg(&format!("corpus-roots:{n}"), reg, Some(rj), &s);
                    }
                }
            }
            if prop == "C01" {
                // same-path families (C01 also speaks about them: generation must fail or be faithful)
                for rj in three_member_families() {
                    let reg = reggen::to_registry(&rj);
                    ctx.push_reg("family:three-members", &reg, Some(&rj), &base_spec(&reg));
                }
                for _ in 0..(80 * scale) {
                    let p = crate::famgen::family_program(rng);
                    let (rj, _) = reggen::build(&p);
                    let reg = reggen::to_registry(&rj);
                    ctx.push_reg("family", &reg, Some(&rj), &base_spec(&reg));
                }
            }
            if prop == "C02" || prop == "C01" {
                // hand-built families, as they are and after de-duplication
                for rj in skip_flip_families() {
                    let reg = reggen::to_registry(&rj);
                    ctx.push_reg("family:skip-flip", &reg, Some(&rj), &base_spec(&reg));
                    let mut a = reg.clone();
                    let r = std::panic::catch_unwind(move || { let r = scale_typegen::utils::ensure_unique_type_paths(&mut a); (r.is_ok(), a) });
                    if let Ok((true, a)) = r {
                        ctx.push_reg("family:skip-flip:dedup", &a, None, &base_spec(&a));
                    }
                }
            }
            if prop == "C02" {
                // quantifier "after path de-duplication when paths repeat": same-path families run through
                // ensure_unique_type_paths; the de-duplicated registry is the input of the case
                for _ in 0..(80 * scale) {
                    let p = crate::famgen::family_program(rng);
                    let (rj, _) = reggen::build(&p);
                    let mut a = reggen::to_registry(&rj);
                    let before: Vec<Vec<String>> = a.types.iter().map(|t| t.ty.path.segments.clone()).collect();
                    let r = std::panic::catch_unwind(move || { let r = scale_typegen::utils::ensure_unique_type_paths(&mut a); (r.is_ok(), a) });
                    if let Ok((true, a)) = r {
                        let renamed = a.types.iter().zip(before.iter()).any(|(t, b)| &t.ty.path.segments != b);
                        let stream = if renamed { "dedup-family" } else { "dedup-family:unchanged" };
                        ctx.push_reg(stream, &a, None, &base_spec(&a));
                        if renamed {
                            let spec = rand_settings(rng, &a, &full);
                            ctx.push_reg(stream, &a, None, &spec);
                        }
                    }
                }
            }
            random_cases(ctx, rng, 300 * scale, &GenCfg::default(), &full);
            if thorough {
                let reg = crate::util::polkadot_registry();
                let mut spec = base_spec(&reg);
                spec.ops.push(OpSpec::DerivesAll(vec!["::codec::Encode".into(), "::codec::Decode".into()]));
                spec.ops.push(OpSpec::DerivesFor("polkadot_runtime::RuntimeCall".into(), vec!["Clone".into()], true));
                ctx.push_reg("polkadot", &reg, None, &spec);
            }
        }
    }
}
