//! Derive tier (thorough tier of C05, DESIGN.md 5.5): the harness interner (`reggen::Interner`) is validated
//! against scale-info's REAL derive.
//!
//!   vharness derive-tier <seed> <outdir> [--random N] [--scratch dir] [--keep] [--replay file]
//!
//! The arm corpus (`corpus::programs`) and the first N programs of C05's random stream
//! (`c05::next_program`, the very programs the C05 cases are made of) are printed as real Rust source:
//! nested modules, `#[derive(scale_info::TypeInfo)]` structs / enums, `#[scale_info(skip_type_params(..))]`,
//! `#[codec(compact)]` / `Compact<T>`, `#[codec(index = n)]`, docs as `///` comments, bit sequences as
//! `bitvec::vec::BitVec<store, order>`, and a `run()` that registers the program's roots in a
//! `scale_info::Registry` in order, converts it into a `PortableRegistry` and prints it as JSON.  The cargo
//! project is written into a scratch directory (outside /repo and the verification tree), built offline, run,
//! and removed again on every path.
//!
//! Comparison: exact equality of the two registries as JSON after this normalisation, and nothing else:
//!  1. both sides are read into a `scale_info::PortableRegistry` and serialised again (one serialiser for both:
//!     serde omits empty `path` / `params` / `docs` / `fields`, the interner writes them out);
//!  2. the derive records `module_path!()`, which begins with the crate name; a program's definitions live in
//!     the module `p_<k>` of the scratch binary `g<i>`, so the two leading segments `[g<i>, p_<k>]` are removed
//!     from every path that begins with them (it is a mismatch if a derived definition does not begin with them).
//!  3. the derive records `quote!(#ty).to_string()` of a field's type, i.e. rustc's token pretty-printer, which
//!     wraps token strings longer than its line width: a long type name contains `\n` where another rustc
//!     version (or a shorter name) has a blank.  A `\n` inside a derived `typeName` is replaced by a blank and
//!     scale-info-derive's `clean_type_string` (ported as `reggen::clean_type_string`) is applied again
//!     (the derive removes the blank before `[`, `)`, `>` .. but not a line break there).
//! Marker fields the printer has to add so that rustc accepts a definition (a parameter that is not used, is
//! skipped, or is used only in the definition's own recursive occurrence) are `PhantomData` fields, which
//! scale-info itself leaves out of the type (scale-info src/build.rs `field_portable`: `is_phantom`); in enums the
//! marker is a `#[codec(skip)]` variant, which the derive leaves out.  Neither side is edited for them.
//!
//! Programs that cannot be written as compiling Rust are skipped and counted by reason (`skipped`).
use crate::c05;
use crate::corpus;
use crate::ctier::{def_fields, param_outside_self, subterms};
use crate::reggen::{self, Body, Def, FieldDef, Program, Src};
use serde_json::{json, Value};
use std::collections::{BTreeMap, BTreeSet};
use std::fmt::Write as _;
use std::path::{Path, PathBuf};
use std::time::Instant;

// ---------------------------------------------------------------------------
// can the program be written as Rust?

fn apps(s: &Src, out: &mut BTreeSet<usize>) {
    let mut all = vec![];
    subterms(s, &mut all);
    for t in all {
        if let Src::App(d, _) = t {
            out.insert(*d);
        }
    }
}

/// `PartialOrd` (needed for `Range<T>: TypeInfo`): std's `Range` is not ordered; the printed definitions are
fn ord_ok(s: &Src) -> bool {
    match s {
        Src::Range(_) => false,
        Src::App(..) | Src::Prim(_) | Src::BitVec(..) | Src::Param(_) => true,
        Src::Tuple(a) => a.iter().all(ord_ok),
        Src::Vec(a) | Src::VecDeque(a) | Src::Array(_, a) | Src::Compact(a) | Src::BoxT(a) | Src::Opt(a) | Src::BTreeSet(a) | Src::Cow(a) => ord_ok(a),
        Src::Res(a, b) | Src::BTreeMap(a, b) => ord_ok(a) && ord_ok(b),
    }
}

/// reason why the program is not expressible as compiling Rust source, if any
pub fn inexpressible(p: &Program, labels: &[Option<Src>]) -> Option<&'static str> {
    for d in &p.defs {
        let fields = def_fields(d);
        // scale-info's derive always records `type_name`; a field without one models hand-built metadata
        if fields.iter().any(|f| !f.type_name) {
            return Some("field-without-type-name (hand-built metadata, not a derive output)");
        }
        // `#[codec(compact)] x: T` needs `T: TypeInfo` (FieldBuilder::compact), which a skipped parameter lacks
        for f in &fields {
            if f.compact_attr {
                let mut all = vec![];
                subterms(&f.ty, &mut all);
                if all.iter().any(|s| matches!(s, Src::Param(i) if d.params[*i].1)) {
                    return Some("skipped-parameter-in-compact-field (rustc: T: TypeInfo is not satisfied)");
                }
            }
        }
    }
    if compact_as(&p.defs).iter().any(|i| !compact_as_ok(&p.defs[*i])) {
        return Some("compact-attribute-on-a-type-that-cannot-derive-CompactAs");
    }
    // bare names: type names are recorded as written, so a definition is referred to by its last segment;
    // two definitions with one identifier cannot both be in scope of one module
    let mut by_mod: BTreeMap<Vec<String>, BTreeMap<String, usize>> = BTreeMap::new();
    for (i, d) in p.defs.iter().enumerate() {
        let (name, module) = d.path.split_last().unwrap();
        let mut used = BTreeSet::new();
        used.insert(i);
        def_fields(d).iter().for_each(|f| apps(&f.ty, &mut used));
        let scope = by_mod.entry(module.to_vec()).or_default();
        for u in used {
            let n = p.defs[u].path.last().unwrap().clone();
            if let Some(prev) = scope.insert(n.clone(), u) {
                if prev != u {
                    return Some("two-definitions-with-one-identifier-in-scope (the source would need a qualified path or an alias, which changes the recorded type name)");
                }
            }
            if d.params.iter().any(|(pn, _)| *pn == n) {
                return Some("type-parameter-shadows-definition");
            }
        }
        let _ = name;
    }
    // the roots are written with module-qualified paths; nothing to check there
    // `Range<T>: TypeInfo` requires `T: PartialOrd`
    for l in labels.iter().flatten() {
        let mut all = vec![];
        subterms(l, &mut all);
        if all.iter().any(|s| matches!(s, Src::Range(a) if !ord_ok(a))) {
            return Some("range-of-unordered-type (Range<Idx>: TypeInfo requires Idx: PartialOrd)");
        }
    }
    None
}

/// definitions that are the type of a `#[codec(compact)]` field: they must implement `HasCompact`
fn compact_as(defs: &[Def]) -> BTreeSet<usize> {
    let mut out = BTreeSet::new();
    for d in defs {
        for f in def_fields(d) {
            if f.compact_attr {
                if let Src::App(i, _) = reggen::peel(&f.ty) {
                    out.insert(*i);
                }
            }
        }
    }
    out
}

/// `#[derive(CompactAs)]` works for a non-generic struct with one field of an unsigned integer type
fn compact_as_ok(d: &Def) -> bool {
    d.params.is_empty()
        && matches!(&d.body, Body::Struct(fs) if fs.len() == 1 && !fs[0].compact_attr
                    && matches!(fs[0].ty, Src::Prim("u8" | "u16" | "u32" | "u64" | "u128")))
}

// ---------------------------------------------------------------------------
// printing

const USES: &str = "#[allow(unused_imports)] use std::collections::{BTreeMap, BTreeSet, VecDeque};\n\
#[allow(unused_imports)] use std::borrow::Cow;\n\
#[allow(unused_imports)] use core::marker::PhantomData;\n\
#[allow(unused_imports)] use core::ops::Range;\n\
#[allow(unused_imports)] use parity_scale_codec::Compact;\n\
#[allow(unused_imports)] use bitvec::vec::BitVec;\n\
#[allow(unused_imports)] use bitvec::order::{Lsb0, Msb0};\n";

fn doc_lines(out: &mut String, ind: &str, docs: &[String]) {
    for d in docs {
        // `/// text` is `#[doc = " text"]`; the derive strips one leading blank
        let _ = writeln!(out, "{ind}/// {d}");
    }
}

/// parameters that need a marker: not used outside the definition's own recursive occurrences
fn marker_params(d: &Def, me: usize) -> Vec<usize> {
    (0..d.params.len()).filter(|j| !def_fields(d).iter().any(|f| param_outside_self(&f.ty, me, *j))).collect()
}

fn marker_ty(d: &Def, ps: &[usize]) -> String {
    let names: Vec<&str> = ps.iter().map(|j| d.params[*j].0.as_str()).collect();
    if names.len() == 1 {
        format!("PhantomData<{}>", names[0])
    } else {
        format!("PhantomData<({})>", names.join(", "))
    }
}

fn field_src(out: &mut String, ind: &str, f: &FieldDef, d: &Def, defs: &[Def], vis: &str) {
    doc_lines(out, ind, &f.docs);
    let attr = if f.compact_attr { "#[codec(compact)] " } else { "" };
    // the source text of the type; the interner's type name is the derive's `clean_type_string` of it
    let ty = reggen::type_text(&f.ty, Some(d), defs);
    match &f.name {
        Some(n) => {
            let _ = writeln!(out, "{ind}{attr}{vis}{n}: {ty},");
        }
        None => {
            let _ = writeln!(out, "{ind}{attr}{vis}{ty},");
        }
    }
}

fn is_named(fs: &[FieldDef]) -> bool {
    fs.first().map(|f| f.name.is_some()).unwrap_or(false)
}

fn def_src(out: &mut String, ind: &str, d: &Def, me: usize, defs: &[Def]) {
    let name = d.path.last().unwrap();
    doc_lines(out, ind, &d.docs);
    let _ = writeln!(out, "{ind}#[derive(scale_info::TypeInfo)]");
    if compact_as(defs).contains(&me) {
        // the type of a `#[codec(compact)]` field must be `HasCompact`
        let _ = writeln!(out, "{ind}#[derive(parity_scale_codec::Encode, parity_scale_codec::Decode, parity_scale_codec::CompactAs)]");
    }
    let skipped: Vec<&str> = d.params.iter().filter(|p| p.1).map(|p| p.0.as_str()).collect();
    if !skipped.is_empty() {
        let _ = writeln!(out, "{ind}#[scale_info(skip_type_params({}))]", skipped.join(", "));
    }
    // `T: Clone + 'static`: `Cow<'static, T>` is only well-formed for `T: ToOwned + 'static`
    let gens_decl = if d.params.is_empty() {
        String::new()
    } else {
        format!("<{}>", d.params.iter().map(|p| format!("{}: Clone + 'static", p.0)).collect::<Vec<_>>().join(", "))
    };
    let gens_use = if d.params.is_empty() {
        String::new()
    } else {
        format!("<{}>", d.params.iter().map(|p| p.0.clone()).collect::<Vec<_>>().join(", "))
    };
    let mk = marker_params(d, me);
    let ind2 = format!("{ind}    ");
    match &d.body {
        Body::Struct(fs) => {
            if fs.is_empty() && mk.is_empty() {
                let _ = writeln!(out, "{ind}pub struct {name}{gens_decl};");
            } else if is_named(fs) {
                let _ = writeln!(out, "{ind}pub struct {name}{gens_decl} {{");
                for f in fs {
                    field_src(out, &ind2, f, d, defs, "pub ");
                }
                if !mk.is_empty() {
                    let _ = writeln!(out, "{ind2}pub __marker: {},", marker_ty(d, &mk));
                }
                let _ = writeln!(out, "{ind}}}");
            } else {
                let _ = writeln!(out, "{ind}pub struct {name}{gens_decl}(");
                for f in fs {
                    field_src(out, &ind2, f, d, defs, "pub ");
                }
                if !mk.is_empty() {
                    let _ = writeln!(out, "{ind2}pub {},", marker_ty(d, &mk));
                }
                let _ = writeln!(out, "{ind});");
            }
        }
        Body::Enum(vs) => {
            let _ = writeln!(out, "{ind}pub enum {name}{gens_decl} {{");
            for (vn, idx, fs, docs) in vs {
                doc_lines(out, &ind2, docs);
                let _ = writeln!(out, "{ind2}#[codec(index = {idx})]");
                if fs.is_empty() {
                    let _ = writeln!(out, "{ind2}{vn},");
                } else if is_named(fs) {
                    let _ = writeln!(out, "{ind2}{vn} {{");
                    for f in fs {
                        field_src(out, &format!("{ind2}    "), f, d, defs, "");
                    }
                    let _ = writeln!(out, "{ind2}}},");
                } else {
                    let _ = writeln!(out, "{ind2}{vn}(");
                    for f in fs {
                        field_src(out, &format!("{ind2}    "), f, d, defs, "");
                    }
                    let _ = writeln!(out, "{ind2}),");
                }
            }
            if !mk.is_empty() {
                let _ = writeln!(out, "{ind2}#[codec(skip)]\n{ind2}__Marker({}),", marker_ty(d, &mk));
            }
            let _ = writeln!(out, "{ind}}}");
        }
    }
    // trait impls that std's `TypeInfo` impls ask of their arguments (Cow: ToOwned, Range: PartialOrd + Debug);
    // never called
    let bounds = gens_decl.clone();
    let _ = writeln!(out, "{ind}impl{bounds} Clone for {name}{gens_use} {{ fn clone(&self) -> Self {{ unimplemented!() }} }}");
    let _ = writeln!(out, "{ind}impl{bounds} PartialEq for {name}{gens_use} {{ fn eq(&self, _: &Self) -> bool {{ unimplemented!() }} }}");
    let _ = writeln!(out, "{ind}impl{bounds} PartialOrd for {name}{gens_use} {{ fn partial_cmp(&self, _: &Self) -> Option<core::cmp::Ordering> {{ unimplemented!() }} }}");
    let _ = writeln!(out, "{ind}impl{bounds} core::fmt::Debug for {name}{gens_use} {{ fn fmt(&self, _: &mut core::fmt::Formatter<'_>) -> core::fmt::Result {{ unimplemented!() }} }}");
}

#[derive(Default)]
struct ModTree {
    defs: Vec<usize>,
    subs: BTreeMap<String, ModTree>,
}

fn mod_src(out: &mut String, depth: usize, m: &ModTree, p: &Program, root: &str) {
    let ind = "    ".repeat(depth);
    out.push_str(&USES.lines().map(|l| format!("{ind}{l}\n")).collect::<String>());
    // definitions of other modules, by bare name
    let mut used = BTreeSet::new();
    for i in &m.defs {
        def_fields(&p.defs[*i]).iter().for_each(|f| apps(&f.ty, &mut used));
    }
    for u in used {
        if !m.defs.contains(&u) {
            let _ = writeln!(out, "{ind}#[allow(unused_imports)] use {root}::{};", p.defs[u].path.join("::"));
        }
    }
    for i in &m.defs {
        def_src(out, &ind, &p.defs[*i], *i, &p.defs);
    }
    for (n, sub) in &m.subs {
        let _ = writeln!(out, "{ind}pub mod {n} {{");
        mod_src(out, depth + 1, sub, p, root);
        let _ = writeln!(out, "{ind}}}");
    }
}

/// a closed type as written at the root of the program's module (definitions by module path)
fn root_ty(s: &Src, defs: &[Def]) -> String {
    let r = |x: &Src| root_ty(x, defs);
    match s {
        Src::App(d, a) => {
            let n = defs[*d].path.join("::");
            if a.is_empty() { n } else { format!("{}<{}>", n, a.iter().map(r).collect::<Vec<_>>().join(", ")) }
        }
        Src::Param(_) => panic!("harness: open root type"),
        Src::Vec(a) => format!("Vec<{}>", r(a)),
        Src::VecDeque(a) => format!("VecDeque<{}>", r(a)),
        Src::Array(n, a) => format!("[{}; {}]", r(a), n),
        Src::Tuple(a) if a.len() == 1 => format!("({},)", r(&a[0])),
        Src::Tuple(a) => format!("({})", a.iter().map(r).collect::<Vec<_>>().join(", ")),
        Src::Prim(p) => if *p == "str" { "String".into() } else { p.to_string() },
        Src::Compact(a) => format!("Compact<{}>", r(a)),
        Src::BoxT(a) => format!("Box<{}>", r(a)),
        Src::Opt(a) => format!("Option<{}>", r(a)),
        Src::Res(a, b) => format!("Result<{}, {}>", r(a), r(b)),
        Src::BTreeMap(a, b) => format!("BTreeMap<{}, {}>", r(a), r(b)),
        Src::BTreeSet(a) => format!("BTreeSet<{}>", r(a)),
        Src::Cow(a) => format!("Cow<'static, {}>", r(a)),
        Src::Range(a) => format!("Range<{}>", r(a)),
        Src::BitVec(s, l) => format!("BitVec<{}, {}>", s, if *l { "Lsb0" } else { "Msb0" }),
    }
}

/// the file `p_<k>.rs`
pub fn program_src(p: &Program, k: usize) -> String {
    let mut tree = ModTree::default();
    for (i, d) in p.defs.iter().enumerate() {
        let mut m = &mut tree;
        for seg in &d.path[..d.path.len() - 1] {
            m = m.subs.entry(seg.clone()).or_default();
        }
        m.defs.push(i);
    }
    let mut out = String::from("#![allow(warnings)]\n");
    mod_src(&mut out, 0, &tree, p, &format!("crate::p_{k}"));
    out.push_str("pub fn run() -> String {\n    let mut r = scale_info::Registry::new();\n");
    for root in &p.roots {
        let _ = writeln!(out, "    r.register_type(&scale_info::meta_type::<{}>());", root_ty(root, &p.defs));
    }
    out.push_str("    let p: scale_info::PortableRegistry = r.into();\n    serde_json::to_string(&p).unwrap()\n}\n");
    out
}

// ---------------------------------------------------------------------------
// comparison

fn reserialise(v: &Value) -> Result<Value, String> {
    let r: scale_info::PortableRegistry = serde_json::from_value(v.clone()).map_err(|e| format!("not a PortableRegistry: {e}"))?;
    serde_json::to_value(&r).map_err(|e| e.to_string())
}

/// normalisation 2 of the module documentation
fn strip_prefix(v: &mut Value, prefix: &[String]) -> Result<(), String> {
    let types = v["types"].as_array_mut().ok_or("no types")?;
    for t in types {
        let is_item = t["type"]["def"].get("composite").is_some() || t["type"]["def"].get("variant").is_some();
        if let Some(path) = t["type"].get_mut("path").and_then(|p| p.as_array_mut()) {
            let segs: Vec<String> = path.iter().map(|s| s.as_str().unwrap_or("").to_string()).collect();
            if segs.len() > prefix.len() && segs[..prefix.len()] == *prefix {
                *path = segs[prefix.len()..].iter().map(|s| json!(s)).collect();
            } else if is_item && !matches!(segs[0].as_str(), "Option" | "Result" | "BTreeMap" | "BTreeSet" | "Cow" | "Range" | "bitvec") {
                return Err(format!("derived path {:?} does not begin with {:?}", segs, prefix));
            }
        }
    }
    Ok(())
}

/// normalisation 3 of the module documentation: undo the line breaks of rustc's token pretty-printer
fn unwrap_type_names(v: &mut Value) {
    match v {
        Value::Object(m) => {
            for (k, x) in m.iter_mut() {
                if k == "typeName" {
                    if let Some(s) = x.as_str() {
                        if s.contains('\n') {
                            *x = json!(reggen::clean_type_string(&s.replace('\n', " ")));
                        }
                    }
                } else {
                    unwrap_type_names(x);
                }
            }
        }
        Value::Array(a) => a.iter_mut().for_each(unwrap_type_names),
        _ => {}
    }
}

fn first_diff(a: &Value, b: &Value) -> Value {
    let (ta, tb) = (a["types"].as_array().cloned().unwrap_or_default(), b["types"].as_array().cloned().unwrap_or_default());
    for i in 0..ta.len().max(tb.len()) {
        if ta.get(i) != tb.get(i) {
            return json!({"id": i, "derive": ta.get(i), "interner": tb.get(i), "derive_len": ta.len(), "interner_len": tb.len()});
        }
    }
    Value::Null
}

// ---------------------------------------------------------------------------

pub struct Opts {
    pub seed: u64,
    pub out: PathBuf,
    pub scratch: Option<PathBuf>,
    pub keep: bool,
    pub nrandom: usize,
    pub replay: Option<PathBuf>,
}

struct Case {
    k: usize,
    name: String,
    program: Program,
    interned: Value,
    dups: usize,
}

struct Scratch {
    dir: PathBuf,
    keep: bool,
}
impl Drop for Scratch {
    fn drop(&mut self) {
        if !self.keep {
            let _ = std::fs::remove_dir_all(&self.dir);
        }
    }
}

const NGROUPS: usize = 8;

fn write_project(dir: &Path, groups: &[Vec<&Case>]) {
    std::fs::create_dir_all(dir.join(".cargo")).unwrap();
    std::fs::write(
        dir.join("Cargo.toml"),
        "[package]\nname = \"dt_scratch\"\nversion = \"0.0.0\"\nedition = \"2021\"\nautobins = true\n\n[workspace]\n\n[dependencies]\n\
         scale-info = { version = \"2.11.1\", features = [\"derive\", \"bit-vec\", \"docs\", \"serde\", \"std\"] }\n\
         parity-scale-codec = { version = \"3.6.12\", features = [\"derive\"] }\n\
         bitvec = \"1\"\nserde_json = \"1\"\n\n\
         [profile.dev]\ndebug = false\nincremental = false\nopt-level = 0\n",
    )
    .unwrap();
    std::fs::write(dir.join(".cargo/config.toml"), "[net]\noffline = true\n").unwrap();
    // the harness's own lock file pins the same scale-info / bitvec / serde_json versions (offline registry)
    let lock = crate::util::verif_dir().join("harness").join("Cargo.lock");
    if std::fs::copy(&lock, dir.join("Cargo.lock")).is_err() {
        let _ = std::fs::copy("/repo/Cargo.lock", dir.join("Cargo.lock"));
    }
    let _ = std::fs::remove_dir_all(dir.join("src"));
    for (gi, g) in groups.iter().enumerate() {
        let bdir = dir.join("src").join("bin").join(format!("g{gi}"));
        std::fs::create_dir_all(&bdir).unwrap();
        let mut main = String::from("#![allow(warnings)]\n#![recursion_limit = \"1024\"]\n");
        for c in g {
            let _ = writeln!(main, "mod p_{};", c.k);
            std::fs::write(bdir.join(format!("p_{}.rs", c.k)), program_src(&c.program, c.k)).unwrap();
        }
        main.push_str("fn one(k: usize, f: fn() -> String) {\n    match std::panic::catch_unwind(f) {\n        Ok(s) => println!(\"{}\\t{}\", k, s),\n        Err(_) => println!(\"{}\\tPANIC\", k),\n    }\n}\nfn main() {\n");
        for c in g {
            let _ = writeln!(main, "    one({}, p_{}::run);", c.k, c.k);
        }
        main.push_str("}\n");
        std::fs::write(bdir.join("main.rs"), main).unwrap();
    }
}

fn run_cmd(cmd: &mut std::process::Command) -> (bool, String, String) {
    match cmd.output() {
        Ok(o) => (o.status.success(), String::from_utf8_lossy(&o.stdout).to_string(), String::from_utf8_lossy(&o.stderr).to_string()),
        Err(e) => (false, String::new(), format!("could not start: {e}")),
    }
}

pub fn run(o: &Opts) -> Value {
    let t0 = Instant::now();
    // ---- the programs ------------------------------------------------------------------
    let mut all: Vec<(String, Program)> = vec![];
    for (n, p) in corpus::programs() {
        all.push((format!("corpus:{n}"), p));
    }
    for (n, p) in corpus::identity_programs() {
        all.push((format!("identity:{n}"), p));
    }
    let mut rng = c05::stream_rng(o.seed);
    for k in 0..o.nrandom {
        let (p, _) = c05::next_program(&mut rng, k);
        all.push((format!("random-program:{k}"), p));
    }
    let only: Option<String> = o.replay.as_ref().map(|f| {
        let v: Value = serde_json::from_str(&std::fs::read_to_string(f).expect("harness: replay file")).expect("harness: replay json");
        v["name"].as_str().expect("harness: replay name").to_string()
    });
    let mut skipped: BTreeMap<String, usize> = BTreeMap::new();
    let mut cases: Vec<Case> = vec![];
    let mut programs = 0usize;
    for (k, (name, p)) in all.into_iter().enumerate() {
        if let Some(n) = &only {
            if *n != name {
                continue;
            }
        }
        programs += 1;
        let (interned, _, labels) = reggen::build_labelled(&p);
        if let Some(why) = inexpressible(&p, &labels) {
            *skipped.entry(why.to_string()).or_insert(0) += 1;
            continue;
        }
        let dups = reggen::identity_duplicates(&labels);
        // self-test of this tier: VH_DT_LEGACY_IDENTITY=1 compares the derive with the interner under the false
        // assumption the tier corrected (must fail on the identity corpus)
        let interned = if std::env::var("VH_DT_LEGACY_IDENTITY").is_ok() { reggen::build_legacy_identity(&p) } else { interned };
        cases.push(Case { k, name, program: p, interned, dups });
    }

    // ---- build and run, dropping programs rustc rejects (reported as failures) and retrying ----
    let dir = o.scratch.clone().unwrap_or_else(|| std::env::temp_dir().join(format!("dt_{}", std::process::id())));
    let _ = std::fs::remove_dir_all(&dir);
    let scratch = Scratch { dir: dir.clone(), keep: o.keep };
    let mut rejected: BTreeMap<usize, Vec<String>> = BTreeMap::new();
    let mut other_errors: Vec<String> = vec![];
    let mut outputs: BTreeMap<usize, (usize, String)> = BTreeMap::new();
    let mut build_s = 0.0;
    let mut rounds = 0;
    loop {
        rounds += 1;
        let live: Vec<&Case> = cases.iter().filter(|c| !rejected.contains_key(&c.k)).collect();
        let mut groups: Vec<Vec<&Case>> = (0..NGROUPS.min(live.len().max(1))).map(|_| vec![]).collect();
        let ng = groups.len();
        for (i, c) in live.iter().enumerate() {
            groups[i % ng].push(c);
        }
        write_project(&dir, &groups);
        let t1 = Instant::now();
        let (ok, _, log) = run_cmd(
            std::process::Command::new("timeout")
                .args(["900", "cargo", "build", "--offline", "--keep-going", "--message-format=short", "--bins"])
                .current_dir(&dir)
                .env("CARGO_TARGET_DIR", dir.join("target"))
                .env("CARGO_NET_OFFLINE", "true")
                .env_remove("RUSTFLAGS"),
        );
        build_s += t1.elapsed().as_secs_f64();
        let mut new_rejects = 0;
        if !ok {
            for l in log.lines().filter(|l| l.contains(": error")) {
                let rk = l.find("/p_").and_then(|i| l[i + 3..].split('.').next().and_then(|s| s.parse::<usize>().ok()));
                match rk {
                    Some(k) if cases.iter().any(|c| c.k == k) => {
                        let e = rejected.entry(k).or_default();
                        if e.is_empty() {
                            new_rejects += 1;
                        }
                        if e.len() < 4 {
                            e.push(l.to_string());
                        }
                    }
                    _ => {
                        if other_errors.len() < 10 {
                            other_errors.push(l.to_string());
                        }
                    }
                }
            }
            if new_rejects > 0 && rounds < 4 {
                continue;
            }
            if new_rejects == 0 && other_errors.is_empty() {
                other_errors.push(format!("cargo build failed without an attributable error: {}", log.chars().rev().take(1500).collect::<String>().chars().rev().collect::<String>()));
            }
        }
        for (gi, g) in groups.iter().enumerate() {
            let exe = dir.join("target").join("debug").join(format!("g{gi}"));
            if !exe.exists() {
                continue;
            }
            let (_, stdout, _) = run_cmd(&mut std::process::Command::new(&exe));
            for line in stdout.lines() {
                if let Some((k, j)) = line.split_once('\t') {
                    if let Ok(k) = k.parse::<usize>() {
                        outputs.insert(k, (gi, j.to_string()));
                    }
                }
            }
            let _ = g;
        }
        break;
    }
    drop(scratch);

    // ---- compare ---------------------------------------------------------------------------
    let mut compared = 0usize;
    let mut equal = 0usize;
    let mut with_dups = 0usize;
    let mut mismatches: Vec<Value> = vec![];
    let mut replay_n = 0usize;
    let mut fail = |c: &Case, what: String, diff: Value, derived: Value, mismatches: &mut Vec<Value>| {
        let path = o.out.join(format!("replay_derive_{}.json", replay_n));
        replay_n += 1;
        let j = json!({"kind": "derive-tier", "name": c.name, "seed": o.seed, "what": what, "first_difference": diff,
                       "program": format!("{:?}", c.program), "rust_source": program_src(&c.program, c.k),
                       "derived_registry": derived, "interned_registry": c.interned,
                       "rerun": "harness/target/release/vharness derive-tier <seed> <outdir> --random <N> --replay <this file>"});
        let _ = std::fs::write(&path, serde_json::to_string_pretty(&j).unwrap());
        if mismatches.len() < 20 {
            mismatches.push(json!({"name": c.name, "what": what, "first_difference": diff, "replay": path.to_string_lossy()}));
        }
    };
    let mut not_compared = 0usize;
    let mut wrapped_programs = 0usize;
    let mut legacy_differs = 0usize;
    for c in &cases {
        if let Some(errs) = rejected.get(&c.k) {
            fail(c, format!("rustc rejects the printed program (not predicted by `inexpressible`): {}", errs.join(" | ")), Value::Null, Value::Null, &mut mismatches);
            continue;
        }
        let Some((gi, out)) = outputs.get(&c.k) else {
            not_compared += 1;
            continue;
        };
        compared += 1;
        if out == "PANIC" {
            fail(c, "the compiled program panicked while registering its types".into(), Value::Null, Value::Null, &mut mismatches);
            continue;
        }
        let derived_raw: Value = match serde_json::from_str(out) {
            Ok(v) => v,
            Err(e) => {
                fail(c, format!("output is not JSON: {e}"), Value::Null, json!(out), &mut mismatches);
                continue;
            }
        };
        let mut derived = match reserialise(&derived_raw) {
            Ok(v) => v,
            Err(e) => {
                fail(c, e, Value::Null, derived_raw, &mut mismatches);
                continue;
            }
        };
        if let Err(e) = strip_prefix(&mut derived, &[format!("g{gi}"), format!("p_{}", c.k)]) {
            fail(c, e, Value::Null, derived, &mut mismatches);
            continue;
        }
        let wrapped = serde_json::to_string(&derived).unwrap().matches("\\n").count();
        unwrap_type_names(&mut derived);
        if wrapped > 0 {
            wrapped_programs += 1;
        }
        let interned = reserialise(&c.interned).expect("harness: interner output is a registry");
        if reserialise(&reggen::build_legacy_identity(&c.program)).map(|l| l != derived).unwrap_or(true) {
            legacy_differs += 1;
        }
        if derived == interned {
            equal += 1;
            if c.dups > 0 {
                with_dups += 1;
            }
        } else {
            let d = first_diff(&derived, &interned);
            fail(c, "the derived registry differs from the interner's".into(), d, derived, &mut mismatches);
        }
    }
    let failures = compared - equal + rejected.len() + not_compared + other_errors.len();
    let report = json!({
        "programs": programs,
        "compared": compared,
        "equal": equal,
        "equal_with_identity_duplicates": with_dups,
        "programs_with_wrapped_type_names": wrapped_programs,
        "differ_from_the_interner_with_canon_identity": legacy_differs,
        "skipped": skipped,
        "rustc_rejected": rejected.len(),
        "not_compared": not_compared,
        "mismatches": mismatches,
        "build_errors": other_errors,
        "failures": failures,
        "build_rounds": rounds,
        "build_s": build_s,
        "wall_s": t0.elapsed().as_secs_f64(),
        "seed": o.seed,
        "random": o.nrandom,
        "scratch_removed": !dir.exists(),
        "normalisation": "both registries through scale_info::PortableRegistry's serde; the leading path segments [g<i>, p_<k>] (crate and program module of the scratch binary) removed from derived paths; line breaks of rustc's token pretty-printer inside recorded type names replaced by the blank they stand for (then scale-info-derive's clean_type_string again); nothing else",
    });
    std::fs::create_dir_all(&o.out).ok();
    std::fs::write(o.out.join("derive_tier.json"), serde_json::to_string_pretty(&report).unwrap()).unwrap();
    report
}

pub fn main(args: &[String]) -> i32 {
    if args.len() < 2 {
        eprintln!("usage: vharness derive-tier <seed> <outdir> [--random N] [--scratch dir] [--keep] [--replay file]");
        return 2;
    }
    let mut o = Opts { seed: args[0].parse().unwrap_or(1), out: PathBuf::from(&args[1]), scratch: None, keep: false, nrandom: 200, replay: None };
    let mut i = 2;
    while i < args.len() {
        match args[i].as_str() {
            "--random" => {
                o.nrandom = args[i + 1].parse().unwrap_or(200);
                i += 2;
            }
            "--scratch" => {
                o.scratch = Some(PathBuf::from(&args[i + 1]));
                i += 2;
            }
            "--replay" => {
                o.replay = Some(PathBuf::from(&args[i + 1]));
                i += 2;
            }
            "--keep" => {
                o.keep = true;
                i += 1;
            }
            _ => i += 1,
        }
    }
    let r = run(&o);
    println!(
        "derive tier: {} programs, {} compared, {} equal, skipped {}, failures {}",
        r["programs"], r["compared"], r["equal"], r["skipped"], r["failures"]
    );
    if r["failures"].as_u64().unwrap_or(1) == 0 { 0 } else { 1 }
}
