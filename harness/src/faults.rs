//! Single-fault injection into a registry JSON (C10): enumerates every
//! reference site and every entry id.
use serde_json::Value;

#[derive(Clone, Debug)]
pub enum Fault {
    /// entry at position `pos` gets id `new_id`
    Id { pos: usize, new_id: u32 },
    /// reference site `site` (see `sites`) is redirected to a missing id
    Missing { site: usize, id: u32 },
    /// composite / variant field list made mixed: entry position, (variant index), field index toggled
    Mixed { pos: usize, variant: Option<usize>, field: usize },
}

/// JSON pointers of all reference sites, in registry order
pub fn sites(reg: &Value) -> Vec<String> {
    let mut v = vec![];
    let types = reg["types"].as_array().unwrap();
    for (i, e) in types.iter().enumerate() {
        let t = &e["type"];
        if let Some(ps) = t["params"].as_array() {
            for (k, p) in ps.iter().enumerate() {
                if p.get("type").map(|x| x.is_u64()).unwrap_or(false) {
                    v.push(format!("/types/{i}/type/params/{k}/type"));
                }
            }
        }
        let d = &t["def"];
        if let Some(c) = d.get("composite") {
            for (k, _) in c["fields"].as_array().unwrap().iter().enumerate() {
                v.push(format!("/types/{i}/type/def/composite/fields/{k}/type"));
            }
        } else if let Some(c) = d.get("variant") {
            for (vi, var) in c["variants"].as_array().unwrap().iter().enumerate() {
                for (k, _) in var["fields"].as_array().unwrap().iter().enumerate() {
                    v.push(format!("/types/{i}/type/def/variant/variants/{vi}/fields/{k}/type"));
                }
            }
        } else if d.get("sequence").is_some() {
            v.push(format!("/types/{i}/type/def/sequence/type"));
        } else if d.get("array").is_some() {
            v.push(format!("/types/{i}/type/def/array/type"));
        } else if let Some(t) = d.get("tuple") {
            for (k, _) in t.as_array().unwrap().iter().enumerate() {
                v.push(format!("/types/{i}/type/def/tuple/{k}"));
            }
        } else if d.get("compact").is_some() {
            v.push(format!("/types/{i}/type/def/compact/type"));
        } else if d.get("bitsequence").is_some() {
            v.push(format!("/types/{i}/type/def/bitsequence/bit_store_type"));
            v.push(format!("/types/{i}/type/def/bitsequence/bit_order_type"));
        }
    }
    v
}

/// field lists with >= 2 fields (candidates for the mixed fault): (entry pos, variant idx, #fields)
pub fn field_lists(reg: &Value) -> Vec<(usize, Option<usize>, usize)> {
    let mut v = vec![];
    for (i, e) in reg["types"].as_array().unwrap().iter().enumerate() {
        let d = &e["type"]["def"];
        if let Some(c) = d.get("composite") {
            let n = c["fields"].as_array().unwrap().len();
            if n >= 2 {
                v.push((i, None, n));
            }
        } else if let Some(c) = d.get("variant") {
            for (vi, var) in c["variants"].as_array().unwrap().iter().enumerate() {
                let n = var["fields"].as_array().unwrap().len();
                if n >= 2 {
                    v.push((i, Some(vi), n));
                }
            }
        }
    }
    v
}

pub fn apply(reg: &Value, f: &Fault) -> Value {
    let mut r = reg.clone();
    match f {
        Fault::Id { pos, new_id } => {
            r["types"][*pos]["id"] = Value::from(*new_id);
        }
        Fault::Missing { site, id } => {
            let s = sites(reg);
            *r.pointer_mut(&s[*site]).unwrap() = Value::from(*id);
        }
        Fault::Mixed { pos, variant, field } => {
            let fl = match variant {
                None => &mut r["types"][*pos]["type"]["def"]["composite"]["fields"],
                Some(v) => &mut r["types"][*pos]["type"]["def"]["variant"]["variants"][*v]["fields"],
            };
            let fo = fl[*field].as_object_mut().unwrap();
            if fo.contains_key("name") {
                fo.remove("name");
            } else {
                fo.insert("name".into(), Value::from("injected"));
            }
        }
    }
    r
}
