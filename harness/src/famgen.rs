//! Same-path families for C03 / C04: generic instantiations, associated-type
//! variants (skipped parameters), "two versions of one crate" (a mutated copy
//! of a definition under the same path), digit-suffixed names.
use crate::reggen::{self, Body, Def, FieldDef, GenCfg, Program, Src};
use crate::rng::Rng;

const LEAVES: [&str; 4] = ["u8", "u16", "bool", "str"];

fn small_type(rng: &mut Rng, nparams: usize, depth: usize, others: &[usize], defs: &[Def]) -> Src {
    if depth >= 2 || rng.chance(1, 2) {
        if nparams > 0 && rng.chance(1, 2) {
            return Src::Param(rng.below(nparams));
        }
        return Src::Prim(*rng.pick(&LEAVES));
    }
    match rng.below(7) {
        // a bit sequence: members that differ only in the store (or only in the order) are different
        // on the wire (round-4 seeded change C03-4: the store was no longer compared)
        6 => Src::BitVec(*rng.pick(&["u8", "u16", "u32", "u64"]), rng.chance(1, 2)),
        0 => Src::Vec(Box::new(small_type(rng, nparams, depth + 1, others, defs))),
        1 => Src::Array(2, Box::new(small_type(rng, nparams, depth + 1, others, defs))),
        2 => Src::Tuple(vec![small_type(rng, nparams, depth + 1, others, defs), small_type(rng, nparams, depth + 1, others, defs)]),
        3 => Src::Opt(Box::new(small_type(rng, nparams, depth + 1, others, defs))),
        _ if !others.is_empty() => {
            let d = *rng.pick(others);
            let args = (0..defs[d].params.len()).map(|_| small_type(rng, nparams, depth + 1, &[], defs)).collect();
            Src::App(d, args)
        }
        _ => Src::Prim(*rng.pick(&LEAVES)),
    }
}

fn mutate_type(rng: &mut Rng, t: &Src) -> Src {
    match t {
        Src::Prim(p) => {
            let mut q = *rng.pick(&LEAVES);
            if q == *p {
                q = "i32";
            }
            Src::Prim(q)
        }
        Src::Vec(a) => if rng.chance(1, 2) { Src::Vec(Box::new(mutate_type(rng, a))) } else { Src::Array(2, a.clone()) },
        Src::Array(n, a) => if rng.chance(1, 2) { Src::Array(n + 1, a.clone()) } else { Src::Array(*n, Box::new(mutate_type(rng, a))) },
        Src::Tuple(v) if !v.is_empty() => {
            let mut v = v.clone();
            let i = rng.below(v.len());
            if rng.chance(1, 3) { v.remove(i); } else { v[i] = mutate_type(rng, &v[i]); }
            Src::Tuple(v)
        }
        Src::Opt(a) => Src::Opt(Box::new(mutate_type(rng, a))),
        Src::Param(_) => Src::Prim("u8"),
        Src::BitVec(st, lsb) => {
            if rng.chance(2, 3) {
                let mut q = *rng.pick(&["u8", "u16", "u32", "u64"]);
                if q == *st {
                    q = if *st == "u8" { "u32" } else { "u8" };
                }
                Src::BitVec(q, *lsb)
            } else {
                Src::BitVec(st, !*lsb)
            }
        }
        other => Src::Vec(Box::new(other.clone())),
    }
}

/// a differently shaped "second version" of a definition under the same path
fn mutate_def(rng: &mut Rng, d: &Def) -> Def {
    let mut m = d.clone();
    let mutate_fields = |rng: &mut Rng, fs: &mut Vec<FieldDef>| {
        if fs.is_empty() {
            fs.push(FieldDef { name: None, ty: Src::Prim("u8"), compact_attr: false, docs: vec![], type_name: true });
            return;
        }
        let i = rng.below(fs.len());
        match rng.below(5) {
            0 => fs[i].ty = mutate_type(rng, &fs[i].ty.clone()),
            1 if fs[i].name.is_some() => fs[i].name = Some(format!("{}_r", fs[i].name.clone().unwrap())),
            2 if fs.len() >= 2 => fs.swap(0, 1),
            3 => { fs.remove(i); }
            _ => fs[i].ty = mutate_type(rng, &fs[i].ty.clone()),
        }
    };
    match &mut m.body {
        Body::Struct(fs) => mutate_fields(rng, fs),
        Body::Enum(vs) => {
            let i = rng.below(vs.len());
            match rng.below(6) {
                0 => vs[i].0 = format!("{}Renamed", vs[i].0),
                1 if vs.len() >= 2 => { vs.remove(i); }
                // wire-different copies that agree in names and fields (F19): another index,
                // or the indices of two variants exchanged
                2 => vs[i].1 = vs[i].1.wrapping_add(100),
                3 if vs.len() >= 2 => { let j = (i + 1) % vs.len(); let t = vs[i].1; vs[i].1 = vs[j].1; vs[j].1 = t; }
                _ => mutate_fields(rng, &mut vs[i].2),
            }
        }
    }
    match rng.below(6) {
        0 if !m.params.is_empty() => { m.params.pop(); fix_params(&mut m); }
        1 if m.params.len() < 2 => m.params.push(("Extra".into(), false)),
        2 if !m.params.is_empty() => { let l = m.params.len() - 1; m.params[l].1 = !m.params[l].1; }
        _ => {}
    }
    m
}

/// after dropping a parameter, Param(i) references beyond the end become u8
fn fix_params(d: &mut Def) {
    let n = d.params.len();
    fn fix(t: &mut Src, n: usize) {
        match t {
            Src::Param(i) if *i >= n => *t = Src::Prim("u8"),
            Src::App(_, a) | Src::Tuple(a) => a.iter_mut().for_each(|x| fix(x, n)),
            Src::Vec(a) | Src::VecDeque(a) | Src::Array(_, a) | Src::Compact(a) | Src::BoxT(a) | Src::Opt(a)
            | Src::BTreeSet(a) | Src::Cow(a) | Src::Range(a) => fix(a, n),
            Src::Res(a, b) | Src::BTreeMap(a, b) => { fix(a, n); fix(b, n); }
            _ => {}
        }
    }
    match &mut d.body {
        Body::Struct(fs) => fs.iter_mut().for_each(|f| fix(&mut f.ty, n)),
        Body::Enum(vs) => vs.iter_mut().for_each(|v| v.2.iter_mut().for_each(|f| fix(&mut f.ty, n))),
    }
}

pub fn family_program(rng: &mut Rng) -> Program {
    let mut defs: Vec<Def> = vec![];
    // helper types referenced by the family members
    let nhelp = rng.below(3);
    for i in 0..nhelp {
        let np = rng.below(2);
        defs.push(Def {
            path: vec!["h".into(), format!("Wrap{i}")],
            params: (0..np).map(|k| (["T", "U"][k].to_string(), false)).collect(),
            body: Body::Struct(vec![FieldDef { name: Some("w".into()), ty: if np > 0 { Src::Param(0) } else { Src::Prim("u32") },
                                               compact_attr: false, docs: vec![], type_name: rng.chance(3, 4) }]),
            docs: vec![],
        });
    }
    let others: Vec<usize> = (0..defs.len()).collect();
    let base_name = rng.pick(&["Foo", "Header", "Foo1", "Ev2"]).to_string();
    let np = rng.below(3);
    let names = ["T", "U"];
    let no_tn = rng.chance(1, 4);
    let mk_fields = |rng: &mut Rng, defs: &[Def]| -> Vec<FieldDef> {
        let n = rng.below(4);
        let named = rng.chance(1, 2);
        (0..n)
            .map(|i| FieldDef {
                name: if named { Some(format!("f{i}")) } else { None },
                ty: small_type(rng, np, 0, &others, defs),
                compact_attr: false,
                docs: vec![],
                type_name: !no_tn,
            })
            .collect()
    };
    let body = if rng.chance(2, 3) {
        Body::Struct(mk_fields(rng, &defs))
    } else {
        let nv = rng.range(1, 3);
        Body::Enum((0..nv).map(|i| (format!("V{i}"), i as u8, mk_fields(rng, &defs), vec![])).collect())
    };
    let first = Def {
        path: vec!["a".into(), base_name.clone()],
        params: (0..np).map(|k| (names[k].to_string(), rng.chance(1, 5))).collect(),
        body,
        docs: vec![],
    };
    let fam_start = defs.len();
    defs.push(first.clone());
    // further members: mutated copies under the same path (0..3 of them)
    let nm = match rng.below(6) { 0 => 0, 1..=3 => 1, 4 => 2, _ => 3 };
    for _ in 0..nm {
        let src = defs[fam_start + rng.below(defs.len() - fam_start)].clone();
        let m = if rng.chance(1, 6) { src } else { mutate_def(rng, &src) };
        defs.push(m);
    }
    // an unrelated type that already carries a digit-suffixed name of the family
    if rng.chance(1, 3) {
        defs.push(Def {
            path: vec!["a".into(), format!("{}{}", base_name, rng.range(1, 2))],
            params: vec![],
            body: Body::Struct(vec![FieldDef { name: None, ty: Src::Prim("u64"), compact_attr: false, docs: vec![], type_name: true }]),
            docs: vec![],
        });
    }
    // an outer type that nests family members (renaming nested types changes the verdict for the outer one)
    let mut roots: Vec<Src> = vec![];
    let arg_pool = [Src::Prim("u8"), Src::Prim("u16"), Src::Prim("i64"), Src::Prim("char"), Src::Vec(Box::new(Src::Prim("u8")))];
    for d in fam_start..defs.len() {
        let n_inst = rng.range(1, 2);
        for _ in 0..n_inst {
            let args: Vec<Src> = (0..defs[d].params.len()).map(|_| rng.pick(&arg_pool).clone()).collect();
            roots.push(Src::App(d, args));
        }
    }
    // cross-overlapping arguments F<a,b>, F<b,c>, F<c,a> for a member with >= 2 parameters
    if rng.chance(1, 3) {
        let multi: Vec<usize> = (fam_start..defs.len()).filter(|d| defs[*d].params.len() >= 2).collect();
        if !multi.is_empty() {
            let d = *rng.pick(&multi);
            let pool = [Src::Prim("u16"), Src::Prim("i64"), Src::Prim("char")];
            for k in 0..3 {
                let args: Vec<Src> = (0..defs[d].params.len()).map(|i| pool[(k + i) % 3].clone()).collect();
                roots.push(Src::App(d, args));
            }
        }
    }
    if rng.chance(1, 3) && defs.len() > fam_start + 1 {
        // a::Outer<T> { h: <member> } twice with different members / arguments
        let outer = defs.len();
        let m1 = fam_start;
        defs.push(Def {
            path: vec!["a".into(), "Outer".into()],
            params: vec![("T".into(), false)],
            body: Body::Struct(vec![FieldDef {
                name: Some("h".into()),
                ty: Src::App(m1, (0..defs[m1].params.len()).map(|_| Src::Param(0)).collect()),
                compact_attr: false, docs: vec![], type_name: !no_tn }]),
            docs: vec![],
        });
        roots.push(Src::App(outer, vec![Src::Prim("u8")]));
        roots.push(Src::App(outer, vec![Src::Prim("u16")]));
    }
    // a second, independent clashing path in the same registry (numbering is per path)
    if rng.chance(1, 3) {
        let d1 = defs.len();
        for (k, prim) in ["u8", "u64", "bool"].iter().enumerate().take(rng.range(2, 3)) {
            let _ = k;
            defs.push(Def {
                path: vec!["b".into(), "Digest".into()],
                params: vec![],
                body: Body::Struct(vec![FieldDef { name: Some("d".into()), ty: Src::Prim(prim), compact_attr: false, docs: vec![], type_name: !no_tn }]),
                docs: vec![],
            });
        }
        for d in d1..defs.len() {
            roots.push(Src::App(d, vec![]));
        }
    }
    rng.shuffle(&mut roots);
    Program { defs, roots }
}

/// a larger random program with some paths deliberately shared
pub fn noisy_program(rng: &mut Rng) -> Program {
    let mut p = reggen::rand_program(rng, &GenCfg { max_defs: 5, allow_bits: false, ..GenCfg::default() });
    if p.defs.len() >= 2 && rng.chance(2, 3) {
        let i = rng.below(p.defs.len());
        let mut j = rng.below(p.defs.len());
        if i == j { j = (j + 1) % p.defs.len(); }
        p.defs[j].path = p.defs[i].path.clone();
        for d in [i, j] {
            let args: Vec<Src> = { let cps = reggen::compact_params(&p.defs[d]); (0..p.defs[d].params.len()).map(|i| if cps.contains(&i) { Src::Prim("u32") } else { reggen::rand_arg(rng, 0) }).collect() };
            p.roots.push(Src::App(d, args));
        }
    }
    p
}

/// Every same-path family `a::F` of one to three DISTINCT members over a small alphabet of member
/// shapes, in every order (C03 / C04 quantifier "exhaustively for all such families up to a small size
/// bound").  A member is a one-field struct:
///   mode      none: `F { x: P }` | used: `F<T> { x: T }` | unused: `F<T> { x: P }`
///   P         u8 | u16           (concrete field type; not applicable to `used`)
///   field     named `x` | unnamed
///   argument  u8 | u16           (instantiation argument; not applicable to `none`)
/// = 4 + 4 + 8 = 16 member shapes.  Members that differ only in the argument are instantiations of ONE
/// definition (one `Def`, so one label); arguments and concrete field types are drawn from the same two
/// primitives on purpose (coincidences).  16 + 16*15 + 16*15*14 = 3616 programs.
pub fn small_families() -> Vec<Program> {
    #[derive(Clone, Copy, PartialEq, Debug)]
    struct M { mode: u8, prim: usize, named: bool, arg: usize }
    const P: [&str; 2] = ["u8", "u16"];
    let mut shapes: Vec<M> = vec![];
    for named in [true, false] {
        for prim in 0..2 {
            shapes.push(M { mode: 0, prim, named, arg: 0 });
            for arg in 0..2 {
                shapes.push(M { mode: 2, prim, named, arg });
            }
        }
        for arg in 0..2 {
            shapes.push(M { mode: 1, prim: 0, named, arg });
        }
    }
    assert_eq!(shapes.len(), 16);
    let program = |ms: &[M]| -> Program {
        let mut keys: Vec<(u8, usize, bool)> = vec![];
        let mut defs: Vec<Def> = vec![];
        let mut roots: Vec<Src> = vec![];
        for m in ms {
            let key = (m.mode, m.prim, m.named);
            let d = match keys.iter().position(|k| *k == key) {
                Some(d) => d,
                None => {
                    keys.push(key);
                    defs.push(Def {
                        path: vec!["a".into(), "F".into()],
                        params: if m.mode == 0 { vec![] } else { vec![("T".into(), false)] },
                        body: Body::Struct(vec![FieldDef {
                            name: if m.named { Some("x".into()) } else { None },
                            ty: if m.mode == 1 { Src::Param(0) } else { Src::Prim(P[m.prim]) },
                            compact_attr: false,
                            docs: vec![],
                            type_name: true,
                        }]),
                        docs: vec![],
                    });
                    defs.len() - 1
                }
            };
            roots.push(Src::App(d, if m.mode == 0 { vec![] } else { vec![Src::Prim(P[m.arg])] }));
        }
        Program { defs, roots }
    };
    let mut out = vec![];
    let n = shapes.len();
    for a in 0..n {
        out.push(program(&[shapes[a]]));
        for b in 0..n {
            if b == a { continue; }
            out.push(program(&[shapes[a], shapes[b]]));
            for c in 0..n {
                if c == a || c == b { continue; }
                out.push(program(&[shapes[a], shapes[b], shapes[c]]));
            }
        }
    }
    out
}
