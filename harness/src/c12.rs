//! C12: example SCALE values (`scale_value_from_seed`).
//!
//! Per (registry, seed): the first K words of the ChaCha8 stream (module `rngwords`) and, per type
//! id, the observed outcome (value AST / error class / panic), a determinism flag (the call is
//! repeated in-process) and the REAL round trip `encode_as_type` -> `decode_as_type` (all input
//! consumed, equal value).  Several (id, seed) observations of one registry form one case.
//! A second kind of case (`CProbe`) validates the model of rand's sampling code directly.
use crate::coq::{cbool, clist, cn, cstr, cz, Shards};
use crate::reggen::{self, GenCfg};
use crate::regprint;
use crate::rng::Rng;
use crate::rngwords;
use crate::util::{polkadot_registry, verif_dir, Meta};
use scale_info::{PortableRegistry, TypeDef, TypeDefPrimitive};
use scale_typegen_description::scale_value_from_seed;
use scale_value::{Composite, Primitive, Value, ValueDef};
use serde_json::{json, Value as J};
use std::collections::{BTreeMap, HashSet};
use std::path::Path;

pub const HEADER: &str = "From Coq Require Import List NArith ZArith String.\nFrom V Require Import Base.Util Model.Registry Model.RngWords Model.ExampleValue Corr.RunC12.\nImport ListNotations. Open Scope string_scope.";
pub const EVALS: [(&str, &str); 20] = [
    ("hyp_safe_compared", "hyp_safe_compared"),
    ("hyp_in_class", "hyp_in_class"),
    ("hyp_u256_rt_fails", "hyp_u256_rt_fails"),
    ("hyp_other_rt_fails_outside_class", "hyp_other_rt_fails_outside_class"),
    ("hyp_closed", "hyp_closed"),
    ("hyp_cyclic", "hyp_cyclic"),
    ("hyp_empty_enum", "hyp_empty_enum"),
    ("hyp_safe", "hyp_safe"),
    ("hyp_ok", "hyp_ok"),
    ("hyp_err", "hyp_err"),
    ("known_F10", "known_F10"),
    ("corr_rng", "corr_rng"),
    ("corr_value", "corr_value"),
    ("corr_safe", "corr_safe"),
    ("prop_typed", "prop_typed"),
    ("prop_roundtrip", "prop_roundtrip"),
    ("prop_deterministic", "prop_deterministic"),
    ("prop_returns", "prop_returns"),
    ("prop_no_panic", "prop_no_panic"),
    ("hyp_value_has_char", "hyp_value_has_char"),
];

// ---------------------------------------------------------------------------
// values

fn coq_composite(c: &Composite<()>) -> String {
    match c {
        Composite::Named(vs) => format!(
            "(CNamed {})",
            clist(vs.iter().map(|(n, v)| format!("({}, {})", cstr(n), coq_value(v))))
        ),
        Composite::Unnamed(vs) => format!("(CUnnamed {})", clist(vs.iter().map(coq_value))),
    }
}

fn bytes(b: &[u8; 32]) -> String {
    clist(b.iter().map(|x| cn(*x as u128)))
}

pub fn coq_value(v: &Value<()>) -> String {
    match &v.value {
        ValueDef::Composite(c) => format!("(VComposite {})", coq_composite(c)),
        ValueDef::Variant(var) => format!("(VVariant {} {})", cstr(&var.name), coq_composite(&var.values)),
        ValueDef::BitSequence(b) => format!("(VBits {})", clist(b.iter().map(|x| cbool(x).to_string()))),
        ValueDef::Primitive(p) => format!(
            "(VPrim {})",
            match p {
                Primitive::Bool(b) => format!("(VBool {})", cbool(*b)),
                Primitive::Char(c) => format!("(VChar {})", cn(*c as u128)),
                Primitive::String(s) => format!("(VString {})", cstr(s)),
                Primitive::U128(n) => format!("(VU128 {})", cn(*n)),
                Primitive::I128(z) => format!("(VI128 {})", cz(*z)),
                Primitive::U256(b) => format!("(VU256 {})", bytes(b)),
                Primitive::I256(b) => format!("(VI256 {})", bytes(b)),
            }
        ),
    }
}

fn value_nodes(v: &Value<()>) -> usize {
    match &v.value {
        ValueDef::Composite(c) => 1 + c.values().map(value_nodes).sum::<usize>(),
        ValueDef::Variant(var) => 1 + var.values.values().map(value_nodes).sum::<usize>(),
        _ => 1,
    }
}

fn has_char(v: &Value<()>) -> bool {
    match &v.value {
        ValueDef::Composite(c) => c.values().any(has_char),
        ValueDef::Variant(var) => var.values.values().any(has_char),
        ValueDef::Primitive(Primitive::Char(_)) => true,
        _ => false,
    }
}

// ---------------------------------------------------------------------------
// observations

#[derive(Clone, Debug, PartialEq)]
pub enum Out {
    Ok(Value<()>),
    Err(String, u32, String), // class, id (NotFound only), full message
    Panic,
}

fn classify(msg: &str) -> (String, u32) {
    if msg.starts_with("Cannot generate scale value example for recursive type") {
        ("Recursive".into(), 0)
    } else if msg.starts_with("Variant type should have at least one variant") {
        ("EmptyEnum".into(), 0)
    } else if msg.starts_with("Composite should not have unnamed and named fields") {
        ("MixedFields".into(), 0)
    } else if let Some(rest) = msg.strip_prefix("Type with id ") {
        let n: String = rest.chars().take_while(|c| c.is_ascii_digit()).collect();
        ("NotFound".into(), n.parse().unwrap_or(u32::MAX))
    } else {
        ("Other".into(), 0)
    }
}

pub(crate) fn call(reg: &PortableRegistry, id: u32, seed: u64) -> Out {
    crate::util::inflight(&serde_json::json!({"ids": [id], "seeds": [seed]}));
    match std::panic::catch_unwind(std::panic::AssertUnwindSafe(|| scale_value_from_seed(id, reg, seed))) {
        Ok(Ok(v)) => Out::Ok(v),
        Ok(Err(e)) => {
            let m = e.to_string();
            let (k, n) = classify(&m);
            Out::Err(k, n, m)
        }
        Err(_) => Out::Panic,
    }
}

/// the real round trip of scale-value: encode against the same id, decode consuming all input, equal value
pub(crate) fn roundtrip(reg: &PortableRegistry, id: u32, v: &Value<()>) -> (bool, String) {
    let r = std::panic::catch_unwind(std::panic::AssertUnwindSafe(|| {
        let mut buf: Vec<u8> = vec![];
        if let Err(e) = scale_value::scale::encode_as_type(v, id, reg, &mut buf) {
            return (false, format!("encode: {e}"));
        }
        let mut cur: &[u8] = &buf[..];
        match scale_value::scale::decode_as_type(&mut cur, id, reg) {
            Err(e) => (false, format!("decode: {e}")),
            Ok(d) => {
                if !cur.is_empty() {
                    (false, format!("decode left {} of {} bytes unread", cur.len(), buf.len()))
                } else if d.remove_context() != *v {
                    (false, "decoded value differs from the example".to_string())
                } else {
                    (true, String::new())
                }
            }
        }
    }));
    r.unwrap_or((false, "panic in encode/decode".into()))
}

pub struct Obs {
    pub id: u32,
    pub out: Out,
    pub det: bool,
    pub rt: bool,
    pub rt_err: String,
}

fn observe(reg: &PortableRegistry, id: u32, seed: u64) -> Obs {
    let out = call(reg, id, seed);
    let again = call(reg, id, seed);
    let det = out == again;
    let (rt, rt_err) = match &out {
        Out::Ok(v) => roundtrip(reg, id, v),
        _ => (true, String::new()),
    };
    Obs { id, out, det, rt, rt_err }
}

impl Obs {
    fn coq(&self) -> String {
        let o = match &self.out {
            Out::Ok(v) => format!("(OOk {})", coq_value(v)),
            Out::Err(k, n, _) => format!("(OErr {} {})", cstr(k), cn(*n as u128)),
            Out::Panic => "OPanic".to_string(),
        };
        format!("(mk_obs {} {} {} {})", cn(self.id as u128), o, cbool(self.det), cbool(self.rt))
    }
    fn json(&self) -> J {
        let o = match &self.out {
            Out::Ok(v) => json!({"ok": std::panic::catch_unwind(std::panic::AssertUnwindSafe(|| v.to_string())).unwrap_or_else(|_| format!("{:?}", v))}),
            Out::Err(k, n, m) => json!({"err": k, "id": n, "msg": m.chars().take(200).collect::<String>()}),
            Out::Panic => json!("panic"),
        };
        json!({"id": self.id, "out": o, "deterministic": self.det, "roundtrip_ok": self.rt, "roundtrip_err": self.rt_err})
    }
}

// ---------------------------------------------------------------------------
// How many words does a run consume?  (Only used to size the word list handed to the model: a
// wrong answer makes the model report XOutOfWords, i.e. a loud corr_value failure, never a pass.)

struct Sim<'a> {
    reg: &'a PortableRegistry,
    words: &'a [u32],
    pos: usize,
    inprog: HashSet<u32>,
    short: bool,
    steps: usize,
}

impl<'a> Sim<'a> {
    fn next(&mut self) -> Result<u32, ()> {
        if self.pos >= self.words.len() {
            self.short = true;
            return Err(());
        }
        self.pos += 1;
        Ok(self.words[self.pos - 1])
    }
    fn skip(&mut self, n: usize) -> Result<(), ()> {
        for _ in 0..n {
            self.next()?;
        }
        Ok(())
    }
    fn index(&mut self, n: u32) -> Result<u32, ()> {
        let zone = (n << n.leading_zeros()).wrapping_sub(1);
        loop {
            let m = self.next()? as u64 * n as u64;
            if (m as u32) <= zone {
                return Ok((m >> 32) as u32);
            }
        }
    }
    fn fields(&mut self, fs: &[(bool, u32)]) -> Result<(), ()> {
        let named = fs.iter().all(|f| f.0);
        let unnamed = fs.iter().all(|f| !f.0);
        if !named && !unnamed {
            return Err(());
        }
        for f in fs {
            self.resolve(f.1)?;
        }
        Ok(())
    }
    fn resolve(&mut self, id: u32) -> Result<(), ()> {
        self.steps += 1;
        if self.steps > 400_000 {
            self.short = false;
            return Err(());
        }
        let ty = self.reg.resolve(id).ok_or(())?;
        if self.inprog.contains(&id) {
            return Err(());
        }
        self.inprog.insert(id);
        match &ty.type_def {
            TypeDef::Composite(c) => {
                let fs: Vec<_> = c.fields.iter().map(|f| (f.name.is_some(), f.ty.id)).collect();
                self.fields(&fs)?
            }
            TypeDef::Variant(v) => {
                if v.variants.is_empty() {
                    return Err(());
                }
                let i = self.index(v.variants.len() as u32)? as usize;
                let fs: Vec<_> = v.variants[i].fields.iter().map(|f| (f.name.is_some(), f.ty.id)).collect();
                self.fields(&fs)?
            }
            TypeDef::Sequence(s) => {
                self.resolve(s.type_param.id)?;
                self.resolve(s.type_param.id)?
            }
            TypeDef::Array(a) => {
                for _ in 0..a.len {
                    self.resolve(a.type_param.id)?;
                }
            }
            TypeDef::Tuple(t) => {
                for f in &t.fields {
                    self.resolve(f.id)?;
                }
            }
            TypeDef::Primitive(p) => match p {
                TypeDefPrimitive::Char => {
                    self.index(7)?;
                }
                TypeDefPrimitive::Str => {
                    self.index(4)?;
                }
                TypeDefPrimitive::U64 | TypeDefPrimitive::I64 => self.skip(2)?,
                TypeDefPrimitive::U128 | TypeDefPrimitive::I128 => self.skip(4)?,
                TypeDefPrimitive::U256 | TypeDefPrimitive::I256 => self.skip(32)?,
                _ => self.skip(1)?,
            },
            TypeDef::Compact(c) => self.resolve(c.type_param.id)?,
            TypeDef::BitSequence(_) => {
                let n = 3 + self.index(4)?;
                self.skip(n as usize)?
            }
        }
        self.inprog.remove(&id);
        Ok(())
    }
}

/// size of the tree unfolding from `id` along fields of all variants / elements / compact inner,
/// cut at ids already on the path, capped
fn unfold_size(reg: &PortableRegistry, id: u32, path: &mut Vec<u32>, budget: &mut isize) {
    *budget -= 1;
    if *budget <= 0 || path.contains(&id) {
        return;
    }
    let Some(ty) = reg.resolve(id) else { return };
    let kids: Vec<u32> = match &ty.type_def {
        TypeDef::Composite(c) => c.fields.iter().map(|f| f.ty.id).collect(),
        TypeDef::Variant(v) => v.variants.iter().flat_map(|v| v.fields.iter().map(|f| f.ty.id)).collect(),
        TypeDef::Sequence(s) => vec![s.type_param.id],
        TypeDef::Array(a) => vec![a.type_param.id],
        TypeDef::Tuple(t) => t.fields.iter().map(|f| f.id).collect(),
        TypeDef::Compact(c) => vec![c.type_param.id],
        _ => vec![],
    };
    path.push(id);
    for k in kids {
        unfold_size(reg, k, path, budget);
        if *budget <= 0 {
            break;
        }
    }
    path.pop();
}

/// number of words the run on (id, seed) consumes; None = too large a traversal (case skipped)
pub(crate) fn words_needed(reg: &PortableRegistry, id: u32, seed: u64) -> Option<usize> {
    let mut k = 256usize;
    loop {
        let ws = rngwords::words(seed, k);
        let mut s = Sim { reg, words: &ws, pos: 0, inprog: HashSet::new(), short: false, steps: 0 };
        let _ = s.resolve(id);
        if s.steps > 400_000 {
            return None;
        }
        if !s.short {
            return Some(s.pos);
        }
        k *= 4;
        if k > (1 << 22) {
            return None;
        }
    }
}

// ---------------------------------------------------------------------------
// hand-built registries

fn entry(id: usize, path: &[&str], def: J) -> J {
    json!({"id": id, "type": {"path": path, "params": [], "def": def, "docs": []}})
}
fn prim(p: &str) -> J {
    json!({"primitive": p})
}
fn nf(name: &str, ty: usize) -> J {
    json!({"name": name, "type": ty, "docs": []})
}
fn uf(ty: usize) -> J {
    json!({"type": ty, "docs": []})
}
fn comp(fs: Vec<J>) -> J {
    json!({"composite": {"fields": fs}})
}
fn var(name: &str, index: usize, fs: Vec<J>) -> J {
    json!({"name": name, "index": index, "fields": fs, "docs": []})
}
fn variants(vs: Vec<J>) -> J {
    json!({"variant": {"variants": vs}})
}

struct B(Vec<J>);
impl B {
    fn add(&mut self, path: &[&str], def: J) -> usize {
        let id = self.0.len();
        self.0.push(entry(id, path, def));
        id
    }
    fn reg(self) -> J {
        json!({"types": self.0})
    }
}

/// every type-def arm and every primitive width in one acyclic registry
fn arms_registry() -> J {
    let mut b = B(vec![]);
    let mut p = BTreeMap::new();
    for n in ["bool", "char", "str", "u8", "u16", "u32", "u64", "u128", "u256", "i8", "i16", "i32", "i64", "i128", "i256"] {
        p.insert(n, b.add(&[], prim(n)));
    }
    // compact of every unsigned width
    for n in ["u8", "u16", "u32", "u64", "u128"] {
        b.add(&[], json!({"compact": {"type": p[n]}}));
    }
    // single-field wrappers and compacts of them
    let w_named = b.add(&["w", "Named"], comp(vec![nf("inner", p["u32"])]));
    let w_unnamed = b.add(&["w", "Unnamed"], comp(vec![uf(p["u64"])]));
    let w_tuple = b.add(&[], json!({"tuple": [p["u16"]]}));
    let w_nested = b.add(&["w", "Nested"], comp(vec![uf(w_named)]));
    for w in [w_named, w_unnamed, w_tuple, w_nested] {
        b.add(&[], json!({"compact": {"type": w}}));
    }
    // bit sequences: 4 stores x 2 orders
    let lsb = b.add(&["bitvec", "order", "Lsb0"], comp(vec![]));
    let msb = b.add(&["bitvec", "order", "Msb0"], comp(vec![]));
    for s in ["u8", "u16", "u32", "u64"] {
        for o in [lsb, msb] {
            b.add(&[], json!({"bitsequence": {"bit_store_type": p[s], "bit_order_type": o}}));
        }
    }
    // sequences, arrays, tuples
    let seq_u8 = b.add(&[], json!({"sequence": {"type": p["u8"]}}));
    b.add(&[], json!({"sequence": {"type": seq_u8}}));
    b.add(&[], json!({"sequence": {"type": p["char"]}}));
    b.add(&[], json!({"array": {"len": 0, "type": p["u8"]}}));
    b.add(&[], json!({"array": {"len": 1, "type": p["i16"]}}));
    let arr4 = b.add(&[], json!({"array": {"len": 4, "type": p["u8"]}}));
    b.add(&[], json!({"array": {"len": 3, "type": arr4}}));
    b.add(&[], json!({"array": {"len": 40, "type": p["bool"]}}));
    b.add(&[], json!({"array": {"len": 32, "type": p["u8"]}}));
    b.add(&[], json!({"array": {"len": 5, "type": p["u256"]}}));
    let unit = b.add(&[], json!({"tuple": []}));
    b.add(&[], json!({"tuple": [p["u8"], p["str"], unit]}));
    b.add(&[], json!({"tuple": [p["i128"], p["u128"], p["i256"], p["i64"], p["u64"]]}));
    // composites
    b.add(&["s", "Unit"], comp(vec![]));
    let pt = b.add(&["s", "Point"], comp(vec![nf("x", p["i32"]), nf("y", p["i32"])]));
    b.add(&["s", "Pair"], comp(vec![uf(p["u8"]), uf(pt)]));
    // enums
    b.add(&["e", "One"], variants(vec![var("Only", 0, vec![])]));
    let color = b.add(
        &["e", "Color"],
        variants(vec![var("Black", 0, vec![]), var("White", 1, vec![]), var("Green", 7, vec![uf(p["i32"])])]),
    );
    b.add(
        &["e", "Shape"],
        variants(vec![
            var("Dot", 0, vec![]),
            var("Line", 1, vec![nf("from", pt), nf("to", pt)]),
            var("Tagged", 2, vec![uf(color), uf(p["str"])]),
            var("Wide", 3, vec![uf(p["u128"])]),
            var("Flag", 4, vec![nf("on", p["bool"])]),
        ]),
    );
    b.add(&["Option"], variants(vec![var("None", 0, vec![]), var("Some", 1, vec![uf(p["u32"])])]));
    b.add(&["Result"], variants(vec![var("Ok", 0, vec![uf(p["u8"])]), var("Err", 1, vec![uf(p["str"])])]));
    // an enum with 9 variants (choose with a range that is not a power of two)
    b.add(&["e", "Nine"], variants((0..9).map(|i| var(&format!("V{i}"), i, vec![])).collect()));
    b.reg()
}

/// registries with cycles, empty enums, mixed fields, dangling ids
fn fault_registries() -> Vec<(&'static str, J)> {
    let mut out = vec![];
    // self cycle through a field (Box is transparent in the registry)
    out.push(("cycle_self", json!({"types": [entry(0, &["a", "Human"], comp(vec![nf("name", 1), nf("mom", 0), nf("dad", 0)])), entry(1, &[], prim("str"))]})));
    // mutual cycle
    out.push(("cycle_mutual", json!({"types": [
        entry(0, &["a", "A"], comp(vec![nf("b", 1)])), entry(1, &["a", "B"], comp(vec![uf(2), uf(0)])), entry(2, &[], prim("u8"))]})));
    // cycle through a sequence, an Option, a tuple, an array, a compact
    out.push(("cycle_seq", json!({"types": [
        entry(0, &["a", "Tree"], comp(vec![nf("children", 1), nf("v", 2)])), entry(1, &[], json!({"sequence": {"type": 0}})), entry(2, &[], prim("u16"))]})));
    out.push(("cycle_option", json!({"types": [
        entry(0, &["a", "Node"], comp(vec![nf("v", 2), nf("next", 1)])),
        entry(1, &["Option"], variants(vec![var("None", 0, vec![]), var("Some", 1, vec![uf(0)])])),
        entry(2, &[], prim("u8"))]})));
    out.push(("cycle_list_enum", json!({"types": [
        entry(0, &["a", "List"], variants(vec![var("Nil", 0, vec![]), var("Cons", 1, vec![uf(1), uf(0)])])),
        entry(1, &[], prim("char"))]})));
    out.push(("cycle_tuple_array", json!({"types": [
        entry(0, &["a", "T"], comp(vec![uf(1)])), entry(1, &[], json!({"tuple": [2, 3]})),
        entry(2, &[], prim("bool")), entry(3, &[], json!({"array": {"len": 2, "type": 0}}))]})));
    // array of length 0 over the enclosing type: the element is never visited
    out.push(("cycle_array0", json!({"types": [
        entry(0, &["a", "Z"], comp(vec![nf("none", 1), nf("k", 2)])), entry(1, &[], json!({"array": {"len": 0, "type": 0}})),
        entry(2, &[], prim("i8"))]})));
    out.push(("cycle_compact", json!({"types": [
        entry(0, &["a", "C"], comp(vec![uf(1)])), entry(1, &[], json!({"compact": {"type": 0}}))]})));
    out.push(("cycle_compact_self", json!({"types": [entry(0, &[], json!({"compact": {"type": 0}})), entry(1, &[], json!({"sequence": {"type": 1}}))]})));
    // a diamond (same id twice, no cycle): the Computed entry is hit and recomputed
    out.push(("diamond", json!({"types": [
        entry(0, &["a", "D"], comp(vec![nf("l", 1), nf("r", 1), nf("s", 2)])),
        entry(1, &["a", "Leaf"], comp(vec![uf(3), uf(3)])), entry(2, &[], json!({"sequence": {"type": 1}})), entry(3, &[], prim("u64"))]})));
    // empty enums
    out.push(("empty_enum", json!({"types": [
        entry(0, &["a", "Void"], variants(vec![])),
        entry(1, &["a", "HasVoid"], comp(vec![nf("x", 2), nf("v", 0)])),
        entry(2, &[], prim("u8")),
        entry(3, &["Option"], variants(vec![var("None", 0, vec![]), var("Some", 1, vec![uf(0)])])),
        entry(4, &[], json!({"array": {"len": 0, "type": 0}})),
        entry(5, &[], json!({"sequence": {"type": 3}}))]})));
    // mixed fields
    out.push(("mixed", json!({"types": [
        entry(0, &["a", "Mixed"], comp(vec![nf("x", 2), uf(2)])),
        entry(1, &["a", "E"], variants(vec![var("Good", 0, vec![uf(2)]), var("Bad", 1, vec![uf(2), nf("y", 2)])])),
        entry(2, &[], prim("u8")),
        entry(3, &[], json!({"tuple": [2, 0]})),
        entry(4, &["a", "Mixed2"], comp(vec![uf(2), nf("x", 0)]))]})));
    // dangling ids (outside the property's class: only the outcome class is compared)
    out.push(("dangling", json!({"types": [
        entry(0, &["a", "Dangling"], comp(vec![nf("x", 1), nf("y", 9)])), entry(1, &[], prim("u8")),
        entry(2, &[], json!({"sequence": {"type": 7}})), entry(3, &[], json!({"compact": {"type": 44}}))]})));
    out
}

/// random closed type graphs: lots of cycles, empty enums and mixed field lists
fn soup(rng: &mut Rng) -> J {
    let n = rng.range(1, 9);
    let prims = ["bool", "char", "str", "u8", "u16", "u32", "u64", "u128", "u256", "i8", "i16", "i32", "i64", "i128", "i256"];
    let fnames = ["x", "y", "z", "w"];
    let mut types = vec![];
    for id in 0..n {
        let any = |rng: &mut Rng| rng.below(n);
        // bias references towards larger ids so that many graphs are acyclic
        let fwd = |rng: &mut Rng| if rng.chance(3, 4) && id + 1 < n { rng.range(id + 1, n - 1) } else { rng.below(n) };
        let fields = |rng: &mut Rng| -> Vec<J> {
            let k = rng.below(4);
            let style = rng.below(8); // 0..=3 named, 4..=6 unnamed, 7 mixed
            (0..k)
                .map(|i| {
                    let t = fwd(rng);
                    let named = match style { 0..=3 => true, 4..=6 => false, _ => rng.chance(1, 2) };
                    if named { nf(fnames[i], t) } else { uf(t) }
                })
                .collect()
        };
        let last = id + 1 == n;
        let def = match if last { 5 } else { rng.below(12) } {
            0 | 1 => comp(fields(rng)),
            2 | 3 => {
                let nv = if rng.chance(1, 8) { 0 } else { rng.range(1, 4) };
                variants((0..nv).map(|i| var(&format!("V{i}"), i, fields(rng))).collect())
            }
            4 => json!({"sequence": {"type": fwd(rng)}}),
            5 | 6 | 7 => prim(*rng.pick(&prims)),
            8 => json!({"array": {"len": rng.below(5), "type": fwd(rng)}}),
            9 => json!({"tuple": (0..rng.below(4)).map(|_| fwd(rng)).collect::<Vec<_>>()}),
            10 => json!({"compact": {"type": fwd(rng)}}),
            _ => json!({"bitsequence": {"bit_store_type": any(rng), "bit_order_type": any(rng)}}),
        };
        let path: Vec<&str> = if matches!(def.as_object().unwrap().keys().next().unwrap().as_str(), "composite" | "variant") {
            vec!["m", "T"]
        } else {
            vec![]
        };
        types.push(entry(id, &path, def));
    }
    json!({"types": types})
}

fn strip_docs(v: &mut J) {
    match v {
        J::Object(m) => {
            if let Some(d) = m.get_mut("docs") {
                *d = json!([]);
            }
            for (_, x) in m.iter_mut() {
                strip_docs(x);
            }
        }
        J::Array(a) => a.iter_mut().for_each(strip_docs),
        _ => {}
    }
}

// ---------------------------------------------------------------------------

struct Gen<'a> {
    shards: Shards,
    meta: Meta,
    seen: HashSet<String>,
    nontrivial: usize,
    outcome_hist: BTreeMap<String, usize>,
    rt_fail_char: usize,
    rt_fail_other: Vec<J>,
    rt_err_hist: BTreeMap<String, usize>,
    skipped_large: usize,
    max_words: usize,
    nobs: usize,
    _p: std::marker::PhantomData<&'a ()>,
}

impl<'a> Gen<'a> {
    /// one case per chunk of ids; every chunk carries all seeds
    fn push_registry(&mut self, stream: &str, name: &str, rj: &J, ids: &[u32], seeds: &[u64], chunk: usize, print_registry_json: bool) {
        let reg = reggen::to_registry(rj);
        crate::util::inflight_ctx(&serde_json::json!({"registry": rj}));
        let rcoq = regprint::registry(&reg);
        for ch in ids.chunks(chunk.max(1)) {
            let mut budget: isize = 3000;
            for &id in ch {
                unfold_size(&reg, id, &mut vec![], &mut budget);
            }
            let small = budget > 0;
            let mut runs_coq = vec![];
            let mut runs_json = vec![];
            for &seed in seeds {
                let mut need = 0usize;
                let mut obs = vec![];
                for &id in ch {
                    match words_needed(&reg, id, seed) {
                        None => {
                            self.skipped_large += 1;
                            continue;
                        }
                        Some(k) => need = need.max(k),
                    }
                    let o = observe(&reg, id, seed);
                    let kind = match &o.out {
                        Out::Ok(_) => "Ok".to_string(),
                        Out::Err(k, _, _) => format!("Err:{k}"),
                        Out::Panic => "Panic".to_string(),
                    };
                    *self.outcome_hist.entry(kind).or_insert(0) += 1;
                    if !o.rt {
                        let norm: String = o.rt_err.chars().map(|c| if c.is_ascii_digit() { '#' } else { c }).take(90).collect();
                        *self.rt_err_hist.entry(norm).or_insert(0) += 1;
                        let is_char = matches!(&o.out, Out::Ok(v) if has_char(v));
                        if is_char {
                            self.rt_fail_char += 1;
                        } else if self.rt_fail_other.len() < 5 {
                            self.rt_fail_other.push(json!({"registry": name, "id": id, "seed": seed, "error": o.rt_err}));
                        }
                    }
                    let bare_prim = matches!(reg.resolve(id).map(|t| &t.type_def), Some(TypeDef::Primitive(_)));
                    if self.seen.insert(format!("{}|{}|{}", rcoq.len(), id, seed)) && !bare_prim {
                        self.nontrivial += 1;
                    }
                    self.nobs += 1;
                    self.meta.count(stream);
                    if self.meta.samples.len() < 5 && (self.nobs % 211 == 7) {
                        self.meta.samples.push(json!({"stream": stream, "registry": name, "seed": seed, "obs": o.json()}));
                    }
                    obs.push(o);
                }
                if obs.is_empty() {
                    continue;
                }
                self.max_words = self.max_words.max(need);
                let ws = rngwords::words(seed, need);
                runs_coq.push(format!(
                    "(mk_run {} {} {})",
                    cn(seed as u128),
                    rngwords::coq_words(&ws),
                    clist(obs.iter().map(|o| o.coq()))
                ));
                runs_json.push(json!({"seed": seed, "nwords": need, "obs": obs.iter().map(|o| o.json()).collect::<Vec<_>>()}));
            }
            if runs_coq.is_empty() {
                continue;
            }
            let term = format!("(CReg {} {} {})", rcoq, cbool(small), clist(runs_coq));
            let mut j = json!({"stream": stream, "name": name, "ids": ch, "seeds": seeds, "runs": runs_json});
            if print_registry_json {
                j["registry"] = rj.clone();
            }
            j["input"] = json!({"registry": if print_registry_json { rj.clone() } else { json!(name) }, "ids": ch, "seeds": seeds});
            self.shards.push(term, j);
        }
    }

    fn push_probe(&mut self, rng: &mut Rng, seed: u64, nops: usize) {
        let p = rngwords::probe(rng, seed, nops);
        let term = format!(
            "(CProbe {} {} {} {})",
            cn(seed as u128),
            rngwords::coq_words(&p.words),
            clist(p.ops.iter().map(|o| o.coq())),
            p.results_coq
        );
        let j = json!({"stream": "rng_probe", "seed": seed, "ops": p.ops.iter().map(|o| format!("{:?}", o)).collect::<Vec<_>>(),
                       "results": p.results_json, "nwords": p.words.len(),
                       "input": {"probe_seed": seed}});
        self.nobs += nops;
        for _ in 0..nops {
            self.meta.count("rng_probe_ops");
        }
        self.shards.push(term, j);
    }
}

fn seeds(rng: &mut Rng, n: usize) -> Vec<u64> {
    let fixed = [42u64, 0, 1, 2, 3, 20, 30, u64::MAX];
    let mut v = vec![];
    for i in 0..n {
        if i == 0 {
            v.push(*rng.pick(&fixed));
        } else {
            v.push(rng.next_u64() >> rng.below(64));
        }
    }
    v.dedup();
    v
}

pub fn generate(tier: &str, seed: u64, out: &Path, nshards: usize, replay: Option<&Path>) -> Meta {
    let mut rng = Rng::new(seed ^ 0xC12);
    let thorough = tier == "thorough";
    let mut g = Gen {
        shards: Shards::new(out, nshards, HEADER, "case", &EVALS),
        meta: Meta::new("C12"),
        seen: HashSet::new(),
        nontrivial: 0,
        outcome_hist: BTreeMap::new(),
        rt_fail_char: 0,
        rt_fail_other: vec![],
        rt_err_hist: BTreeMap::new(),
        skipped_large: 0,
        max_words: 0,
        nobs: 0,
        _p: std::marker::PhantomData,
    };

    let from_file = |g: &mut Gen, stream: &str, p: &Path| {
        let v: J = serde_json::from_str(&std::fs::read_to_string(p).unwrap()).unwrap();
        let c = if v.get("case").is_some() { &v["case"] } else { &v };
        let inp = if c.get("input").is_some() { &c["input"] } else { c };
        if let Some(ps) = inp.get("probe_seed").and_then(|x| x.as_u64()) {
            let mut r = Rng::new(ps);
            g.push_probe(&mut r, ps, 40);
            return;
        }
        let ids: Vec<u32> = inp["ids"].as_array().map(|a| a.iter().map(|x| x.as_u64().unwrap() as u32).collect()).unwrap_or_default();
        let sds: Vec<u64> = inp["seeds"].as_array().map(|a| a.iter().map(|x| x.as_u64().unwrap()).collect()).unwrap_or_default();
        let name = p.file_name().unwrap().to_string_lossy().to_string();
        if inp["registry"].is_string() && inp["registry"].as_str() == Some("polkadot") {
            let mut pj = serde_json::to_value(polkadot_registry()).unwrap();
            strip_docs(&mut pj);
            g.push_registry(stream, "polkadot", &pj, &ids, &sds, 64, false);
        } else if inp["registry"].is_object() {
            g.push_registry(stream, &name, &inp["registry"], &ids, &sds, 16, true);
        }
    };

    if let Some(p) = replay {
        from_file(&mut g, "replay", p);
    } else {
        // corpus first
        let dir = verif_dir().join("corpus").join("C12");
        if let Ok(rd) = std::fs::read_dir(dir) {
            let mut ps: Vec<_> = rd.filter_map(|e| e.ok()).map(|e| e.path()).collect();
            ps.sort();
            for p in ps {
                if p.extension().map(|e| e == "json").unwrap_or(false) {
                    from_file(&mut g, "corpus", &p);
                }
            }
        }
        let scale = if thorough { 8 } else { 1 };
        // 1. the sampling code of rand against the word stream
        for _ in 0..(48 * scale) {
            let s = rng.next_u64() >> rng.below(64);
            g.push_probe(&mut rng, s, 40);
        }
        // 2. every arm, every width
        let arms = arms_registry();
        let n = arms["types"].as_array().unwrap().len() as u32;
        let ids: Vec<u32> = (0..n).chain([n, n + 7, u32::MAX]).collect();
        let sd = seeds(&mut rng, if thorough { 12 } else { 4 });
        g.push_registry("arms", "arms", &arms, &ids, &sd, 8, true);
        // 3. cycles, empty enums, mixed fields, dangling ids
        for (name, rj) in fault_registries() {
            let n = rj["types"].as_array().unwrap().len() as u32;
            let ids: Vec<u32> = (0..=n).collect();
            let sd = seeds(&mut rng, if thorough { 16 } else { 6 });
            g.push_registry("faults", name, &rj, &ids, &sd, 8, true);
        }
        // 4. registries of random programs
        for k in 0..(90 * scale) {
            let cfg = GenCfg { max_defs: if thorough { 8 } else { 6 }, docs: false, ..Default::default() };
            let p = reggen::rand_program(&mut rng, &cfg);
            let (rj, _roots) = reggen::build(&p);
            let n = rj["types"].as_array().unwrap().len() as u32;
            let ids: Vec<u32> = (0..n).collect();
            let sd = seeds(&mut rng, 3);
            g.push_registry("program", &format!("program{k}"), &rj, &ids, &sd, 12, true);
        }
        // 5. random type graphs
        for k in 0..(160 * scale) {
            let rj = soup(&mut rng);
            let n = rj["types"].as_array().unwrap().len() as u32;
            let ids: Vec<u32> = (0..n).collect();
            let sd = seeds(&mut rng, 3);
            g.push_registry("soup", &format!("soup{k}"), &rj, &ids, &sd, 12, true);
        }
        // 6. Polkadot
        let mut pj = serde_json::to_value(polkadot_registry()).unwrap();
        strip_docs(&mut pj);
        let n = pj["types"].as_array().unwrap().len() as u32;
        let ids: Vec<u32> = if thorough { (0..n).collect() } else { (0..128).map(|_| rng.below(n as usize) as u32).collect() };
        let sd = seeds(&mut rng, if thorough { 4 } else { 2 });
        g.push_registry("polkadot", "polkadot", &pj, &ids, &sd, if thorough { 58 } else { 8 }, false);
    }

    // F10 re-verification on the real crates: does ANY candidate value encode into a `char` type?
    let char_reg = reggen::to_registry(&json!({"types": [entry(0, &[], prim("char"))]}));
    let candidates: Vec<(&str, Value<()>)> = vec![
        ("Char('a')", Value::char('a')),
        ("U128(97)", Value::u128(97)),
        ("I128(97)", Value::i128(97)),
        ("String(\"a\")", Value::string("a")),
        ("Unnamed[Char('a')]", Value::unnamed_composite([Value::char('a')])),
        ("Unnamed[U128(97)]", Value::unnamed_composite([Value::u128(97)])),
        ("Bool(true)", Value::bool(true)),
    ];
    let mut f10 = serde_json::Map::new();
    let mut any = false;
    for (n, v) in &candidates {
        let mut buf = vec![];
        match scale_value::scale::encode_as_type(v, 0u32, &char_reg, &mut buf) {
            Ok(()) => {
                any = true;
                f10.insert(n.to_string(), json!("encodes"));
            }
            Err(e) => {
                f10.insert(n.to_string(), json!(e.to_string()));
            }
        }
    }
    f10.insert("any_value_encodes_into_char".into(), json!(any));

    g.meta.evaluations = g.nobs;
    g.meta.distinct_nontrivial = g.nontrivial;
    g.meta.rule = "evaluation = one (registry, type id, seed) observation of scale_value_from_seed (outcome, in-process repeat, real encode/decode round trip) or one scripted draw on the real ChaCha8Rng; streams: corpus, rng_probe_ops, arms (every type-def arm and primitive width), faults (cycles, empty enums, mixed fields, dangling ids), program (reggen programs), soup (random closed type graphs), polkadot; non-trivial = distinct (registry, id, seed) whose type is not a bare primitive".into();
    g.meta.extra = json!({
        "cases": g.shards.len(),
        "outcomes": g.outcome_hist,
        "roundtrip_failures_with_char": g.rt_fail_char,
        "roundtrip_failures_without_char": g.rt_fail_other,
        "roundtrip_error_histogram": g.rt_err_hist,
        "skipped_too_large": g.skipped_large,
        "F10_probe_char_target": f10,
        "max_words_per_run": g.max_words,
    });
    g.shards.finish();
    g.meta
}
