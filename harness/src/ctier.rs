//! Compile tier (DESIGN.md 5.4): what rustc and parity-scale-codec's derive do with the emitted items.
//!
//!   vharness compile-tier <seed> <outdir> [--parts a|ab|ac|abc] [--polkadot] [--scratch dir] [--keep]
//!
//! (a) every generated module compiles under rustc with `Encode`/`Decode` derives configured (C02);
//! (b) every byte string obtained from the crate's own `scale_value` examples through `encode_as_type`
//!     decodes with the generated type named by `resolve_type_path(id)`, consumes all input and
//!     re-encodes to the same bytes (C01);
//! (c) the standalone struct built through `create_composite_ir_kind` + `CompositeIR::new` +
//!     `upcast_composite` from a variant's (or struct's) field list, compiled next to the generated
//!     module, is constructible from the variant's own fields (same field names and types) and
//!     encodes to the variant's payload = the enum's encoding minus the index byte (C18).
//!
//! A cargo project is written into a scratch directory (outside /repo and /verif), built offline and
//! run; the scratch directory and its build output are removed afterwards, on every path.
use crate::reggen::{self, Body, Def, FieldDef, GenCfg, Program, Src};
use crate::rng::Rng;
use crate::sets::{self, OpSpec, SettingsSpec};
use proc_macro2::{Delimiter, Spacing, TokenStream, TokenTree};
use scale_info::form::PortableForm;
use scale_info::{PortableRegistry, TypeDef};
use scale_typegen::typegen::ir::ToTokensWithSettings;
use scale_typegen::TypeGenerator;
use scale_typegen_description::scale_value_from_seed;
use serde_json::{json, Value};
use std::collections::{BTreeMap, BTreeSet};
use std::fmt::Write as _;
use std::path::{Path, PathBuf};
use std::time::Instant;

// ---------------------------------------------------------------------------
// token printing (one item / field per line so that rustc diagnostics stay readable)

pub fn print_tokens(ts: TokenStream, out: &mut String) {
    let mut prev_joint = false;
    let mut prev_hash = false;
    for t in ts {
        match t {
            TokenTree::Group(g) => {
                let (o, c) = match g.delimiter() {
                    Delimiter::Parenthesis => ("(", ")"),
                    Delimiter::Brace => ("{", "}"),
                    Delimiter::Bracket => ("[", "]"),
                    Delimiter::None => ("", ""),
                };
                if !prev_joint {
                    out.push(' ');
                }
                out.push_str(o);
                if o == "{" {
                    out.push('\n');
                }
                print_tokens(g.stream(), out);
                out.push(' ');
                out.push_str(c);
                if o == "{" || (o == "[" && prev_hash) {
                    out.push('\n');
                }
                prev_joint = false;
                prev_hash = false;
            }
            TokenTree::Punct(p) => {
                if !prev_joint {
                    out.push(' ');
                }
                out.push(p.as_char());
                prev_joint = p.spacing() == Spacing::Joint;
                prev_hash = p.as_char() == '#';
                if p.as_char() == ';' {
                    out.push('\n');
                }
            }
            TokenTree::Ident(i) => {
                if !prev_joint {
                    out.push(' ');
                }
                let _ = write!(out, "{}", i);
                prev_joint = false;
                prev_hash = false;
            }
            TokenTree::Literal(l) => {
                if !prev_joint {
                    out.push(' ');
                }
                let _ = write!(out, "{}", l);
                prev_joint = false;
                prev_hash = false;
            }
        }
    }
}

fn tokens_to_src(ts: TokenStream) -> String {
    let mut s = String::new();
    print_tokens(ts, &mut s);
    s
}

// ---------------------------------------------------------------------------
// program normalisation: the source program must be valid Rust with codec derives

/// parity-scale-codec has no `Encode`/`Decode` for `char` (and scale-value cannot encode one, F10):
/// a source program deriving the codec traits cannot contain it.  `i16` is used by neither the
/// definition bodies nor the instantiation arguments of `reggen`, so coincidence-freeness is kept.
fn dechar(s: &Src) -> Src {
    let b = |x: &Src| Box::new(dechar(x));
    match s {
        Src::Prim("char") => Src::Prim("i16"),
        Src::Prim(p) => Src::Prim(p),
        Src::Param(i) => Src::Param(*i),
        Src::App(d, a) => Src::App(*d, a.iter().map(dechar).collect()),
        Src::Vec(a) => Src::Vec(b(a)),
        Src::VecDeque(a) => Src::VecDeque(b(a)),
        Src::Array(n, a) => Src::Array(*n, b(a)),
        Src::Tuple(a) => Src::Tuple(a.iter().map(dechar).collect()),
        Src::Compact(a) => Src::Compact(b(a)),
        Src::BoxT(a) => Src::BoxT(b(a)),
        Src::Opt(a) => Src::Opt(b(a)),
        Src::Res(x, y) => Src::Res(b(x), b(y)),
        Src::BTreeMap(x, y) => Src::BTreeMap(b(x), b(y)),
        Src::BTreeSet(a) => Src::BTreeSet(b(a)),
        Src::Cow(a) => Src::Cow(b(a)),
        Src::Range(a) => Src::Range(b(a)),
        Src::BitVec(s, l) => Src::BitVec(s, *l),
    }
}

fn dechar_fields(fs: &[FieldDef]) -> Vec<FieldDef> {
    fs.iter().map(|f| FieldDef { ty: dechar(&f.ty), ..f.clone() }).collect()
}

pub fn dechar_program(p: &Program) -> Program {
    Program {
        defs: p
            .defs
            .iter()
            .map(|d| Def {
                body: match &d.body {
                    Body::Struct(fs) => Body::Struct(dechar_fields(fs)),
                    Body::Enum(vs) => Body::Enum(
                        vs.iter().map(|(n, i, fs, docs)| (n.clone(), *i, dechar_fields(fs), docs.clone())).collect(),
                    ),
                },
                ..d.clone()
            })
            .collect(),
        roots: p.roots.iter().map(dechar).collect(),
    }
}

/// all strict and non-strict subterms of a source type
pub(crate) fn subterms<'a>(s: &'a Src, out: &mut Vec<&'a Src>) {
    out.push(s);
    match s {
        Src::App(_, a) | Src::Tuple(a) => a.iter().for_each(|x| subterms(x, out)),
        Src::Vec(a) | Src::VecDeque(a) | Src::Array(_, a) | Src::Compact(a) | Src::BoxT(a) | Src::Opt(a) | Src::BTreeSet(a) | Src::Cow(a) | Src::Range(a) => subterms(a, out),
        Src::Res(a, b) | Src::BTreeMap(a, b) => {
            subterms(a, out);
            subterms(b, out);
        }
        Src::Param(_) | Src::Prim(_) | Src::BitVec(..) => {}
    }
}

pub(crate) fn def_fields(d: &Def) -> Vec<&FieldDef> {
    match &d.body {
        Body::Struct(fs) => fs.iter().collect(),
        Body::Enum(vs) => vs.iter().flat_map(|v| v.2.iter()).collect(),
    }
}

/// occurrences of `Param(j)` outside every `App(me, ..)` subterm
pub(crate) fn param_outside_self(s: &Src, me: usize, j: usize) -> bool {
    match s {
        Src::Param(i) => *i == j,
        Src::App(d, _) if *d == me => false,
        Src::App(_, a) | Src::Tuple(a) => a.iter().any(|x| param_outside_self(x, me, j)),
        Src::Vec(a) | Src::VecDeque(a) | Src::Array(_, a) | Src::Compact(a) | Src::BoxT(a) | Src::Opt(a) | Src::BTreeSet(a) | Src::Cow(a) | Src::Range(a) => param_outside_self(a, me, j),
        Src::Res(a, b) | Src::BTreeMap(a, b) => param_outside_self(a, me, j) || param_outside_self(b, me, j),
        Src::Prim(_) | Src::BitVec(..) => false,
    }
}

/// rustc rejects a definition whose parameter occurs only inside references to the definition itself
/// ("type parameter is only used recursively"): such a program is not a valid source program.
pub fn param_only_recursive(p: &Program) -> bool {
    p.defs.iter().enumerate().any(|(me, d)| {
        (0..d.params.len()).any(|j| {
            let mut all = vec![];
            def_fields(d).iter().for_each(|f| subterms(&f.ty, &mut all));
            let occurs = all.iter().any(|s| matches!(s, Src::Param(i) if *i == j));
            occurs && !def_fields(d).iter().any(|f| param_outside_self(&f.ty, me, j))
        })
    })
}

fn field_in_class(f: &FieldDef) -> bool {
    if matches!(&f.ty, Src::BoxT(a) if matches!(**a, Src::Param(_))) {
        return false;
    }
    let mut all = vec![];
    subterms(&f.ty, &mut all);
    !all.iter().any(|s| matches!(s, Src::Cow(a) if matches!(**a, Src::Param(_))))
}

/// The hand-written arm corpus deliberately contains constructs outside the class of DESIGN 3.3 (a parameter
/// directly under `Box` / `Cow`, skipped parameters that are used in fields).  For the compile tier those fields
/// are dropped and such parameters are un-skipped, so that the rest of the corpus program stays usable.
pub fn sanitise(p: &Program) -> Program {
    let mut q = p.clone();
    for d in &mut q.defs {
        match &mut d.body {
            Body::Struct(fs) => fs.retain(field_in_class),
            Body::Enum(vs) => vs.iter_mut().for_each(|v| v.2.retain(field_in_class)),
        }
        let mut all = vec![];
        let fields: Vec<FieldDef> = def_fields(d).into_iter().cloned().collect();
        fields.iter().for_each(|f| subterms(&f.ty, &mut all));
        for j in 0..d.params.len() {
            if d.params[j].1 && all.iter().any(|s| matches!(s, Src::Param(i) if *i == j)) {
                d.params[j].1 = false;
            }
        }
    }
    q
}

fn shift_app(s: &Src, removed: usize) -> Src {
    let b = |x: &Src| Box::new(shift_app(x, removed));
    match s {
        Src::App(d, a) => Src::App(if *d > removed { *d - 1 } else { *d }, a.iter().map(|x| shift_app(x, removed)).collect()),
        Src::Param(i) => Src::Param(*i),
        Src::Prim(p) => Src::Prim(p),
        Src::Vec(a) => Src::Vec(b(a)),
        Src::VecDeque(a) => Src::VecDeque(b(a)),
        Src::Array(n, a) => Src::Array(*n, b(a)),
        Src::Tuple(a) => Src::Tuple(a.iter().map(|x| shift_app(x, removed)).collect()),
        Src::Compact(a) => Src::Compact(b(a)),
        Src::BoxT(a) => Src::BoxT(b(a)),
        Src::Opt(a) => Src::Opt(b(a)),
        Src::Res(x, y) => Src::Res(b(x), b(y)),
        Src::BTreeMap(x, y) => Src::BTreeMap(b(x), b(y)),
        Src::BTreeSet(a) => Src::BTreeSet(b(a)),
        Src::Cow(a) => Src::Cow(b(a)),
        Src::Range(a) => Src::Range(b(a)),
        Src::BitVec(s, l) => Src::BitVec(s, *l),
    }
}

fn mentions(s: &Src, d: usize) -> bool {
    let mut all = vec![];
    subterms(s, &mut all);
    all.iter().any(|x| matches!(x, Src::App(e, _) if *e == d))
}

/// the program without definition `idx` (which no other definition may mention) and without the roots using it
pub fn remove_def(p: &Program, idx: usize) -> Option<Program> {
    for (i, d) in p.defs.iter().enumerate() {
        if i != idx && def_fields(d).iter().any(|f| mentions(&f.ty, idx)) {
            return None;
        }
    }
    let fix = |fs: &[FieldDef]| -> Vec<FieldDef> { fs.iter().map(|f| FieldDef { ty: shift_app(&f.ty, idx), ..f.clone() }).collect() };
    let defs = p
        .defs
        .iter()
        .enumerate()
        .filter(|(i, _)| *i != idx)
        .map(|(_, d)| Def {
            body: match &d.body {
                Body::Struct(fs) => Body::Struct(fix(fs)),
                Body::Enum(vs) => Body::Enum(vs.iter().map(|(n, i, fs, docs)| (n.clone(), *i, fix(fs), docs.clone())).collect()),
            },
            ..d.clone()
        })
        .collect();
    let roots = p.roots.iter().filter(|r| !mentions(r, idx)).map(|r| shift_app(r, idx)).collect();
    Some(Program { defs, roots })
}

/// definitions with parameters that mention themselves (finding F17 when the source is valid Rust)
pub fn generic_recursive_defs(p: &Program) -> Vec<usize> {
    (0..p.defs.len()).filter(|i| !p.defs[*i].params.is_empty() && def_fields(&p.defs[*i]).iter().any(|f| mentions(&f.ty, *i))).collect()
}

fn subst_args(s: &Src, args: &[Src]) -> Src {
    let b = |x: &Src| Box::new(subst_args(x, args));
    match s {
        Src::Param(i) => args[*i].clone(),
        Src::Prim(p) => Src::Prim(p),
        Src::App(d, a) => Src::App(*d, a.iter().map(|x| subst_args(x, args)).collect()),
        Src::Vec(a) => Src::Vec(b(a)),
        Src::VecDeque(a) => Src::VecDeque(b(a)),
        Src::Array(n, a) => Src::Array(*n, b(a)),
        Src::Tuple(a) => Src::Tuple(a.iter().map(|x| subst_args(x, args)).collect()),
        Src::Compact(a) => Src::Compact(b(a)),
        Src::BoxT(a) => Src::BoxT(b(a)),
        Src::Opt(a) => Src::Opt(b(a)),
        Src::Res(x, y) => Src::Res(b(x), b(y)),
        Src::BTreeMap(x, y) => Src::BTreeMap(b(x), b(y)),
        Src::BTreeSet(a) => Src::BTreeSet(b(a)),
        Src::Cow(a) => Src::Cow(b(a)),
        Src::Range(a) => Src::Range(b(a)),
        Src::BitVec(s, l) => Src::BitVec(s, *l),
    }
}

/// Syntactic form of DESIGN 3.3 for registries built from programs: in no instantiation does the
/// type passed for a (non-skipped) parameter also occur in the body at a place that is not that parameter
/// (the generator identifies parameter uses by concrete type id; bit stores and compact inners count), the
/// arguments of one instantiation are pairwise distinct, and no parameter stands directly under a transparent
/// wrapper (a field of type `Box<T>`: the recorded name `Box<T>` is not the parameter's name; `Cow<T>` anywhere:
/// the parameter test precedes the Cow look-through) - there the kept item hard-wires the first instantiation.
pub fn coincidence_free(p: &Program) -> bool {
    for d in &p.defs {
        for f in def_fields(d) {
            if matches!(&f.ty, Src::BoxT(a) if matches!(**a, Src::Param(_))) {
                return false;
            }
            let mut all = vec![];
            subterms(&f.ty, &mut all);
            // a SKIPPED parameter used in a field leaves no trace in the registry: instantiations that differ
            // only there are same-path entries of different shape (conflated by types_equal, finding F3/F14)
            if all.iter().any(|s| matches!(s, Src::Param(j) if d.params[*j].1)) {
                return false;
            }
            if all.iter().any(|s| matches!(s, Src::Cow(a) if matches!(**a, Src::Param(_)))) {
                return false;
            }
        }
    }
    let (_, insts) = reggen::build_with_insts(p);
    for (di, args) in &insts {
        let d = &p.defs[*di];
        let argc: Vec<(usize, Src)> = (0..d.params.len()).filter(|i| !d.params[*i].1).map(|i| (i, reggen::canon(&args[i]))).collect();
        // two parameters instantiated with the same type
        for (i, a) in &argc {
            if argc.iter().any(|(j, b)| j != i && a == b) {
                return false;
            }
        }
        for f in def_fields(d) {
            let mut all = vec![];
            subterms(&f.ty, &mut all);
            for s in all {
                let closed = match s {
                    Src::Param(_) => continue,
                    Src::BitVec(st, _) => Src::Prim(st),
                    other => subst_args(other, args),
                };
                let c = reggen::canon(&closed);
                if argc.iter().any(|(_, a)| *a == c) {
                    return false;
                }
            }
            if f.compact_attr {
                // the recorded type is Compact<ty>
                let c = reggen::canon(&Src::Compact(Box::new(subst_args(&f.ty, args))));
                if argc.iter().any(|(_, a)| *a == c) {
                    return false;
                }
            }
        }
    }
    true
}

// ---------------------------------------------------------------------------
// registry analyses

type Ty = scale_info::Type<PortableForm>;

fn last_seg(t: &Ty) -> Option<&str> {
    t.path.segments.last().map(|s| s.as_str())
}

/// ids directly contained in the encoding of a type (fields / elements; NOT type parameters)
fn children(t: &Ty) -> Vec<u32> {
    match &t.type_def {
        TypeDef::Composite(c) => c.fields.iter().map(|f| f.ty.id).collect(),
        TypeDef::Variant(v) => v.variants.iter().flat_map(|v| v.fields.iter().map(|f| f.ty.id)).collect(),
        TypeDef::Sequence(s) => vec![s.type_param.id],
        TypeDef::Array(a) => vec![a.type_param.id],
        TypeDef::Tuple(t) => t.fields.iter().map(|f| f.id).collect(),
        TypeDef::Primitive(_) => vec![],
        TypeDef::Compact(c) => vec![c.type_param.id],
        TypeDef::BitSequence(b) => vec![b.bit_store_type.id, b.bit_order_type.id],
    }
}

fn reach(reg: &PortableRegistry, from: u32) -> BTreeSet<u32> {
    let mut seen = BTreeSet::new();
    let mut todo = vec![from];
    while let Some(i) = todo.pop() {
        if !seen.insert(i) {
            continue;
        }
        if let Some(t) = reg.types.get(i as usize) {
            todo.extend(children(&t.ty));
        }
    }
    seen
}

/// finding F16: a `Cow` nested directly in a `Cow` is emitted as `<alloc>::borrow::Cow<T>` (no lifetime)
pub fn has_nested_cow(reg: &PortableRegistry) -> bool {
    reg.types.iter().any(|t| {
        last_seg(&t.ty) == Some("Cow")
            && t.ty.type_params.first().and_then(|p| p.ty).and_then(|i| reg.types.get(i.id as usize)).map(|u| last_seg(&u.ty) == Some("Cow")).unwrap_or(false)
    })
}

/// Finding F17: a generic item that contains itself.  The emitted self-reference is spelled through the
/// root module (`types::r::List<_0>`); parity-scale-codec's derive recognises a self-reference only when the
/// path STARTS with the item's own ident, so it puts `Box<types::r::List<_0>>: Decode` into the where-clause
/// and every use of the impl overflows (E0275), although the source program compiles.  Returns the ids of
/// such items.
pub fn generic_recursive_ids(reg: &PortableRegistry) -> BTreeSet<u32> {
    let mut bad = BTreeSet::new();
    for (i, t) in reg.types.iter().enumerate() {
        if !is_item(&t.ty) || !t.ty.type_params.iter().any(|p| p.ty.is_some()) {
            continue;
        }
        // the definition refers to itself: do not look below the types passed for its own parameters
        let stop: BTreeSet<u32> = t.ty.type_params.iter().filter_map(|p| p.ty.map(|i| i.id)).collect();
        let mut below = BTreeSet::new();
        let mut todo = children(&t.ty);
        while let Some(j) = todo.pop() {
            if stop.contains(&j) || !below.insert(j) {
                continue;
            }
            if let Some(u) = reg.types.get(j as usize) {
                todo.extend(children(&u.ty));
            }
        }
        if below.iter().any(|j| reg.types.get(*j as usize).map(|u| u.ty.path.segments == t.ty.path.segments).unwrap_or(false)) {
            bad.insert(i as u32);
        }
    }
    bad
}

fn is_sorted_coll(t: &Ty) -> bool {
    t.path.segments.len() == 1 && matches!(t.path.segments[0].as_str(), "BTreeMap" | "BTreeSet" | "BinaryHeap")
}

fn is_item(t: &Ty) -> bool {
    t.path.segments.len() >= 2 && matches!(t.type_def, TypeDef::Composite(_) | TypeDef::Variant(_))
}

fn is_order_marker(t: &Ty) -> bool {
    let p = &t.path.segments;
    p.len() == 3 && p[0] == "bitvec" && p[1] == "order"
}

/// The keys of `BTreeMap` / elements of `BTreeSet` must be `Ord` for the std collections to be
/// `Decode`.  Returns the item paths reachable from a key (they get the comparison derives,
/// registered recursively) or `None` if a key reaches a type that is not `Ord` in Rust
/// (`Range`, `RangeInclusive`, `BinaryHeap`): such a registry does not come from a compilable source program.
pub fn ord_items(reg: &PortableRegistry) -> Option<Vec<Vec<String>>> {
    let mut items = BTreeSet::new();
    for t in &reg.types {
        let ty = &t.ty;
        if ty.path.segments.len() == 1 && matches!(ty.path.segments[0].as_str(), "BTreeMap" | "BTreeSet") {
            let key = ty.type_params.first().and_then(|p| p.ty).map(|i| i.id)?;
            for i in reach(reg, key) {
                let u = &reg.types.get(i as usize)?.ty;
                if u.path.segments.len() == 1 && matches!(u.path.segments[0].as_str(), "Range" | "RangeInclusive" | "BinaryHeap") {
                    return None;
                }
                if is_item(u) && !is_order_marker(u) {
                    items.insert(u.path.segments.clone());
                }
            }
        }
    }
    Some(items.into_iter().collect())
}

pub const SUPPORT: &str = "crate::support";

pub fn ct_spec(reg: &PortableRegistry, k: usize, ord: &[Vec<String>]) -> SettingsSpec {
    let mut ops = vec![];
    let mut seen = BTreeSet::new();
    for t in &reg.types {
        if is_order_marker(&t.ty) && seen.insert(t.ty.path.segments.clone()) {
            ops.push(OpSpec::SubInsert(t.ty.path.segments.join("::"), format!("{SUPPORT}::{}", t.ty.path.segments[2])));
        }
    }
    ops.push(OpSpec::DerivesAll(vec!["::parity_scale_codec::Encode".into(), "::parity_scale_codec::Decode".into()]));
    for p in ord {
        ops.push(OpSpec::DerivesFor(p.join("::"), vec!["PartialEq".into(), "Eq".into(), "PartialOrd".into(), "Ord".into()], true));
    }
    SettingsSpec {
        root: format!("types_{k}"),
        docs: k % 2 == 0,
        codec: true,
        alloc: None,
        compact: Some("::parity_scale_codec::Compact".into()),
        bits: Some(format!("{SUPPORT}::DecodedBits")),
        compact_as: Some("::parity_scale_codec::CompactAs".into()),
        ops,
    }
}

// ---------------------------------------------------------------------------
// cases

pub struct Vector {
    pub tag: String,
    pub id: u32,
    pub variant: Option<usize>,
    pub ty: String,
    pub bytes: Vec<u8>,
    pub sorted: bool,
    /// (c) only
    pub up: Option<Up>,
}

pub struct Up {
    /// module holding the standalone struct
    pub module: String,
    /// name of the standalone struct
    pub sname: String,
    /// its source (empty on all but the first vector of a field list)
    pub src: String,
    /// closure turning the decoded item into the standalone struct (field by field)
    pub conv: String,
    /// 1 for a variant (index byte), 0 for a struct
    pub skip: usize,
}

pub struct RegCase {
    pub k: usize,
    pub name: String,
    pub regjson: Value,
    pub spec: SettingsSpec,
    pub module_src: String,
    pub items: usize,
    pub vectors: Vec<Vector>,
    /// class restriction of (b): generated from a program with unique definition paths / real metadata
    pub in_class: bool,
    /// witness of a recorded finding: (finding id, text a rustc error must contain)
    pub expect_fail: Option<(String, String)>,
}

#[derive(Default)]
pub struct Counts {
    pub skipped_regs: BTreeMap<String, usize>,
    pub skipped_vectors: BTreeMap<String, usize>,
    pub ids: usize,
    pub variants: usize,
}

fn bump(m: &mut BTreeMap<String, usize>, k: &str) {
    *m.entry(k.to_string()).or_insert(0) += 1;
}

fn count_items(m: &scale_typegen::typegen::ir::module_ir::ModuleIR) -> usize {
    m.types().count() + m.children().map(|(_, c)| count_items(c)).sum::<usize>()
}

fn quiet<T>(f: impl FnOnce() -> T) -> Option<T> {
    std::panic::catch_unwind(std::panic::AssertUnwindSafe(f)).ok()
}

fn encode(v: &scale_value::Value, id: u32, reg: &PortableRegistry) -> Option<Vec<u8>> {
    let mut buf = vec![];
    match quiet(|| scale_value::scale::encode_as_type(v, id, reg, &mut buf)) {
        Some(Ok(())) => Some(buf),
        other => {
            if std::env::var("CT_DEBUG").is_ok() {
                eprintln!("encode_as_type failed: id {id} {:?} value {} : {:?}", reg.types[id as usize].ty.path.segments, v, other.map(|r| r.err().map(|e| e.to_string())));
            }
            None
        }
    }
}

/// the crate's own example for seeds `0..N_CRATE`, the harness' generator for the seeds above
fn example(id: u32, reg: &PortableRegistry, seed: u64, s: u64) -> Option<scale_value::Value> {
    if s < N_CRATE {
        quiet(|| scale_value_from_seed(id, reg, seed).ok()).flatten()
    } else {
        let mut rng = Rng::new(seed ^ 0x6f77_6e);
        own_example(reg, id, &mut rng, 0)
    }
}

/// Values the crate's examples never produce: recursive types (recursion is cut by preferring `None` / empty
/// sequences / non-recursive variants below depth 4), empty and longer sequences, bit sequences that span
/// several store elements, boundary integers.  Encoded with scale-value like the others.
fn own_example(reg: &PortableRegistry, id: u32, rng: &mut Rng, depth: usize) -> Option<scale_value::Value> {
    use scale_info::TypeDefPrimitive as P;
    use scale_value::{Composite, Primitive, Value, ValueDef};
    if depth > 12 {
        return None;
    }
    let t = &reg.types.get(id as usize)?.ty;
    let fields = |fs: &[scale_info::Field<PortableForm>], rng: &mut Rng| -> Option<Composite<()>> {
        let named = !fs.is_empty() && fs.iter().all(|f| f.name.is_some());
        let mut vals = vec![];
        for f in fs {
            vals.push(own_example(reg, f.ty.id, rng, depth + 1)?);
        }
        Some(if named {
            Composite::Named(fs.iter().map(|f| f.name.clone().unwrap()).zip(vals).collect())
        } else {
            Composite::Unnamed(vals)
        })
    };
    match &t.type_def {
        TypeDef::Composite(c) => Some(Value { value: ValueDef::Composite(fields(&c.fields, rng)?), context: () }),
        TypeDef::Variant(v) => {
            if v.variants.is_empty() {
                return None;
            }
            let start = rng.below(v.variants.len());
            let mut order: Vec<usize> = (0..v.variants.len()).map(|i| (start + i) % v.variants.len()).collect();
            if depth >= 4 {
                order.sort_by_key(|i| v.variants[*i].fields.len());
            }
            for i in order {
                if let Some(c) = fields(&v.variants[i].fields, rng) {
                    return Some(Value::variant(v.variants[i].name.clone(), c));
                }
            }
            None
        }
        TypeDef::Sequence(s) => {
            let n = if depth >= 4 { 0 } else { rng.below(4) };
            let mut vals = vec![];
            for _ in 0..n {
                vals.push(own_example(reg, s.type_param.id, rng, depth + 1)?);
            }
            Some(Value::unnamed_composite(vals))
        }
        TypeDef::Array(a) => {
            let mut vals = vec![];
            for _ in 0..a.len {
                vals.push(own_example(reg, a.type_param.id, rng, depth + 1)?);
            }
            Some(Value::unnamed_composite(vals))
        }
        TypeDef::Tuple(tp) => {
            let mut vals = vec![];
            for f in &tp.fields {
                vals.push(own_example(reg, f.id, rng, depth + 1)?);
            }
            Some(Value::unnamed_composite(vals))
        }
        TypeDef::Compact(c) => own_example(reg, c.type_param.id, rng, depth + 1),
        TypeDef::BitSequence(_) => {
            let n = *rng.pick(&[0usize, 1, 7, 8, 9, 15, 16, 17, 31, 33, 64, 70]);
            let mut b = scale_value::BitSequence::new();
            for _ in 0..n {
                b.push(rng.chance(1, 2));
            }
            Some(Value::bit_sequence(b))
        }
        TypeDef::Primitive(p) => {
            let mut uint = |bits: u32| -> Value {
                let max: u128 = if bits == 128 { u128::MAX } else { (1u128 << bits) - 1 };
                let r = ((rng.next_u64() as u128) << 64 | rng.next_u64() as u128) & max;
                // boundaries of the compact encoding modes and of the type
                let v = match rng.below(8) {
                    0 => 0,
                    1 => max,
                    2 => 63u128.min(max),
                    3 => 64u128.min(max),
                    4 => 16383u128.min(max),
                    5 => 16384u128.min(max),
                    6 => ((1u128 << 30) - 1).min(max),
                    _ => r,
                };
                Value::primitive(Primitive::U128(v))
            };
            Some(match p {
                P::Bool => Value::primitive(Primitive::Bool(rng.chance(1, 2))),
                P::Char => return None,
                P::Str => Value::primitive(Primitive::String((*rng.pick(&["", "a", "h\u{e9}llo", "The quick brown fox"])).to_string())),
                P::U8 => uint(8),
                P::U16 => uint(16),
                P::U32 => uint(32),
                P::U64 => uint(64),
                P::U128 => uint(128),
                P::I8 | P::I16 | P::I32 | P::I64 | P::I128 => {
                    let bits = match p {
                        P::I8 => 8,
                        P::I16 => 16,
                        P::I32 => 32,
                        P::I64 => 64,
                        _ => 128,
                    };
                    let (min, max): (i128, i128) = if bits == 128 { (i128::MIN, i128::MAX) } else { (-(1i128 << (bits - 1)), (1i128 << (bits - 1)) - 1) };
                    let r = ((rng.next_u64() as u128) << 64 | rng.next_u64() as u128) as i128;
                    let r = if bits == 128 { r } else { r.rem_euclid(1i128 << bits) + min };
                    Value::primitive(Primitive::I128(match rng.below(5) {
                        0 => 0,
                        1 => min,
                        2 => max,
                        3 => -1,
                        _ => r,
                    }))
                }
                P::U256 | P::I256 => return None,
            })
        }
    }
}

const N_CRATE: u64 = 3;
const SEEDS_B: u64 = 5;
const SEEDS_C: u64 = 3;

/// builds everything that is known before rustc runs; `None` (+ a count) if the registry is not used
pub fn prepare(k: usize, name: &str, regjson: Value, reg: &PortableRegistry, parts: &str, in_class: bool, expect_f17: bool, seed: u64, counts: &mut Counts) -> Option<RegCase> {
    if has_nested_cow(reg) {
        bump(&mut counts.skipped_regs, "F16_cow_in_cow");
        return None;
    }
    if !expect_f17 && !generic_recursive_ids(reg).is_empty() {
        if std::env::var("CT_DEBUG").is_ok() {
            for i in generic_recursive_ids(reg) {
                eprintln!("F17 in {name}: id {i} {}", reg.types[i as usize].ty.path.segments.join("::"));
            }
        }
        bump(&mut counts.skipped_regs, "F17_generic_recursive");
        return None;
    }
    let ord = match ord_items(reg) {
        Some(o) => o,
        None => {
            bump(&mut counts.skipped_regs, "map_key_not_Ord_in_source");
            return None;
        }
    };
    let spec = ct_spec(reg, k, &ord);
    let (settings, outs) = sets::build(&spec);
    if outs.iter().any(|o| o.is_some()) {
        panic!("harness: compile-tier settings rejected: {outs:?}");
    }
    let gen = quiet(|| {
        let g = TypeGenerator::new(reg, &settings);
        g.generate_types_mod().map(|m| (count_items(&m), m.to_token_stream(&settings)))
    });
    let (items, ts) = match gen {
        Some(Ok(x)) => x,
        Some(Err(e)) => {
            bump(&mut counts.skipped_regs, &format!("generate_error:{}", crate::obs::of_typegen_error(&e).0));
            return None;
        }
        None => {
            bump(&mut counts.skipped_regs, "generate_panic");
            return None;
        }
    };
    let module_src = tokens_to_src(ts);
    let root = &spec.root;
    let mut vectors = vec![];
    let sorted_ids: BTreeSet<u32> = (0..reg.types.len() as u32)
        .filter(|i| reach(reg, *i).iter().any(|j| reg.types.get(*j as usize).map(|t| is_sorted_coll(&t.ty)).unwrap_or(false)))
        .collect();

    if parts.contains('b') && in_class {
        for id in 0..reg.types.len() as u32 {
            counts.ids += 1;
            let ty = match quiet(|| {
                let g = TypeGenerator::new(reg, &settings);
                g.resolve_type_path(id).map(|p| tokens_to_src(p.to_token_stream(&settings)))
            }) {
                Some(Ok(t)) => t,
                _ => {
                    bump(&mut counts.skipped_vectors, "resolve_type_path_failed");
                    continue;
                }
            };
            let mut seen: BTreeSet<Vec<u8>> = BTreeSet::new();
            for s in 0..SEEDS_B {
                let vseed = seed.wrapping_mul(1000).wrapping_add(s);
                let v = match example(id, reg, vseed, s) {
                    Some(v) => v,
                    None => {
                        bump(&mut counts.skipped_vectors, if s < N_CRATE { "no_crate_example(recursive_type)" } else { "no_own_example" });
                        continue;
                    }
                };
                let bytes = match encode(&v, id, reg) {
                    Some(b) => b,
                    None => {
                        bump(&mut counts.skipped_vectors, "encode_as_type_failed");
                        continue;
                    }
                };
                if !seen.insert(bytes.clone()) {
                    bump(&mut counts.skipped_vectors, "duplicate_bytes");
                    continue;
                }
                vectors.push(Vector {
                    tag: format!("b:{k}:{id}:{s}"),
                    id,
                    variant: None,
                    ty: ty.clone(),
                    bytes,
                    sorted: sorted_ids.contains(&id),
                    up: None,
                });
            }
        }
    }

    if parts.contains('c') {
        use scale_typegen::typegen::ir::type_ir::CompositeIR;
        use scale_typegen::typegen::type_params::TypeParameters;
        let mut seen_paths = BTreeSet::new();
        let mut n_up = 0usize;
        for (pos, t) in reg.types.iter().enumerate() {
            let ty = &t.ty;
            let id = pos as u32;
            if !is_item(ty) || is_order_marker(ty) || ty.type_params.iter().any(|p| p.ty.is_some()) {
                continue;
            }
            // only the kept entry of a path (same-path families: the first one)
            if !seen_paths.insert(ty.path.segments.clone()) {
                continue;
            }
            let item_path = format!("{}::{}", root, ty.path.segments.join("::"));
            let lists: Vec<(Option<usize>, String, &[scale_info::Field<PortableForm>], &[String], String, usize)> = match &ty.type_def {
                TypeDef::Composite(c) => {
                    vec![(None, ty.path.segments.last().unwrap().clone(), &c.fields[..], &ty.docs[..], item_path.clone(), 0)]
                }
                TypeDef::Variant(v) => v
                    .variants
                    .iter()
                    .enumerate()
                    .map(|(vi, var)| (Some(vi), var.name.clone(), &var.fields[..], &var.docs[..], format!("{}::{}", item_path, var.name), 1))
                    .collect(),
                _ => vec![],
            };
            for (vi, sname, fields, docs, ctor, skip) in lists {
                counts.variants += 1;
                // the same code path as tg.rs::upcast_tokens
                let toks = quiet(|| -> Result<TokenStream, scale_typegen::TypegenError> {
                    let g = TypeGenerator::new(reg, &settings);
                    let ident = syn::parse_str::<proc_macro2::Ident>(&sname)?;
                    let mut tp = TypeParameters::from_scale_info(&[]);
                    let kind = g.create_composite_ir_kind(fields, &mut tp)?;
                    let c = CompositeIR::new(ident, kind, g.docs_from_scale_info(docs));
                    Ok(g.upcast_composite(&c).to_token_stream(&settings))
                });
                let toks = match toks {
                    Some(Ok(t)) => t,
                    _ => {
                        bump(&mut counts.skipped_vectors, "upcast_failed");
                        continue;
                    }
                };
                let m = format!("up_{k}_{n_up}");
                n_up += 1;
                let named = !fields.is_empty() && fields.iter().all(|f| f.name.is_some());
                let binders: Vec<String> = fields
                    .iter()
                    .enumerate()
                    .map(|(i, f)| if named { f.name.clone().unwrap() } else { format!("f{i}") })
                    .collect();
                let (pat, ctor_s) = if fields.is_empty() {
                    (ctor.clone(), format!("{m}::{sname}"))
                } else if named {
                    (format!("{ctor} {{ {} }}", binders.join(", ")), format!("{m}::{sname} {{ {} }}", binders.join(", ")))
                } else {
                    (format!("{ctor}({})", binders.join(", ")), format!("{m}::{sname}({})", binders.join(", ")))
                };
                let conv = format!("|e| match e {{ {pat} => Some({ctor_s}), _ => None }}");
                let struct_src = tokens_to_src(toks);
                let mut seen: BTreeSet<Vec<u8>> = BTreeSet::new();
                let mut any = false;
                for s in 0..SEEDS_C {
                    let vseed = seed.wrapping_mul(1000).wrapping_add(100 + s);
                    // an example of THIS variant: examples of the field types, assembled
                    let mut vals = vec![];
                    let mut ok = true;
                    for (fi, f) in fields.iter().enumerate() {
                        match example(f.ty.id, reg, vseed.wrapping_add(fi as u64 * 7), if s == 0 { 0 } else { N_CRATE }) {
                            Some(v) => vals.push(v),
                            None => {
                                ok = false;
                                break;
                            }
                        }
                    }
                    if !ok {
                        bump(&mut counts.skipped_vectors, if s == 0 { "no_crate_example(recursive_type)" } else { "no_own_example" });
                        continue;
                    }
                    let comp = if named {
                        scale_value::Composite::Named(binders.iter().cloned().zip(vals).collect())
                    } else {
                        scale_value::Composite::Unnamed(vals)
                    };
                    let value = match vi {
                        Some(_) => scale_value::Value::variant(sname.clone(), comp),
                        None => scale_value::Value { value: scale_value::ValueDef::Composite(comp), context: () },
                    };
                    let bytes = match encode(&value, id, reg) {
                        Some(b) => b,
                        None => {
                            bump(&mut counts.skipped_vectors, "encode_as_type_failed");
                            continue;
                        }
                    };
                    if !seen.insert(bytes.clone()) {
                        bump(&mut counts.skipped_vectors, "duplicate_bytes");
                        continue;
                    }
                    vectors.push(Vector {
                        tag: format!("c:{k}:{id}:{}:{s}", vi.map(|v| v.to_string()).unwrap_or_else(|| "-".into())),
                        id,
                        variant: vi,
                        ty: item_path.clone(),
                        bytes,
                        sorted: sorted_ids.contains(&id),
                        up: Some(Up { module: m.clone(), sname: sname.clone(), src: if any { String::new() } else { struct_src.clone() }, conv: conv.clone(), skip }),
                    });
                    any = true;
                }
            }
        }
    }
    Some(RegCase { k, name: name.to_string(), regjson, spec, module_src, items, vectors, in_class, expect_fail: None })
}

// ---------------------------------------------------------------------------
// the scratch project

const SUPPORT_RS: &str = r#"// support code of the compile tier (written by vharness compile-tier)
use parity_scale_codec::{Compact, Decode, Encode, Error, Input, Output};
use scale_bits::scale::format::{Format, OrderFormat, StoreFormat};
use std::io::Write;

#[derive(Encode, Decode, Clone, Copy, Debug, PartialEq, Eq, PartialOrd, Ord)]
pub struct Lsb0;
#[derive(Encode, Decode, Clone, Copy, Debug, PartialEq, Eq, PartialOrd, Ord)]
pub struct Msb0;
pub trait BitOrder { const FORMAT: OrderFormat; }
impl BitOrder for Lsb0 { const FORMAT: OrderFormat = OrderFormat::Lsb0; }
impl BitOrder for Msb0 { const FORMAT: OrderFormat = OrderFormat::Msb0; }
pub trait BitStore { const FORMAT: StoreFormat; const BITS: u32; }
impl BitStore for u8 { const FORMAT: StoreFormat = StoreFormat::U8; const BITS: u32 = 8; }
impl BitStore for u16 { const FORMAT: StoreFormat = StoreFormat::U16; const BITS: u32 = 16; }
impl BitStore for u32 { const FORMAT: StoreFormat = StoreFormat::U32; const BITS: u32 = 32; }
impl BitStore for u64 { const FORMAT: StoreFormat = StoreFormat::U64; const BITS: u32 = 64; }

/// a bit sequence decoded / encoded by scale-bits in the format named by the two type arguments
#[derive(Clone, Debug, PartialEq, Eq, PartialOrd, Ord)]
pub struct DecodedBits<Store, Order> {
    pub bits: Vec<bool>,
    _marker: core::marker::PhantomData<(Store, Order)>,
}

impl<Store: BitStore, Order: BitOrder> Decode for DecodedBits<Store, Order> {
    fn decode<I: Input>(input: &mut I) -> Result<Self, Error> {
        let Compact(nbits) = Compact::<u32>::decode(input)?;
        let nstore = (nbits as u64 + Store::BITS as u64 - 1) / Store::BITS as u64;
        let nbytes = (nstore * (Store::BITS as u64 / 8)) as usize;
        let mut buf = Compact(nbits).encode();
        let prefix = buf.len();
        buf.resize(prefix + nbytes, 0);
        input.read(&mut buf[prefix..])?;
        let dec = scale_bits::scale::decode_using_format_from(&buf, Format::new(Store::FORMAT, Order::FORMAT))
            .map_err(|_| Error::from("scale-bits: bad bit sequence"))?;
        let bits: Result<Vec<bool>, _> = dec.collect();
        let bits = bits.map_err(|_| Error::from("scale-bits: bad bit sequence"))?;
        Ok(DecodedBits { bits, _marker: core::marker::PhantomData })
    }
}

impl<Store: BitStore, Order: BitOrder> Encode for DecodedBits<Store, Order> {
    fn encode_to<T: Output + ?Sized>(&self, dest: &mut T) {
        let mut out = Vec::new();
        scale_bits::scale::encode_using_format_to(self.bits.iter().copied(), Format::new(Store::FORMAT, Order::FORMAT), &mut out);
        dest.write(&out);
    }
}

#[derive(Default)]
pub struct Stats { pub run: u64, pub pass: u64, pub canon: u64, pub fail: u64 }

fn hex(b: &[u8]) -> String { b.iter().map(|x| format!("{:02x}", x)).collect() }
fn one_line(s: String) -> String { s.replace('\n', " | ").replace('\t', " ") }

fn trace(tag: &str) {
    if std::env::var("CT_TRACE").is_ok() {
        println!("RUN {tag}");
        let _ = std::io::stdout().flush();
    }
}

/// Ok(true) = the input was not canonical (sorted collection) and its canonical form round-trips
fn round_trip<T: Encode + Decode>(bytes: &[u8], sorted: bool) -> Result<(T, Vec<u8>, bool), String> {
    let mut inp = bytes;
    let v = T::decode(&mut inp).map_err(|e| one_line(format!("decode error: {e}")))?;
    if !inp.is_empty() {
        return Err(format!("{} of {} bytes not consumed", inp.len(), bytes.len()));
    }
    let re = v.encode();
    if re == bytes {
        return Ok((v, re, false));
    }
    if !sorted {
        return Err(format!("re-encoded to different bytes {}", hex(&re)));
    }
    let mut inp2 = &re[..];
    let v2 = T::decode(&mut inp2).map_err(|e| one_line(format!("decode error on the canonical form: {e}")))?;
    if !inp2.is_empty() {
        return Err(format!("{} bytes of the canonical form not consumed", inp2.len()));
    }
    let re2 = v2.encode();
    if re2 != re {
        return Err(format!("canonical form re-encoded to different bytes {}", hex(&re2)));
    }
    Ok((v, re, true))
}

fn report(st: &mut Stats, tag: &str, r: std::thread::Result<Result<bool, String>>) {
    match r {
        Ok(Ok(c)) => { st.pass += 1; if c { st.canon += 1; } }
        Ok(Err(m)) => { st.fail += 1; println!("FAIL {tag} {m}"); }
        Err(_) => { st.fail += 1; println!("FAIL {tag} panic"); }
    }
}

pub fn rt<T: Encode + Decode>(st: &mut Stats, tag: &str, bytes: &[u8], sorted: bool) {
    st.run += 1;
    trace(tag);
    let r = std::panic::catch_unwind(|| round_trip::<T>(bytes, sorted).map(|x| x.2));
    report(st, tag, r);
}

/// E: the generated enum (or struct), S: the standalone struct; `skip` = 1 for a variant (index byte)
pub fn up<E: Encode + Decode, S: Encode + Decode>(st: &mut Stats, tag: &str, bytes: &[u8], sorted: bool, skip: usize, conv: fn(E) -> Option<S>) {
    st.run += 1;
    trace(tag);
    let r = std::panic::catch_unwind(|| -> Result<bool, String> {
        let (e, canon, c) = round_trip::<E>(bytes, sorted).map_err(|m| format!("item: {m}"))?;
        if canon.len() < skip {
            return Err("encoding shorter than the index byte".into());
        }
        let payload = &canon[skip..];
        let s = conv(e).ok_or_else(|| "decoded to a different variant".to_string())?;
        let enc = s.encode();
        if enc != payload {
            return Err(format!("standalone struct encodes to {} instead of the payload {}", hex(&enc), hex(payload)));
        }
        round_trip::<S>(payload, false).map_err(|m| format!("standalone struct on the payload: {m}"))?;
        Ok(c)
    });
    report(st, tag, r);
}

pub fn main_with(f: fn(&mut Stats)) {
    std::panic::set_hook(Box::new(|_| {}));
    let h = std::thread::Builder::new().stack_size(512 << 20).spawn(move || {
        let mut st = Stats::default();
        f(&mut st);
        println!("DONE run={} pass={} canon={} fail={}", st.run, st.pass, st.canon, st.fail);
    }).unwrap();
    if h.join().is_err() {
        println!("CRASH");
    }
}
"#;

fn bytes_lit(b: &[u8]) -> String {
    let mut s = String::with_capacity(b.len() * 4 + 4);
    s.push_str("&[");
    for (i, x) in b.iter().enumerate() {
        if i > 0 {
            s.push(',');
        }
        let _ = write!(s, "{}", x);
        if i == 0 {
            s.push_str("u8");
        }
    }
    s.push(']');
    s
}

/// the source file of one registry and, per vector, the first line of its test function
fn reg_file(c: &RegCase) -> (String, Vec<usize>) {
    let mut s = String::new();
    let mut lines = vec![];
    let _ = writeln!(s, "// registry {} ({})", c.k, c.name);
    s.push_str(&c.module_src);
    s.push('\n');
    for v in &c.vectors {
        if let Some(u) = &v.up {
            if !u.src.is_empty() {
                let _ = writeln!(s, "pub mod {} {{\nuse super::{};\n{}\n}}", u.module, c.spec.root, u.src);
            }
        }
    }
    // one function per vector keeps the stack frames of debug builds small
    for (i, v) in c.vectors.iter().enumerate() {
        lines.push(s.matches('\n').count() + 1);
        let _ = writeln!(s, "fn v{i}(st: &mut crate::support::Stats) {{");
        match &v.up {
            None => {
                let _ = writeln!(s, "crate::support::rt::<{}>(st, {:?}, {}, {});", v.ty, v.tag, bytes_lit(&v.bytes), v.sorted);
            }
            Some(u) => {
                let _ = writeln!(
                    s,
                    "crate::support::up::<{}, {}::{}>(st, {:?}, {}, {}, {}, {});",
                    v.ty, u.module, u.sname, v.tag, bytes_lit(&v.bytes), v.sorted, u.skip, u.conv
                );
            }
        }
        let _ = writeln!(s, "}}");
    }
    let _ = writeln!(s, "pub fn run(st: &mut crate::support::Stats) {{");
    for i in 0..c.vectors.len() {
        let _ = writeln!(s, "v{i}(st);");
    }
    let _ = writeln!(s, "}}");
    (s, lines)
}

struct Scratch {
    dir: PathBuf,
    keep: bool,
}

impl Drop for Scratch {
    fn drop(&mut self) {
        if !self.keep {
            let _ = std::fs::remove_dir_all(&self.dir);
        }
    }
}

fn write_project(dir: &Path, groups: &[Vec<&RegCase>]) -> BTreeMap<usize, Vec<usize>> {
    let mut line_map = BTreeMap::new();
    std::fs::create_dir_all(dir.join(".cargo")).unwrap();
    std::fs::write(
        dir.join("Cargo.toml"),
        "[package]\nname = \"ct_scratch\"\nversion = \"0.0.0\"\nedition = \"2021\"\nautobins = true\n\n[workspace]\n\n[dependencies]\n\
         parity-scale-codec = { version = \"3.6.12\", features = [\"derive\"] }\n\
         scale-bits = { version = \"0.7.0\", default-features = false }\n\n\
         [profile.dev]\ndebug = false\nincremental = false\nopt-level = 0\n",
    )
    .unwrap();
    std::fs::write(dir.join(".cargo/config.toml"), "[net]\noffline = true\n").unwrap();
    let _ = std::fs::copy("/repo/Cargo.lock", dir.join("Cargo.lock"));
    for (gi, g) in groups.iter().enumerate() {
        let bdir = dir.join("src").join("bin").join(format!("g{gi}"));
        std::fs::create_dir_all(&bdir).unwrap();
        std::fs::write(bdir.join("support.rs"), SUPPORT_RS).unwrap();
        let mut main = String::from("#![allow(warnings)]\n#![recursion_limit = \"1024\"]\nmod support;\n");
        for c in g {
            let _ = writeln!(main, "mod r_{};", c.k);
            let (src, lines) = reg_file(c);
            line_map.insert(c.k, lines);
            std::fs::write(bdir.join(format!("r_{}.rs", c.k)), src).unwrap();
        }
        main.push_str("fn all(st: &mut support::Stats) {\n");
        for c in g {
            let _ = writeln!(main, "r_{}::run(st);", c.k);
        }
        main.push_str("}\nfn main() { support::main_with(all); }\n");
        std::fs::write(bdir.join("main.rs"), main).unwrap();
    }
    line_map
}

fn run_cmd(cmd: &mut std::process::Command) -> (bool, String) {
    match cmd.output() {
        Ok(o) => {
            let mut s = String::from_utf8_lossy(&o.stdout).to_string();
            s.push_str(&String::from_utf8_lossy(&o.stderr));
            (o.status.success(), s)
        }
        Err(e) => (false, format!("could not start: {e}")),
    }
}

// ---------------------------------------------------------------------------

pub struct Opts {
    pub seed: u64,
    pub out: PathBuf,
    pub parts: String,
    pub polkadot: bool,
    pub scratch: Option<PathBuf>,
    pub keep: bool,
    pub nrandom: usize,
    pub replay: Option<PathBuf>,
}

fn hexs(b: &[u8]) -> String {
    b.iter().map(|x| format!("{:02x}", x)).collect()
}

pub fn run(o: &Opts) -> Value {
    let t0 = Instant::now();
    let mut counts = Counts::default();
    let mut cases: Vec<RegCase> = vec![];
    let k = std::cell::Cell::new(0usize);
    let add = |name: &str, rj: Value, reg: &PortableRegistry, in_class: bool, cases: &mut Vec<RegCase>, counts: &mut Counts| {
        if let Some(c) = prepare(k.get(), name, rj, reg, &o.parts, in_class, false, o.seed, counts) {
            cases.push(c);
        }
        k.set(k.get() + 1);
    };
    if let Some(rp) = &o.replay {
        let v: Value = serde_json::from_str(&std::fs::read_to_string(rp).expect("replay file")).expect("replay json");
        let input = if v.get("input").is_some() { v["input"].clone() } else { v };
        if input["registry"].as_str().map(|t| t.starts_with("polkadot")).unwrap_or(false) {
            let reg = crate::util::polkadot_registry();
            add("polkadot", Value::Null, &reg, true, &mut cases, &mut counts);
        } else {
            let reg = reggen::to_registry(&input["registry"]);
            add("replay", input["registry"].clone(), &reg, true, &mut cases, &mut counts);
        }
    } else {
        let usable = |p: &Program, counts: &mut Counts| -> bool {
            if param_only_recursive(p) {
                bump(&mut counts.skipped_regs, "source_invalid:param_only_used_recursively");
                return false;
            }
            if !coincidence_free(p) {
                bump(&mut counts.skipped_regs, "not_coincidence_free(DESIGN 3.3)");
                return false;
            }
            true
        };
        let mut corp: Vec<(String, Program)> = vec![];
        for (n, p) in crate::corpus::programs() {
            let p = sanitise(&dechar_program(&p));
            // the corpus program with a generic recursive definition (F17) is also used without that definition
            let gr = generic_recursive_defs(&p);
            if gr.len() == 1 {
                if let Some(q) = remove_def(&p, gr[0]) {
                    corp.push((format!("{n}(without the generic recursive definition)"), q));
                }
            }
            corp.push((n, p));
        }
        for (n, p) in corp {
            if !usable(&p, &mut counts) {
                k.set(k.get() + 1);
                continue;
            }
            let (rj, _) = reggen::build(&p);
            let reg = reggen::to_registry(&rj);
            add(&format!("corpus:{n}"), rj, &reg, true, &mut cases, &mut counts);
        }
        let mut rng = Rng::new(o.seed ^ 0x6374_6965);
        let gc = GenCfg::default();
        let mut tries = 0;
        let base = cases.len();
        while cases.len() < base + o.nrandom && tries < o.nrandom * 4 {
            tries += 1;
            let p = dechar_program(&reggen::rand_program(&mut rng, &gc));
            if !usable(&p, &mut counts) {
                k.set(k.get() + 1);
                continue;
            }
            let (rj, _) = reggen::build(&p);
            let reg = reggen::to_registry(&rj);
            add("random-program", rj, &reg, true, &mut cases, &mut counts);
        }
        if o.polkadot {
            let reg = crate::util::polkadot_registry();
            add("polkadot", Value::Null, &reg, true, &mut cases, &mut counts);
        }
    }
    // witnesses of recorded findings (corpus/compile/*.json): compiled in a bin of their own, expected to fail
    if o.replay.is_none() {
        let dir = crate::util::verif_dir().join("corpus").join("compile");
        let mut files: Vec<PathBuf> = std::fs::read_dir(&dir).map(|rd| rd.filter_map(|e| e.ok()).map(|e| e.path()).collect()).unwrap_or_default();
        files.sort();
        for f in files {
            if f.extension().map(|e| e != "json").unwrap_or(true) {
                continue;
            }
            let v: Value = match std::fs::read_to_string(&f).ok().and_then(|t| serde_json::from_str(&t).ok()) {
                Some(v) => v,
                None => continue,
            };
            let (Some(fid), Some(needle)) = (v["finding"].as_str(), v["expect"]["rustc_error_contains"].as_str()) else { continue };
            let reg = reggen::to_registry(&v["input"]["registry"]);
            let mut scratch_counts = Counts::default();
            if let Some(mut c) = prepare(k.get(), &format!("witness:{fid}"), v["input"]["registry"].clone(), &reg, "ab", true, true, o.seed, &mut scratch_counts) {
                c.expect_fail = Some((fid.to_string(), needle.to_string()));
                cases.push(c);
            }
            k.set(k.get() + 1);
        }
    }
    let t_prep = t0.elapsed().as_secs_f64();

    // groups: big registries and witnesses alone, the others balanced over the remaining bins
    let nbins = 8usize;
    let mut groups: Vec<Vec<&RegCase>> = vec![];
    let mut small: Vec<Vec<&RegCase>> = (0..nbins).map(|_| vec![]).collect();
    let mut load = vec![0usize; nbins];
    let mut order: Vec<&RegCase> = cases.iter().collect();
    order.sort_by_key(|c| std::cmp::Reverse(c.module_src.len() + c.vectors.len() * 300));
    for c in order {
        let w = c.module_src.len() + c.vectors.len() * 300;
        if w > 200_000 || c.expect_fail.is_some() {
            groups.push(vec![c]);
        } else {
            let (i, _) = load.iter().enumerate().min_by_key(|(_, l)| **l).unwrap();
            load[i] += w;
            small[i].push(c);
        }
    }
    groups.extend(small.into_iter().filter(|g| !g.is_empty()));

    let dir = o.scratch.clone().unwrap_or_else(|| std::env::temp_dir().join(format!("ct_{}", std::process::id())));
    let _ = std::fs::remove_dir_all(&dir);
    let scratch = Scratch { dir: dir.clone(), keep: o.keep };
    let line_map = write_project(&dir, &groups);
    let real: Vec<&RegCase> = cases.iter().filter(|c| c.expect_fail.is_none()).collect();
    let src_bytes: usize = real.iter().map(|c| c.module_src.len()).sum();

    let t1 = Instant::now();
    let (ok, log) = run_cmd(
        std::process::Command::new("cargo")
            .args(["build", "--offline", "--keep-going", "--message-format=short", "--bins"])
            .current_dir(&dir)
            .env("CARGO_TARGET_DIR", dir.join("target"))
            .env("CARGO_NET_OFFLINE", "true")
            .env_remove("RUSTFLAGS"),
    );
    let t_build = t1.elapsed().as_secs_f64();

    let by_k: BTreeMap<usize, &RegCase> = cases.iter().map(|c| (c.k, c)).collect();
    let mut failures: Vec<Value> = vec![];
    let mut replay_n = 0usize;
    let mut write_replay = |c: &RegCase, what: Value| -> String {
        let p = o.out.join(format!("replay_ct_{}.json", replay_n));
        replay_n += 1;
        let regjson = if c.regjson.is_null() { json!("polkadot: /repo/artifacts/polkadot_metadata.scale (types of the runtime metadata)") } else { c.regjson.clone() };
        let j = json!({"kind": "compile-tier", "registry_name": c.name, "what": what,
                       "input": {"registry": regjson, "settings": c.spec},
                       "rerun": "harness/target/release/vharness compile-tier <seed> <outdir> --replay <this file> --parts abc"});
        std::fs::write(&p, serde_json::to_string_pretty(&j).unwrap()).unwrap();
        p.to_string_lossy().to_string()
    };

    // rustc diagnostics, attributed to a registry through the file name
    let err_lines: Vec<&str> = log.lines().filter(|l| l.contains(": error")).collect();
    let mut rustc_by_reg: BTreeMap<usize, Vec<String>> = BTreeMap::new();
    let mut other_errors: Vec<String> = vec![];
    for l in &err_lines {
        let rk = l.find("/r_").and_then(|i| l[i + 3..].split('.').next().and_then(|s| s.parse::<usize>().ok()));
        match rk {
            Some(r) if by_k.contains_key(&r) => rustc_by_reg.entry(r).or_default().push(l.to_string()),
            _ => other_errors.push(l.to_string()),
        }
    }
    let mut known_reproduced: BTreeMap<String, String> = BTreeMap::new();
    let mut known_not_reproduced: Vec<String> = vec![];
    for c in cases.iter() {
        if let Some((fid, needle)) = &c.expect_fail {
            match rustc_by_reg.get(&c.k).and_then(|ls| ls.iter().find(|l| l.contains(needle.as_str()))) {
                Some(l) => {
                    known_reproduced.insert(fid.clone(), l.clone());
                }
                None => known_not_reproduced.push(fid.clone()),
            }
        }
    }
    let mut unexpected: Vec<&String> = vec![];
    for (r, lines) in &rustc_by_reg {
        let c = by_k[r];
        if c.expect_fail.is_some() {
            continue;
        }
        unexpected.extend(lines.iter());
        // an error inside the test function of a vector names the type id whose generated type is not usable
        let at_vector = lines.iter().find_map(|l| {
            let ln: usize = l.split(".rs:").nth(1)?.split(':').next()?.parse().ok()?;
            let starts = line_map.get(r)?;
            let i = starts.iter().rposition(|s| *s <= ln)?;
            if ln > starts[i] + 2 {
                return None;
            }
            let v = c.vectors.get(i)?;
            Some(json!({"type_id": v.id, "variant_index": v.variant, "generated_type": v.ty, "bytes_hex": hexs(&v.bytes), "vector": v.tag, "error": l}))
        });
        let p = write_replay(c, json!({"rustc_errors": lines.iter().take(20).collect::<Vec<_>>(), "n_errors": lines.len(),
                                        "happened": "the generated code does not compile (cargo build --offline, parity-scale-codec 3.6.12 derives)",
                                        "first_error_at_vector": at_vector}));
        failures.push(json!({"kind": "rustc", "registry": c.k, "name": c.name, "replay": p, "first": lines[0]}));
    }
    unexpected.extend(other_errors.iter());

    // run the binaries; every bin without an expected failure must exist and account for all its vectors
    let mut run = 0u64;
    let mut pass = 0u64;
    let mut canon = 0u64;
    let mut fails: Vec<(String, String)> = vec![];
    let mut missing_bins: Vec<usize> = vec![];
    let mut compiled = 0usize;
    let t2 = Instant::now();
    let vec_by_tag: BTreeMap<&str, (&RegCase, &Vector)> = cases.iter().flat_map(|c| c.vectors.iter().map(move |v| (v.tag.as_str(), (c, v)))).collect();
    for (gi, g) in groups.iter().enumerate() {
        if g.iter().any(|c| c.expect_fail.is_some()) {
            continue;
        }
        let exe = dir.join("target").join("debug").join(format!("g{gi}"));
        if !exe.exists() {
            missing_bins.push(gi);
            continue;
        }
        compiled += g.len();
        let expected: u64 = g.iter().map(|c| c.vectors.len() as u64).sum();
        let (_, outp) = run_cmd(&mut std::process::Command::new(&exe));
        let mut done = None;
        for l in outp.lines() {
            if let Some(rest) = l.strip_prefix("FAIL ") {
                let mut it = rest.splitn(2, ' ');
                let tag = it.next().unwrap_or("").to_string();
                fails.push((tag, it.next().unwrap_or("").to_string()));
            } else if let Some(rest) = l.strip_prefix("DONE ") {
                let mut m = BTreeMap::new();
                for kv in rest.split(' ') {
                    let mut it = kv.split('=');
                    m.insert(it.next().unwrap_or("").to_string(), it.next().and_then(|v| v.parse::<u64>().ok()).unwrap_or(0));
                }
                run += m.get("run").copied().unwrap_or(0);
                pass += m.get("pass").copied().unwrap_or(0);
                canon += m.get("canon").copied().unwrap_or(0);
                done = m.get("run").copied();
            }
        }
        match done {
            Some(n) if n == expected => {}
            Some(n) => fails.push((format!("bin g{gi}"), format!("ran {n} of {expected} vectors"))),
            None => {
                // find the vector that kills the process
                let (_, tr) = run_cmd(std::process::Command::new(&exe).env("CT_TRACE", "1"));
                let last = tr.lines().filter_map(|l| l.strip_prefix("RUN ")).last().unwrap_or("").to_string();
                fails.push((last, "the test process died (stack overflow / abort) on this vector".into()));
            }
        }
    }
    let t_run = t2.elapsed().as_secs_f64();
    let rustc_ok = unexpected.is_empty() && missing_bins.is_empty() && (ok || !known_reproduced.is_empty());
    if !rustc_ok && failures.is_empty() {
        // a build failure that cannot be attributed to a registry (support code, dependencies, cargo)
        failures.push(json!({"kind": "build", "missing_bins": missing_bins,
                             "log_tail": log.lines().rev().take(40).collect::<Vec<_>>().into_iter().rev().collect::<Vec<_>>()}));
    }
    for (tag, msg) in fails.iter().take(10) {
        if let Some((c, v)) = vec_by_tag.get(tag.as_str()) {
            let p = write_replay(c, json!({"type_id": v.id, "variant_index": v.variant, "generated_type": v.ty, "bytes_hex": hexs(&v.bytes),
                                             "part": if v.up.is_some() { "c (standalone struct vs payload)" } else { "b (decode, consume all, re-encode)" },
                                             "standalone_struct": v.up.as_ref().map(|u| format!("{}::{}", u.module, u.sname)),
                                             "happened": msg, "vector": tag}));
            failures.push(json!({"kind": "vector", "registry": c.k, "name": c.name, "replay": p, "vector": tag, "happened": msg}));
        } else {
            failures.push(json!({"kind": "vector", "vector": tag, "happened": msg}));
        }
    }

    let n_vectors: usize = real.iter().map(|c| c.vectors.len()).sum();
    let n_b = real.iter().flat_map(|c| c.vectors.iter()).filter(|v| v.up.is_none()).count();
    let items: usize = real.iter().map(|c| c.items).sum();
    drop(scratch);
    let report = json!({
        "parts": o.parts,
        "registries": real.len(),
        "registries_compiled": compiled,
        "registries_skipped": counts.skipped_regs,
        "polkadot": o.polkadot,
        "items": items,
        "module_source_bytes": src_bytes,
        "type_ids_considered": counts.ids,
        "field_lists_considered": counts.variants,
        "vectors_emitted": n_vectors,
        "vectors_b": n_b,
        "vectors_c": n_vectors - n_b,
        "vectors_run": run,
        "vectors_passed": pass,
        "vectors_canonicalised": canon,
        "vectors_failed": fails.len(),
        "vectors_skipped": counts.skipped_vectors,
        "rustc_ok": rustc_ok,
        "rustc_errors": unexpected.iter().take(20).collect::<Vec<_>>(),
        "known_findings_reproduced": known_reproduced,
        "known_findings_not_reproduced": known_not_reproduced,
        "failures": failures,
        "scratch_removed": !dir.exists(),
        "prepare_s": (t_prep * 10.0).round() / 10.0,
        "build_s": (t_build * 10.0).round() / 10.0,
        "run_s": (t_run * 10.0).round() / 10.0,
        "wall_s": (t0.elapsed().as_secs_f64() * 10.0).round() / 10.0,
    });
    std::fs::create_dir_all(&o.out).ok();
    std::fs::write(o.out.join("compile_tier.json"), serde_json::to_string_pretty(&report).unwrap()).unwrap();
    report
}

pub fn main(args: &[String]) -> i32 {
    if args.len() < 2 {
        eprintln!("usage: vharness compile-tier <seed> <outdir> [--parts abc] [--polkadot] [--scratch dir] [--keep] [--random N] [--replay file]");
        return 2;
    }
    let mut o = Opts {
        seed: args[0].parse().unwrap_or(1),
        out: PathBuf::from(&args[1]),
        parts: "abc".into(),
        polkadot: false,
        scratch: None,
        keep: false,
        nrandom: 100,
        replay: None,
    };
    let mut i = 2;
    while i < args.len() {
        match args[i].as_str() {
            "--parts" => {
                o.parts = args[i + 1].clone();
                i += 2;
            }
            "--polkadot" => {
                o.polkadot = true;
                i += 1;
            }
            "--scratch" => {
                o.scratch = Some(PathBuf::from(&args[i + 1]));
                i += 2;
            }
            "--keep" => {
                o.keep = true;
                i += 1;
            }
            "--random" => {
                o.nrandom = args[i + 1].parse().unwrap_or(100);
                i += 2;
            }
            "--replay" => {
                o.replay = Some(PathBuf::from(&args[i + 1]));
                i += 2;
            }
            _ => i += 1,
        }
    }
    std::fs::create_dir_all(&o.out).ok();
    let r = run(&o);
    let mut brief = r.clone();
    if let Some(m) = brief.as_object_mut() {
        m.remove("failures");
    }
    println!("{}", serde_json::to_string(&brief).unwrap());
    for f in r["failures"].as_array().cloned().unwrap_or_default() {
        println!("CT-FAILURE {}", f);
    }
    if r["failures"].as_array().map(|a| a.is_empty()).unwrap_or(true) {
        0
    } else {
        1
    }
}
