#![allow(dead_code)]
mod c05;
mod c11;
mod c13;
mod c12;
mod c14;
mod c15;
mod c16;
mod c17;
mod coq;
mod corpus;
mod ctier;
mod dd;
mod dtier;
mod famgen;
mod faults;
mod obs;
mod reggen;
mod regprint;
mod rng;
mod rngwords;
mod sets;
mod tg;
mod tgprops;
mod tok;
mod util;

use std::path::PathBuf;

fn main() {
    let args: Vec<String> = std::env::args().collect();
    if args.len() >= 2 && args[1] == "compile-tier" {
        std::panic::set_hook(Box::new(|info| {
            let msg = info.to_string();
            if msg.contains("harness") || std::env::var("VH_DEBUG").is_ok() {
                eprintln!("{msg}");
            }
        }));
        std::process::exit(ctier::main(&args[2..]));
    }
    if args.len() >= 2 && args[1] == "derive-tier" {
        std::process::exit(dtier::main(&args[2..]));
    }
    if args.len() < 5 {
        eprintln!("usage: vharness <prop> <tier> <seed> <outdir> [--shards N] [--replay file]");
        std::process::exit(2);
    }
    let prop = args[1].as_str();
    let tier = args[2].as_str();
    let seed: u64 = args[3].parse().unwrap_or(0);
    let out = PathBuf::from(&args[4]);
    let mut nshards = 16usize;
    let mut replay: Option<PathBuf> = None;
    let mut i = 5;
    while i < args.len() {
        match args[i].as_str() {
            "--shards" => {
                nshards = args[i + 1].parse().unwrap();
                i += 2;
            }
            "--replay" => {
                replay = Some(PathBuf::from(&args[i + 1]));
                i += 2;
            }
            _ => i += 1,
        }
    }
    // silence panic messages of the implementation under test (they are observed, not printed)
    // (panics whose message starts with `harness:` are bugs of the harness itself and are shown)
    std::panic::set_hook(Box::new(|info| {
        let msg = info.to_string();
        if msg.contains("harness") || std::env::var("VH_DEBUG").is_ok() {
            eprintln!("{msg}");
        }
    }));
    util::inflight_init(&out);
    let meta = match prop {
        "C12" => c12::generate(tier, seed, &out, nshards, replay.as_deref()),
        "C14" => c14::generate(tier, seed, &out, nshards, replay.as_deref()),
        "C15" => c15::generate(tier, seed, &out, nshards, replay.as_deref()),
        "C11" => c11::generate(tier, seed, &out, nshards, replay.as_deref()),
        "C16" => c16::generate(tier, seed, &out, nshards, replay.as_deref()),
        "C05" => c05::generate(tier, seed, &out, nshards, replay.as_deref()),
        "C03" | "C04" => dd::generate(prop, tier, seed, &out, nshards, replay.as_deref()),
        "C13" => c13::generate(tier, seed, &out, nshards, replay.as_deref()),
        "TG" | "C01" | "C02" | "C06" | "C07" | "C08" | "C09" | "C10" | "C17" | "C18" => {
            tg::generate(prop, tier, seed, &out, nshards, replay.as_deref())
        }
        _ => {
            eprintln!("unknown property {prop}");
            std::process::exit(2);
        }
    };
    util::inflight_done();
    std::fs::write(out.join("meta.json"), serde_json::to_string_pretty(&meta.to_json()).unwrap()).unwrap();
    println!("generated {} cases for {}", meta.evaluations, prop);
}
