//! C16: the settings builders over arbitrary call histories.
//!
//! A case = a probe registry (a random program of `reggen`) + a history of 1-30
//! public builder calls (`OpSpec`) mixing valid and invalid arguments.  Observed:
//!  (1) the outcome of every call,
//!  (2) `TypeSubstitutes::iter()` as a list sorted by source segments (source
//!      segments, target path tokens) and `contains` for a set of probe paths,
//!  (3) the effect on the probe registry: module tokens and `resolve_type_path`
//!      tokens for every id (`tg::observe_tg`) - this is where the parameter
//!      mapping (`PassThrough` / `Specified`) becomes visible - and, read back
//!      from the generated module with `syn` (in this harness, not in Coq), the
//!      derive keys and attribute keys of every generated item.
use crate::coq::{cbool, clist, cstr, Shards};
use crate::reggen::{self, GenCfg};
use crate::rng::Rng;
use crate::sets::{self, ctokens, OpSpec, SettingsSpec};
use crate::tg::{item_paths, observe_tg};
use crate::tok::flatten_of;
use crate::util::Meta;
use quote::quote;
use scale_info::PortableRegistry;
use scale_typegen::typegen::ir::ToTokensWithSettings;
use scale_typegen::TypeGenerator;
use serde_json::{json, Value};
use std::collections::{BTreeMap, HashSet};
use std::path::Path;

pub const HEADER: &str = "From Coq Require Import List NArith String.\nFrom V Require Import Base.Util Base.Result Model.Registry Model.Settings Model.Subst Model.Builders Corr.RunTG Corr.RunC16.\nImport ListNotations. Open Scope string_scope.";
pub const EVALS: [(&str, &str); 11] = [
    ("corr_ops", "c16_corr_ops"),
    ("corr_subs", "c16_corr_subs"),
    ("corr_probe", "c16_corr_probe"),
    ("prop_rule_for_key", "prop_rule_for_key"),
    ("prop_rejections", "prop_rejections"),
    ("prop_derives_union", "prop_derives_union"),
    ("hyp_some_rejected", "hyp_some_rejected"),
    ("hyp_some_rule", "hyp_some_rule"),
    ("hyp_gen_ok", "hyp_gen_ok16"),
    ("hyp_recursive_reaches", "hyp_recursive_reaches"),
    ("hyp_overwritten", "hyp_overwritten"),
];

const DERIVES: [&str; 8] = [
    "Debug", "Clone", "::core::cmp::PartialEq", "Eq", "::codec::Encode", "::codec::Decode",
    "serde::Serialize", "::core::cmp::Ord",
];
const ATTRS: [&str; 5] = [
    "#[allow(dead_code)]", "#[serde(rename_all = \"camelCase\")]", "#[repr(C)]",
    "#[codec(crate = ::codec)]", "#[cfg_attr(feature = \"std\", derive(Hash))]",
];

/// generic suffixes of a *valid* source (all address the same rule as the bare path)
const SRC_OK: [&str; 8] = ["", "", "<A>", "<A, B>", "<B, C>", "<A, A>", "<T>", "<>"];
/// invalid sources: (suffix, expected kind is decided by the implementation, not here)
const SRC_BAD: [&str; 12] = [
    "(A)", "(A, B) -> C", "<Vec<A>>", "<::x::A>", "<'a>", "<3>", "<A, 3>", "<(A, B)>", "<[A; 2]>",
    "<<A as T>::B>", "<x::A>", "<A, B<C>>",
];
const TGT_OK: [&str; 16] = [
    "::ext::Subst", "crate::ext::Other", "::ext::deep::Path", "::ext::Gen<A>", "::ext::Gen<B, A>",
    "::ext::Wrap<::ext::Inner<A>, u8>", "::ext::Twice<A, A>", "::ext::Deep<::ext::L1<::ext::L2<B>>, A>",
    "::ext::Fixed<u32>", "::ext::Mod<A>::Assoc", "::ext::Qual<a::A, A>", "crate::Y<B>",
    "::ext::N<::z::W<(A, B)>, A>", "::ext::V<Vec<[A; 2]>>", "::ext::Three<C, B, A>", "::ext::P<T>",
];
const TGT_BAD: [&str; 14] = [
    "ext::Foo", "Foo", "ext::Gen<A>", "::x::Y(A)", "crate::Y(A, B)", "::x::Y<(A, B)>", "::x::Y<[A; 2]>",
    "::x::Y<&'static str>", "::x::Y<'a>", "::x::Y<3>", "::x::Y<A, 3>", "::x::Y<A, (B, C)>", "ext::Y(A)",
    "self::x::Y",
];

fn pick_some(rng: &mut Rng, pool: &[&str], min: usize, max: usize) -> Vec<String> {
    let n = rng.range(min, max);
    (0..n).map(|_| rng.pick(pool).to_string()).collect()
}

/// a source path text for base `p`
fn source(rng: &mut Rng, p: &[String], valid: bool) -> String {
    if !valid && rng.chance(1, 12) {
        return "@empty".into();
    }
    let mut s = p.join("::");
    if rng.chance(1, 6) {
        s = format!("::{s}");
    }
    if p.len() >= 2 && rng.chance(1, 10) {
        // generics on a non-final segment are ignored by the key
        let rest = p[1..].join("::");
        s = format!("{}<Z>::{}", p[0], rest);
    }
    let suf = if valid { *rng.pick(&SRC_OK) } else { *rng.pick(&SRC_BAD) };
    format!("{s}{suf}")
}

fn target(rng: &mut Rng, valid: bool) -> String {
    if !valid && rng.chance(1, 14) {
        return (*rng.pick(&["@empty", "::@empty"])).to_string();
    }
    if valid { rng.pick(&TGT_OK).to_string() } else { rng.pick(&TGT_BAD).to_string() }
}

fn sub_pair(rng: &mut Rng, bases: &[Vec<String>], pvalid: usize) -> (String, String) {
    let b = rng.pick(bases).clone();
    let (sv, tv) = if rng.chance(pvalid, 100) {
        (true, true)
    } else {
        match rng.below(3) {
            0 => (false, true),
            1 => (true, false),
            _ => (false, false),
        }
    };
    (source(rng, &b, sv), target(rng, tv))
}

fn derive_key(rng: &mut Rng, bases: &[Vec<String>]) -> String {
    let b = rng.pick(bases).join("::");
    match rng.below(12) {
        0 => format!("::{b}"),
        1 => format!("{b}<T>"),
        _ => b,
    }
}

pub fn rand_history(rng: &mut Rng, reg: &PortableRegistry, derive_heavy: bool) -> (Vec<OpSpec>, Vec<Vec<String>>) {
    let mut paths = item_paths(reg);
    rng.shuffle(&mut paths);
    // few bases => keys repeat often
    let nb = rng.range(1, 4);
    let mut bases: Vec<Vec<String>> = paths.into_iter().take(nb).collect();
    if bases.is_empty() || rng.chance(1, 3) {
        bases.push(vec!["zz".into(), "Unknown".into()]);
    }
    if rng.chance(1, 8) {
        bases.push(vec!["Solo".into()]);
    }
    let n = rng.range(1, 30);
    let mut ops: Vec<OpSpec> = vec![];
    let pvalid = *rng.pick(&[50usize, 70, 85, 100]);
    for _ in 0..n {
        if !ops.is_empty() && rng.chance(1, 7) {
            // repetition of an earlier call
            let o = rng.pick(&ops).clone();
            ops.push(o);
            continue;
        }
        let k = if derive_heavy { rng.below(9) } else { rng.below(16) };
        let op = match k {
            0 | 1 => OpSpec::DerivesAll(pick_some(rng, &DERIVES, 0, 3)),
            2 => OpSpec::AttrsAll(pick_some(rng, &ATTRS, 0, 2)),
            3 | 4 => OpSpec::DerivesFor(derive_key(rng, &bases), pick_some(rng, &DERIVES, 0, 3), false),
            5 | 6 => OpSpec::DerivesFor(derive_key(rng, &bases), pick_some(rng, &DERIVES, 0, 3), true),
            7 => OpSpec::AttrsFor(derive_key(rng, &bases), pick_some(rng, &ATTRS, 0, 2), rng.chance(1, 2)),
            8 | 9 | 10 | 11 => {
                let (s, t) = sub_pair(rng, &bases, pvalid);
                OpSpec::SubInsert(s, t)
            }
            12 | 13 => {
                let (s, t) = sub_pair(rng, &bases, pvalid);
                OpSpec::SubInsertIfAbsent(s, t)
            }
            _ => {
                let m = rng.range(0, 4);
                OpSpec::SubExtend((0..m).map(|_| sub_pair(rng, &bases, pvalid.max(70))).collect())
            }
        };
        ops.push(op);
    }
    (ops, bases)
}

/// the derive/attr calls of a history permuted among their own positions
pub fn permute_derive_ops(rng: &mut Rng, ops: &[OpSpec]) -> Vec<OpSpec> {
    let is_d = |o: &OpSpec| {
        matches!(o, OpSpec::DerivesAll(_) | OpSpec::AttrsAll(_) | OpSpec::DerivesFor(..) | OpSpec::AttrsFor(..))
    };
    let mut ds: Vec<OpSpec> = ops.iter().filter(|o| is_d(o)).cloned().collect();
    rng.shuffle(&mut ds);
    let mut it = ds.into_iter();
    ops.iter().map(|o| if is_d(o) { it.next().unwrap() } else { o.clone() }).collect()
}

pub fn probe_spec(ops: Vec<OpSpec>) -> SettingsSpec {
    SettingsSpec {
        root: "types".into(),
        docs: false,
        codec: false,
        alloc: None,
        compact: Some("::codec::Compact".into()),
        bits: Some("::bits::DecodedBits".into()),
        compact_as: None,
        ops,
    }
}

type ItemObs = (Vec<String>, Vec<String>, Vec<String>);

fn walk_items(prefix: &mut Vec<String>, items: &[syn::Item], out: &mut Vec<ItemObs>) {
    for it in items {
        let (ident, attrs) = match it {
            syn::Item::Struct(s) => (s.ident.to_string(), &s.attrs),
            syn::Item::Enum(e) => (e.ident.to_string(), &e.attrs),
            syn::Item::Mod(m) => {
                if let Some((_, inner)) = &m.content {
                    prefix.push(m.ident.to_string());
                    walk_items(prefix, inner, out);
                    prefix.pop();
                }
                continue;
            }
            _ => continue,
        };
        let mut ds = vec![];
        let mut ats = vec![];
        for a in attrs {
            if a.path().is_ident("derive") {
                let l = a
                    .parse_args_with(syn::punctuated::Punctuated::<syn::Path, syn::Token![,]>::parse_terminated)
                    .expect("harness: derive list");
                for p in l {
                    ds.push(quote!(#p).to_string());
                }
            } else {
                ats.push(quote!(#a).to_string());
            }
        }
        let mut p = prefix.clone();
        p.push(ident);
        out.push((p, ds, ats));
    }
}

/// per generated item (path below the root module): derive keys, attribute keys, in emitted order
pub fn observe_items(reg: &PortableRegistry, spec: &SettingsSpec) -> Vec<ItemObs> {
    let (settings, _) = sets::build(spec);
    let ts = std::panic::catch_unwind(|| {
        let g = TypeGenerator::new(reg, &settings);
        g.generate_types_mod().ok().map(|m| m.to_token_stream(&settings))
    });
    let mut out = vec![];
    if let Ok(Some(ts)) = ts {
        let m: syn::ItemMod = syn::parse2(ts).expect("harness: generated module parses");
        if let Some((_, items)) = &m.content {
            walk_items(&mut vec![], items, &mut out);
        }
    }
    out
}

fn cstrs(v: &[String]) -> String {
    clist(v.iter().map(|s| cstr(s)))
}

struct Ctx {
    shards: Shards,
    meta: Meta,
    seen: HashSet<String>,
    nontrivial: usize,
    kinds: BTreeMap<String, usize>,
    nops: [usize; 4],
}

fn push(ctx: &mut Ctx, stream: &str, rj: &Value, ops: &[OpSpec], extra_probes: &[Vec<String>]) {
    let reg = reggen::to_registry(rj);
    let spec = probe_spec(ops.to_vec());
    let o = observe_tg(&reg, &spec);
    let (settings, outs2) = sets::build(&spec);
    assert_eq!(o.outs, outs2, "harness: builders are deterministic");
    let mut subs: Vec<(Vec<String>, Vec<String>)> =
        settings.substitutes.iter().map(|(k, v)| (k.clone(), flatten_of(v.path()))).collect();
    subs.sort();
    // probe keys: every source key mentioned in the history, the stored keys, the empty path, extras
    let mut probes: Vec<Vec<String>> = vec![vec![], vec!["never".into(), "Used".into()]];
    for op in ops {
        let mut add = |s: &str| {
            let p = sets::path(s);
            let k: Vec<String> = p.segments.iter().map(|x| x.ident.to_string()).collect();
            let mut longer = k.clone();
            longer.push("X".into());
            probes.push(k);
            probes.push(longer);
        };
        match op {
            OpSpec::SubInsert(s, _) | OpSpec::SubInsertIfAbsent(s, _) => add(s),
            OpSpec::SubExtend(l) => l.iter().for_each(|(s, _)| add(s)),
            _ => {}
        }
    }
    probes.extend(extra_probes.iter().cloned());
    probes.sort();
    probes.dedup();
    let contains: Vec<(Vec<String>, bool)> =
        probes.iter().map(|p| (p.clone(), settings.substitutes.contains(p))).collect();
    let items = observe_items(&reg, &spec);

    for out in &o.outs {
        *ctx.kinds.entry(out.clone().unwrap_or_else(|| "Ok".into())).or_insert(0) += 1;
    }
    ctx.nops[match ops.len() { 0..=3 => 0, 4..=10 => 1, 11..=20 => 2, _ => 3 }] += 1;
    let term = format!(
        "(mk_c16 {} {} {} {} {} {} {} {})",
        crate::regprint::registry(&reg),
        sets::cspec(&spec),
        sets::coutcomes(&o.outs),
        clist(subs.iter().map(|(k, t)| format!("({}, {})", cstrs(k), ctokens(t)))),
        clist(contains.iter().map(|(k, b)| format!("({}, {})", cstrs(k), cbool(*b)))),
        o.gen.coq(|t| ctokens(t)),
        clist(o.paths.iter().map(|p| p.coq(|t| ctokens(t)))),
        clist(items.iter().map(|(p, d, a)| format!("({}, ({}, {}))", cstrs(p), cstrs(d), cstrs(a))))
    );
    let input = json!({"registry": rj, "ops": ops});
    let key = input.to_string();
    if ctx.seen.insert(key) && ops.len() >= 2 {
        ctx.nontrivial += 1;
    }
    let j = json!({"stream": stream, "input": input,
        "observed": {"outcomes": o.outs, "substitutes": subs.iter().map(|(k, t)| json!([k.join("::"), t.join(" ")])).collect::<Vec<_>>(),
                     "contains": contains.iter().filter(|(_, b)| *b).map(|(k, _)| k.join("::")).collect::<Vec<_>>(),
                     "generate": o.gen.json(|t| json!(t.join(" "))),
                     "paths": o.paths.iter().map(|p| p.json(|t| json!(t.join(" ")))).collect::<Vec<_>>(),
                     "items": items.iter().map(|(p, d, a)| json!({"path": p.join("::"), "derives": d, "attrs": a})).collect::<Vec<_>>()}});
    let i = ctx.shards.push(term, j.clone());
    ctx.meta.count(stream);
    if ctx.meta.samples.len() < 3 && (i % 41 == 7 || stream == "replay") && reg.types.len() <= 10 {
        ctx.meta.samples.push(j);
    }
}

/// a small fixed probe registry: generic items in nested modules + a root using them
pub fn fixed_probe() -> Value {
    use reggen::{Body, Def, FieldDef, Program, Src};
    let f = |name: &str, ty: Src| FieldDef { name: Some(name.into()), ty, compact_attr: false, docs: vec![], type_name: true };
    let p = |s: &[&str]| s.iter().map(|x| x.to_string()).collect::<Vec<_>>();
    let defs = vec![
        Def { path: p(&["a", "Foo"]), params: vec![("T".into(), false), ("U".into(), false)],
              body: Body::Struct(vec![f("x", Src::Param(0)), f("y", Src::Vec(Box::new(Src::Param(1))))]), docs: vec![] },
        Def { path: p(&["a", "Bar"]), params: vec![("T".into(), false)],
              body: Body::Enum(vec![("V0".into(), 0, vec![f("x", Src::Param(0))], vec![]), ("V1".into(), 1, vec![], vec![])]), docs: vec![] },
        Def { path: p(&["a", "b", "Baz"]), params: vec![], body: Body::Struct(vec![f("flag", Src::Prim("bool"))]), docs: vec![] },
        Def { path: p(&["c", "Wrap"]), params: vec![("T".into(), false)],
              body: Body::Struct(vec![f("inner", Src::Param(0)), f("baz", Src::App(2, vec![]))]), docs: vec![] },
        Def { path: p(&["rt", "Root"]), params: vec![],
              body: Body::Struct(vec![
                  f("foo", Src::App(0, vec![Src::Prim("u16"), Src::Prim("u64")])),
                  f("bar", Src::App(1, vec![Src::Prim("i8")])),
                  f("wrap", Src::App(3, vec![Src::App(1, vec![Src::Prim("i32")])])),
                  f("foo2", Src::App(0, vec![Src::App(2, vec![]), Src::Tuple(vec![Src::Prim("u8"), Src::Prim("char")])])),
              ]), docs: vec![] },
    ];
    let prog = Program { defs, roots: vec![Src::App(4, vec![])] };
    reggen::build(&prog).0
}

pub fn generate(tier: &str, seed: u64, out: &Path, nshards: usize, replay: Option<&Path>) -> Meta {
    let mut ctx = Ctx {
        shards: Shards::new(out, nshards, HEADER, "c16_case", &EVALS),
        meta: Meta::new("C16"),
        seen: HashSet::new(),
        nontrivial: 0,
        kinds: BTreeMap::new(),
        nops: [0; 4],
    };
    let mut rng = Rng::new(seed ^ 0xC16);
    if let Some(p) = replay {
        let v: Value = serde_json::from_str(&std::fs::read_to_string(p).unwrap()).unwrap();
        let input = if v.get("input").is_some() { v["input"].clone() } else { v };
        let ops: Vec<OpSpec> = serde_json::from_value(input["ops"].clone()).unwrap();
        push(&mut ctx, "replay", &input["registry"], &ops, &[]);
    } else {
        // corpus first
        let dir = crate::util::verif_dir().join("corpus").join("C16");
        if let Ok(rd) = std::fs::read_dir(dir) {
            let mut ps: Vec<_> = rd.filter_map(|e| e.ok()).map(|e| e.path()).collect();
            ps.sort();
            for p in ps.iter().filter(|p| p.extension().map(|e| e == "json").unwrap_or(false)) {
                let v: Value = serde_json::from_str(&std::fs::read_to_string(p).unwrap()).unwrap();
                let input = if v.get("input").is_some() { v["input"].clone() } else { v };
                if let Ok(ops) = serde_json::from_value::<Vec<OpSpec>>(input["ops"].clone()) {
                    push(&mut ctx, "corpus", &input["registry"], &ops, &[]);
                }
            }
        }
        let scale = if tier == "thorough" { 6 } else { 1 };
        let gcfg = GenCfg { max_defs: 5, allow_bits: false, docs: false, ..GenCfg::default() };
        let fixed = fixed_probe();
        let fixed_reg = reggen::to_registry(&fixed);
        for _ in 0..(150 * scale) {
            let (ops, bases) = rand_history(&mut rng, &fixed_reg, false);
            push(&mut ctx, "fixed-probe", &fixed, &ops, &bases);
        }
        for _ in 0..(200 * scale) {
            let p = reggen::rand_program(&mut rng, &gcfg);
            let (rj, _) = reggen::build(&p);
            let reg = reggen::to_registry(&rj);
            let (ops, bases) = rand_history(&mut rng, &reg, false);
            push(&mut ctx, "random-probe", &rj, &ops, &bases);
        }
        // derive registrations: a history and a permutation (with repetitions) of its derive calls
        for _ in 0..(60 * scale) {
            let (rj, reg) = if rng.chance(1, 2) {
                (fixed.clone(), reggen::to_registry(&fixed))
            } else {
                let p = reggen::rand_program(&mut rng, &gcfg);
                let (rj, _) = reggen::build(&p);
                let reg = reggen::to_registry(&rj);
                (rj, reg)
            };
            let (ops, bases) = rand_history(&mut rng, &reg, true);
            push(&mut ctx, "derive-history", &rj, &ops, &bases);
            let perm = permute_derive_ops(&mut rng, &ops);
            push(&mut ctx, "derive-history-permuted", &rj, &perm, &bases);
        }
    }
    ctx.meta.evaluations = ctx.shards.len();
    ctx.meta.distinct_nontrivial = ctx.nontrivial;
    ctx.meta.rule = "a probe registry (fixed 5-definition program or a random program) and a history of 1-30 builder calls \
        (global/specific/recursive derives and attributes with repeated, `::`-prefixed and generic keys and empty sets; insert / \
        insert-if-absent / extend of substitutes over few source keys with and without generics, valid and invalid source and \
        target forms, relative and empty paths); derive histories are also replayed with their derive calls permuted; \
        non-trivial = distinct (registry, history) with at least two calls".into();
    ctx.meta.extra = json!({"call_outcome_kinds": ctx.kinds, "history_length_histogram(1-3,4-10,11-20,21-30)": ctx.nops.to_vec()});
    ctx.shards.finish();
    ctx.meta
}
