//! Gallina printer for scale-info registries (Model/Registry.v).
use crate::coq::{clist, cn, copt, cstr};
use scale_info::{form::PortableForm, Field, PortableRegistry, Type, TypeDef, TypeDefPrimitive};

pub fn prim(p: &TypeDefPrimitive) -> &'static str {
    match p {
        TypeDefPrimitive::Bool => "PBool",
        TypeDefPrimitive::Char => "PChar",
        TypeDefPrimitive::Str => "PStr",
        TypeDefPrimitive::U8 => "PU8",
        TypeDefPrimitive::U16 => "PU16",
        TypeDefPrimitive::U32 => "PU32",
        TypeDefPrimitive::U64 => "PU64",
        TypeDefPrimitive::U128 => "PU128",
        TypeDefPrimitive::U256 => "PU256",
        TypeDefPrimitive::I8 => "PI8",
        TypeDefPrimitive::I16 => "PI16",
        TypeDefPrimitive::I32 => "PI32",
        TypeDefPrimitive::I64 => "PI64",
        TypeDefPrimitive::I128 => "PI128",
        TypeDefPrimitive::I256 => "PI256",
    }
}

pub fn strs(v: &[String]) -> String {
    clist(v.iter().map(|s| cstr(s)))
}

fn field(f: &Field<PortableForm>) -> String {
    format!(
        "(mk_field {} {} {} {})",
        copt(f.name.as_ref().map(|s| cstr(s))),
        cn(f.ty.id as u128),
        copt(f.type_name.as_ref().map(|s| cstr(s))),
        strs(&f.docs)
    )
}

fn fields(fs: &[Field<PortableForm>]) -> String {
    clist(fs.iter().map(field))
}

pub fn ty(t: &Type<PortableForm>) -> String {
    let def = match &t.type_def {
        TypeDef::Composite(c) => format!("(TDComposite {})", fields(&c.fields)),
        TypeDef::Variant(v) => format!(
            "(TDVariant {})",
            clist(v.variants.iter().map(|v| format!(
                "(mk_variant {} {} {} {})",
                cstr(&v.name),
                fields(&v.fields),
                cn(v.index as u128),
                strs(&v.docs)
            )))
        ),
        TypeDef::Sequence(s) => format!("(TDSequence {})", cn(s.type_param.id as u128)),
        TypeDef::Array(a) => format!("(TDArray {} {})", cn(a.len as u128), cn(a.type_param.id as u128)),
        TypeDef::Tuple(t) => format!("(TDTuple {})", clist(t.fields.iter().map(|f| cn(f.id as u128)))),
        TypeDef::Primitive(p) => format!("(TDPrimitive {})", prim(p)),
        TypeDef::Compact(c) => format!("(TDCompact {})", cn(c.type_param.id as u128)),
        TypeDef::BitSequence(b) => format!(
            "(TDBitSeq {} {})",
            cn(b.bit_store_type.id as u128),
            cn(b.bit_order_type.id as u128)
        ),
    };
    format!(
        "(mk_ty {} {} {} {})",
        strs(&t.path.segments),
        clist(t.type_params.iter().map(|p| format!(
            "(mk_tparam {} {})",
            cstr(&p.name),
            copt(p.ty.map(|x| cn(x.id as u128)))
        ))),
        def,
        strs(&t.docs)
    )
}

pub fn registry(r: &PortableRegistry) -> String {
    clist(r.types.iter().map(|e| format!("({}, {})", cn(e.id as u128), ty(&e.ty))))
}
