//! The ChaCha8 word stream handed to the Coq model (Model/RngWords.v), shared by C12 and C14.
//!
//! `words(seed, k)` = the first k results of `next_u32()` on `ChaCha8Rng::seed_from_u64(seed)`,
//! produced with the very crates (rand_chacha 0.3.1 / rand_core 0.6.4 / rand 0.8.5) the
//! implementation uses.  `probe` runs a script of typed draws on the real generator so that the
//! Coq model of rand's sampling code is compared directly (tag `corr_rng`).
use crate::coq::{clist, cn, cz};
use crate::rng::Rng as Mix;
use rand::seq::SliceRandom;
use rand::{Rng, RngCore, SeedableRng};
use rand_chacha::ChaCha8Rng;
use serde_json::{json, Value};

pub fn words(seed: u64, k: usize) -> Vec<u32> {
    let mut r = ChaCha8Rng::seed_from_u64(seed);
    (0..k).map(|_| r.next_u32()).collect()
}

pub fn coq_words(ws: &[u32]) -> String {
    clist(ws.iter().map(|w| cn(*w as u128)))
}

#[derive(Clone, Debug)]
pub enum Op {
    U8,
    U16,
    U32,
    U64,
    U128,
    I8,
    I16,
    I32,
    I64,
    I128,
    Bool,
    Bytes32,
    Choose(u32),
    RangeI32(i32, i32),
    RangeU32(u32, u32),
}

impl Op {
    pub fn coq(&self) -> String {
        match self {
            Op::U8 => "OpU8".into(),
            Op::U16 => "OpU16".into(),
            Op::U32 => "OpU32".into(),
            Op::U64 => "OpU64".into(),
            Op::U128 => "OpU128".into(),
            Op::I8 => "OpI8".into(),
            Op::I16 => "OpI16".into(),
            Op::I32 => "OpI32".into(),
            Op::I64 => "OpI64".into(),
            Op::I128 => "OpI128".into(),
            Op::Bool => "OpBool".into(),
            Op::Bytes32 => "OpBytes32".into(),
            Op::Choose(n) => format!("(OpChoose {})", cn(*n as u128)),
            Op::RangeI32(a, b) => format!("(OpRangeI32 {} {})", cz(*a as i128), cz(*b as i128)),
            Op::RangeU32(a, b) => format!("(OpRangeU32 {} {})", cn(*a as u128), cn(*b as u128)),
        }
    }
}

/// `slice.choose` on a real slice `[0, 1, .., n-1]`: the chosen element is the index
fn choose_index(r: &mut ChaCha8Rng, n: u32) -> i128 {
    let v: Vec<u32> = (0..n).collect();
    match v.choose(r) {
        None => -1,
        Some(x) => *x as i128,
    }
}

/// `choose` on a slice longer than 4096: the element reference of a ZST slice does not reveal the
/// index, so draw with a clone first via the identical public call `gen_range(0..n)` (what
/// `gen_index` executes for n <= u32::MAX), then advance the real generator by `choose` itself.
fn choose_index_long(r: &mut ChaCha8Rng, n: u32) -> i128 {
    let mut c = r.clone();
    let idx = c.gen_range(0..n);
    let z: Vec<()> = vec![(); n as usize];
    let _ = z.choose(r);
    assert_eq!(c.get_word_pos(), r.get_word_pos(), "harness: choose and gen_range consumed differently");
    idx as i128
}

pub fn run(r: &mut ChaCha8Rng, op: &Op) -> Vec<i128> {
    match op {
        Op::U8 => vec![r.gen::<u8>() as i128],
        Op::U16 => vec![r.gen::<u16>() as i128],
        Op::U32 => vec![r.gen::<u32>() as i128],
        Op::U64 => vec![r.gen::<u64>() as i128],
        Op::U128 => {
            // u128 does not fit i128: split below
            unreachable!("harness: U128 handled by run_big")
        }
        Op::I8 => vec![r.gen::<i8>() as i128],
        Op::I16 => vec![r.gen::<i16>() as i128],
        Op::I32 => vec![r.gen::<i32>() as i128],
        Op::I64 => vec![r.gen::<i64>() as i128],
        Op::I128 => vec![r.gen::<i128>()],
        Op::Bool => vec![r.gen::<bool>() as i128],
        Op::Bytes32 => {
            let b: [u8; 32] = r.gen();
            b.iter().map(|x| *x as i128).collect()
        }
        Op::Choose(n) => vec![if *n <= 4096 { choose_index(r, *n) } else { choose_index_long(r, *n) }],
        Op::RangeI32(a, b) => vec![r.gen_range(*a..*b) as i128],
        Op::RangeU32(a, b) => vec![r.gen_range(*a..*b) as i128],
    }
}

/// result of one op as a Gallina `list Z`
pub fn run_coq(r: &mut ChaCha8Rng, op: &Op) -> (String, Value) {
    if let Op::U128 = op {
        let x: u128 = r.gen();
        return (format!("[{}%Z]", x), json!([x.to_string()]));
    }
    let v = run(r, op);
    (clist(v.iter().map(|z| cz(*z))), json!(v.iter().map(|z| z.to_string()).collect::<Vec<_>>()))
}

pub fn rand_op(m: &mut Mix) -> Op {
    match m.below(22) {
        0 => Op::U8,
        1 => Op::U16,
        2 => Op::U32,
        3 => Op::U64,
        4 => Op::U128,
        5 => Op::I8,
        6 => Op::I16,
        7 => Op::I32,
        8 => Op::I64,
        9 => Op::I128,
        10 | 11 => Op::Bool,
        12 => Op::Bytes32,
        13 => Op::Choose(m.range(0, 9) as u32),
        14 => Op::Choose(*m.pick(&[4u32, 7, 1, 2, 3, 5, 255, 256, 257, 1000])),
        // ranges just above a power of two reject almost half of the words
        15 => Op::Choose((1u32 << m.range(1, 31)) + m.range(1, 3) as u32),
        16 => Op::Choose(m.next_u64() as u32 | 1),
        17 => Op::RangeI32(3, 7),
        18 => {
            let a = (m.next_u64() as i32) / 2;
            let d = 1 + (m.next_u64() % 100000) as i32;
            Op::RangeI32(a, a.saturating_add(d).max(a + 1))
        }
        19 => {
            let a = m.next_u64() as i32;
            let b = m.next_u64() as i32;
            if a < b { Op::RangeI32(a, b) } else if b < a { Op::RangeI32(b, a) } else { Op::RangeI32(3, 7) }
        }
        20 => {
            let a = m.next_u64() as u32;
            let b = m.next_u64() as u32;
            if a < b { Op::RangeU32(a, b) } else if b < a { Op::RangeU32(b, a) } else { Op::RangeU32(0, 1) }
        }
        _ => Op::RangeU32(0, 1 + (m.next_u64() % 10) as u32),
    }
}

pub struct Probe {
    pub seed: u64,
    pub words: Vec<u32>,
    pub ops: Vec<Op>,
    pub results_coq: String,
    pub results_json: Value,
}

/// run a random script on the real generator; the words handed to the model are exactly the ones
/// consumed (measured with `get_word_pos`), so the model must also consume *all* of them
pub fn probe(m: &mut Mix, seed: u64, nops: usize) -> Probe {
    let mut r = ChaCha8Rng::seed_from_u64(seed);
    let ops: Vec<Op> = (0..nops).map(|_| rand_op(m)).collect();
    let mut rc = vec![];
    let mut rj = vec![];
    for o in &ops {
        let (c, j) = run_coq(&mut r, o);
        rc.push(c);
        rj.push(j);
    }
    let used = r.get_word_pos() as usize;
    Probe { seed, words: words(seed, used), ops, results_coq: clist(rc), results_json: Value::Array(rj) }
}
