//! Printing of Gallina terms and sharded case files.
use std::fmt::Write as _;
use std::fs;
use std::io::Write as _;
use std::path::{Path, PathBuf};

/// A Coq string literal (bytes of the UTF-8 encoding; `"` doubled).
pub fn cstr(s: &str) -> String {
    let mut o = String::with_capacity(s.len() + 2);
    o.push('"');
    for ch in s.chars() {
        if ch == '"' {
            o.push_str("\"\"");
        } else {
            o.push(ch);
        }
    }
    o.push('"');
    o
}

pub fn cbool(b: bool) -> &'static str {
    if b {
        "true"
    } else {
        "false"
    }
}

pub fn cn(n: u128) -> String {
    format!("{}%N", n)
}

pub fn cz(n: i128) -> String {
    if n < 0 {
        format!("({})%Z", n)
    } else {
        format!("{}%Z", n)
    }
}

pub fn clist<I: IntoIterator<Item = String>>(items: I) -> String {
    let mut o = String::from("[");
    let mut first = true;
    for it in items {
        if !first {
            o.push_str("; ");
        }
        first = false;
        o.push_str(&it);
    }
    o.push(']');
    o
}

pub fn copt(x: Option<String>) -> String {
    match x {
        None => "None".to_string(),
        Some(s) => format!("(Some {})", s),
    }
}

pub fn cpair(a: &str, b: &str) -> String {
    format!("({}, {})", a, b)
}

/// Writes cases round-robin into `nshards` Coq files `shard_<k>.v`.
/// Global case index i lives in shard i % nshards at local index i / nshards.
pub struct Shards {
    dir: PathBuf,
    nshards: usize,
    bufs: Vec<Vec<String>>,
    count: usize,
    header: String,
    case_ty: String,
    evals: Vec<(String, String)>,
    jsonl: fs::File,
}

impl Shards {
    /// `header`: the Require/Import lines; `case_ty`: Coq type of a case;
    /// `evals`: (tag, Coq function of type case -> bool) evaluated with `failing`.
    pub fn new(dir: &Path, nshards: usize, header: &str, case_ty: &str, evals: &[(&str, &str)]) -> Self {
        fs::create_dir_all(dir).unwrap();
        for e in fs::read_dir(dir).unwrap() {
            let p = e.unwrap().path();
            let n = p.file_name().unwrap().to_string_lossy().to_string();
            if n.starts_with("shard_") || n == "cases.jsonl" || n == "meta.json" {
                let _ = fs::remove_file(p);
            }
        }
        Shards {
            dir: dir.to_path_buf(),
            nshards,
            bufs: vec![Vec::new(); nshards],
            count: 0,
            header: header.to_string(),
            case_ty: case_ty.to_string(),
            evals: evals.iter().map(|(a, b)| (a.to_string(), b.to_string())).collect(),
            jsonl: fs::File::create(dir.join("cases.jsonl")).unwrap(),
        }
    }

    pub fn push(&mut self, coq_term: String, json: serde_json::Value) -> usize {
        let i = self.count;
        self.bufs[i % self.nshards].push(coq_term);
        writeln!(self.jsonl, "{}", json).unwrap();
        self.count += 1;
        i
    }

    pub fn len(&self) -> usize {
        self.count
    }

    pub fn finish(self) {
        for (k, buf) in self.bufs.iter().enumerate() {
            if buf.is_empty() {
                continue;
            }
            let mut s = String::new();
            s.push_str(&self.header);
            s.push('\n');
            // one Definition per case keeps error locations usable and avoids
            // one gigantic list term
            for (j, c) in buf.iter().enumerate() {
                let _ = writeln!(s, "Definition c{} : {} := {}.", j, self.case_ty, c);
            }
            // a list literal of several 10^4 elements overflows coqc's stack
            // (8 MB default): long case lists are built from chunks
            const CHUNK: usize = 1000;
            if buf.len() <= CHUNK {
                let _ = write!(s, "Definition cases : list ({}) := [", self.case_ty);
                for j in 0..buf.len() {
                    if j > 0 {
                        s.push_str("; ");
                    }
                    let _ = write!(s, "c{}", j);
                }
                s.push_str("].\n");
            } else {
                let nchunks = (buf.len() + CHUNK - 1) / CHUNK;
                for k in 0..nchunks {
                    let _ = write!(s, "Definition cases_chunk_{} : list ({}) := [", k, self.case_ty);
                    for j in (k * CHUNK)..((k + 1) * CHUNK).min(buf.len()) {
                        if j > k * CHUNK {
                            s.push_str("; ");
                        }
                        let _ = write!(s, "c{}", j);
                    }
                    s.push_str("].\n");
                }
                let _ = write!(s, "Definition cases : list ({}) := List.concat [", self.case_ty);
                for k in 0..nchunks {
                    if k > 0 {
                        s.push_str("; ");
                    }
                    let _ = write!(s, "cases_chunk_{}", k);
                }
                s.push_str("].\n");
            }
            // corr_* / prop_* report the FAILING indices, hyp_* / known_* the HOLDING ones
            for (tag, f) in &self.evals {
                if tag.starts_with("hyp_") || tag.starts_with("known_") {
                    let _ = writeln!(
                        s,
                        "Eval vm_compute in (\"{}\"%string, failing (fun c => negb (({}) c)) cases).",
                        tag, f
                    );
                } else {
                    let _ = writeln!(
                        s,
                        "Eval vm_compute in (\"{}\"%string, failing ({}) cases).",
                        tag, f
                    );
                }
            }
            fs::write(self.dir.join(format!("shard_{}.v", k)), s).unwrap();
        }
    }
}
