//! C13: type descriptions.  A case = (registry, [(id, observed unformatted,
//! observed formatted)]) for a group of ids of one registry.
//!
//! Streams: fixed programs (every recursion shape of the property text),
//! random programs (reggen), random mutually recursive programs, raw JSON
//! registries with arbitrary field cycles, a malformed stream (missing ids,
//! mixed fields, ids != positions) and the Polkadot registry.
//!
//! Every generated registry keeps the graph of edges that the implementation
//! follows WITHOUT its in-progress marker acyclic (element types, generic
//! arguments, children of path-less types): a cycle there is unbounded
//! recursion = stack overflow, which would take the harness process down.
use crate::coq::{clist, cn, cstr, Shards};
use crate::reggen::{self, Body, Def, FieldDef, GenCfg, Program, Src};
use crate::rng::Rng;
use crate::util::{polkadot_registry, Meta};
use scale_info::{PortableRegistry, TypeDef};
use scale_typegen_description::type_description;
use serde_json::{json, Value};
use std::collections::HashSet;
use std::path::Path;

pub const HEADER: &str = "From Coq Require Import List NArith String.\nFrom V Require Import Base.Util Base.Result Model.Registry Corr.RunC13.\nImport ListNotations. Open Scope string_scope.";
pub const EVALS: [(&str, &str); 11] = [
    ("hyp_wf", "hyp_wf"),
    ("hyp_lockstep", "hyp_lockstep"),
    ("hyp_cyclic", "hyp_cyclic"),
    ("hyp_replayed", "hyp_replayed"),
    ("hyp_full_text", "hyp_full_text"),
    ("corr_desc", "corr_desc"),
    ("corr_fmt", "corr_fmt"),
    ("prop_ws", "prop_ws"),
    ("prop_fmt_tokens", "prop_fmt_tokens"),
    ("prop_lockstep", "prop_lockstep"),
    ("prop_expanded", "prop_expanded"),
];

/// texts longer than this (in chars) are given to Coq as (length, digest) only
const FULL_MAX: usize = 2500;
/// ids per case
const GROUP: usize = 10;

#[derive(Clone, Debug, PartialEq)]
pub enum O {
    Ok(String),
    Err(String),
    Panic,
}

pub fn observe(reg: &PortableRegistry, id: u32, format: bool) -> O {
    crate::util::inflight(&serde_json::json!({"ids": [id], "format": format}));
    match std::panic::catch_unwind(std::panic::AssertUnwindSafe(|| type_description(id, reg, format))) {
        Ok(Ok(s)) => O::Ok(s),
        Ok(Err(e)) => O::Err(e.to_string()),
        Err(_) => O::Panic,
    }
}

/// digest over code points: h := (h * 33 + cp) mod 2^32, from 5381
pub fn digest(s: &str) -> (u64, u64) {
    let mut h: u64 = 5381;
    let mut n = 0u64;
    for ch in s.chars() {
        h = (h.wrapping_mul(33).wrapping_add(ch as u64)) & 0xFFFF_FFFF;
        n += 1;
    }
    (n, h)
}

fn coq_obs(o: &O, full: bool) -> String {
    match o {
        O::Ok(s) => {
            if full {
                format!("(OOk {})", cstr(s))
            } else {
                let (n, h) = digest(s);
                format!("(ODigest {} {})", cn(n as u128), cn(h as u128))
            }
        }
        O::Err(m) => format!("(OErr {})", cstr(m)),
        O::Panic => "OPanic".into(),
    }
}

fn json_obs(o: &O, full: bool) -> Value {
    match o {
        O::Ok(s) => {
            if full {
                json!({"ok": s})
            } else {
                let (n, h) = digest(s);
                json!({"ok_digest": {"chars": n, "h": h}})
            }
        }
        O::Err(m) => json!({"err": m}),
        O::Panic => json!("panic"),
    }
}

// ---------------------------------------------------------------------------
// fixed programs

fn fd(name: Option<&str>, ty: Src) -> FieldDef {
    FieldDef { name: name.map(|s| s.to_string()), ty, compact_attr: false, docs: vec![], type_name: true }
}
fn sdef(path: &[&str], params: &[(&str, bool)], fields: Vec<FieldDef>) -> Def {
    Def {
        path: path.iter().map(|s| s.to_string()).collect(),
        params: params.iter().map(|(n, s)| (n.to_string(), *s)).collect(),
        body: Body::Struct(fields),
        docs: vec![],
    }
}
fn edef(path: &[&str], params: &[(&str, bool)], vs: Vec<(&str, Vec<FieldDef>)>) -> Def {
    Def {
        path: path.iter().map(|s| s.to_string()).collect(),
        params: params.iter().map(|(n, s)| (n.to_string(), *s)).collect(),
        body: Body::Enum(vs.into_iter().enumerate().map(|(i, (n, f))| (n.to_string(), i as u8, f, vec![])).collect()),
        docs: vec![],
    }
}
fn bx(s: Src) -> Box<Src> {
    Box::new(s)
}
fn p(s: &'static str) -> Src {
    Src::Prim(s)
}
fn app(d: usize, a: Vec<Src>) -> Src {
    Src::App(d, a)
}

pub fn fixed_programs() -> Vec<(&'static str, Program)> {
    let mut v = vec![];
    // direct self recursion through Box
    v.push((
        "list-box",
        Program {
            defs: vec![edef(
                &["a", "List"],
                &[("T", false)],
                vec![("Nil", vec![]), ("Cons", vec![fd(None, Src::Param(0)), fd(None, Src::BoxT(bx(app(0, vec![Src::Param(0)]))))])],
            )],
            roots: vec![app(0, vec![p("u32")]), app(0, vec![Src::Tuple(vec![p("u8")])])],
        },
    ));
    // self recursion through Vec and Option<Box<_>>
    v.push((
        "tree-vec-option",
        Program {
            defs: vec![sdef(
                &["a", "b", "Tree"],
                &[],
                vec![
                    fd(Some("children"), Src::Vec(bx(app(0, vec![])))),
                    fd(Some("parent"), Src::Opt(bx(Src::BoxT(bx(app(0, vec![])))))),
                    fd(Some("v"), p("u8")),
                    fd(Some("me"), Src::BoxT(bx(app(0, vec![])))),
                ],
            )],
            roots: vec![app(0, vec![]), Src::Vec(bx(app(0, vec![]))), Src::Opt(bx(app(0, vec![])))],
        },
    ));
    // mutual recursion through containers, shared unnamed ids
    v.push((
        "mutual-containers",
        Program {
            defs: vec![
                sdef(&["m", "A"], &[], vec![fd(Some("b"), Src::Vec(bx(app(1, vec![])))), fd(Some("n"), p("u16"))]),
                sdef(
                    &["m", "B"],
                    &[],
                    vec![
                        fd(Some("a"), Src::Opt(bx(app(0, vec![])))),
                        fd(Some("t"), Src::Tuple(vec![Src::Vec(bx(app(1, vec![]))), Src::Vec(bx(app(1, vec![])))])),
                        fd(Some("arr"), Src::Array(3, bx(Src::Vec(bx(app(0, vec![])))))),
                    ],
                ),
            ],
            roots: vec![
                app(0, vec![]),
                app(1, vec![]),
                Src::Tuple(vec![Src::Vec(bx(app(1, vec![]))), Src::Vec(bx(app(1, vec![])))]),
                Src::Vec(bx(app(0, vec![]))),
            ],
        },
    ));
    // mutual recursion through generics
    v.push((
        "mutual-generics",
        Program {
            defs: vec![
                sdef(
                    &["g", "G"],
                    &[("T", false)],
                    vec![fd(Some("x"), Src::Param(0)), fd(Some("h"), Src::Vec(bx(app(1, vec![Src::Param(0)]))))],
                ),
                edef(
                    &["g", "H"],
                    &[("U", false)],
                    vec![
                        ("Leaf", vec![fd(None, Src::Param(0))]),
                        ("Node", vec![fd(None, Src::BoxT(bx(app(0, vec![Src::Param(0)]))))]),
                        ("Pair", vec![fd(Some("l"), app(0, vec![Src::Param(0)])), fd(Some("r"), app(0, vec![p("u8")]))]),
                    ],
                ),
            ],
            roots: vec![app(0, vec![p("u16")]), app(1, vec![Src::Tuple(vec![p("u8")])]), Src::Res(bx(app(0, vec![p("bool")])), bx(app(1, vec![p("bool")])))],
        },
    ));
    // one shared unnamed id used twice: the expansion of B2 is replayed
    v.push((
        "shared-unnamed",
        Program {
            defs: vec![
                sdef(
                    &["s", "S"],
                    &[],
                    vec![
                        fd(Some("p"), Src::Tuple(vec![Src::Vec(bx(app(1, vec![]))), Src::Vec(bx(app(1, vec![])))])),
                        fd(Some("q"), Src::Vec(bx(app(1, vec![])))),
                        fd(Some("r"), Src::Tuple(vec![Src::Vec(bx(app(1, vec![]))), Src::Vec(bx(app(1, vec![])))])),
                    ],
                ),
                sdef(&["s", "B2"], &[], vec![fd(Some("v"), p("u8"))]),
            ],
            roots: vec![
                Src::Tuple(vec![Src::Vec(bx(app(1, vec![]))), Src::Vec(bx(app(1, vec![])))]),
                app(0, vec![]),
                Src::Array(2, bx(Src::Tuple(vec![Src::Vec(bx(app(1, vec![]))), Src::Vec(bx(app(1, vec![])))]))),
            ],
        },
    ));
    // skipped and unused type parameters
    v.push((
        "skipped-params",
        Program {
            defs: vec![
                sdef(&["k", "Sk"], &[("T", false), ("U", true)], vec![fd(Some("x"), Src::Param(0))]),
                sdef(&["k", "AllSkipped"], &[("T", true), ("U", true)], vec![fd(None, p("u8"))]),
                edef(&["k", "Ph"], &[("T", false), ("M", true), ("V", false)], vec![("A", vec![fd(None, Src::Param(2))]), ("B", vec![])]),
            ],
            roots: vec![
                app(0, vec![p("u8"), p("u16")]),
                app(1, vec![p("u8"), p("u16")]),
                app(2, vec![p("u8"), p("u16"), app(0, vec![p("i8"), p("u16")])]),
                Src::Vec(bx(app(0, vec![Src::Vec(bx(p("u8"))), p("u16")]))),
            ],
        },
    ));
    // bit sequences, compact (attribute and wrapper), arrays
    v.push((
        "bits-compact-arrays",
        Program {
            defs: vec![sdef(
                &["q", "Bits"],
                &[],
                vec![
                    fd(Some("a"), Src::BitVec("u8", true)),
                    fd(Some("b"), Src::BitVec("u64", false)),
                    fd(Some("c"), Src::Tuple(vec![Src::BitVec("u8", true)])),
                    FieldDef { name: Some("d".into()), ty: p("u32"), compact_attr: true, docs: vec![], type_name: true },
                    fd(Some("e"), Src::Compact(bx(p("u128")))),
                    fd(Some("f"), Src::Array(4294967295, bx(p("u8")))),
                    fd(Some("g"), Src::Array(0, bx(Src::Array(32, bx(p("char")))))),
                ],
            )],
            roots: vec![app(0, vec![]), Src::BitVec("u16", true), Src::Compact(bx(p("u8")))],
        },
    ));
    // tuples of arity 0, 1, 2 and nesting of 1-tuples
    v.push((
        "tuples",
        Program {
            defs: vec![sdef(
                &["t", "Tup"],
                &[],
                vec![
                    fd(None, Src::Tuple(vec![])),
                    fd(None, Src::Tuple(vec![p("u8")])),
                    fd(None, Src::Tuple(vec![Src::Tuple(vec![p("u8")])])),
                    fd(None, Src::Tuple(vec![p("u8"), p("u16")])),
                    fd(None, Src::Tuple(vec![Src::Tuple(vec![]), Src::Tuple(vec![Src::Tuple(vec![])])])),
                ],
            )],
            roots: vec![app(0, vec![]), Src::Tuple(vec![app(0, vec![])]), Src::Opt(bx(Src::Tuple(vec![])))],
        },
    ));
    // empty struct / enum, field-less variants, unit-like forms, every primitive
    v.push((
        "empties-prims",
        Program {
            defs: vec![
                sdef(&["e", "Unit"], &[], vec![]),
                edef(&["e", "Never"], &[], vec![]),
                edef(
                    &["e", "Mixed"],
                    &[],
                    vec![
                        ("A", vec![]),
                        ("B", vec![fd(None, app(0, vec![]))]),
                        ("C", vec![fd(Some("n"), app(1, vec![])), fd(Some("u"), Src::Tuple(vec![]))]),
                        ("D", vec![fd(None, Src::Tuple(vec![]))]),
                    ],
                ),
                sdef(&["e", "Prims"], &[], reggen::PRIMS.iter().map(|q| fd(None, Src::Prim(q))).collect()),
            ],
            roots: vec![app(0, vec![]), app(1, vec![]), app(2, vec![]), app(3, vec![])],
        },
    ));
    // deep nesting of anonymous wrappers, boxed fields inside containers
    let mut deep = p("u8");
    for i in 0..14 {
        deep = match i % 5 {
            0 => Src::Vec(bx(deep)),
            1 => Src::Array(i as u32 + 1, bx(deep)),
            2 => Src::Opt(bx(deep)),
            3 => Src::Tuple(vec![deep, Src::Compact(bx(p("u32")))]),
            _ => Src::Tuple(vec![deep]),
        };
    }
    v.push((
        "deep",
        Program {
            defs: vec![sdef(
                &["d", "Deep"],
                &[("T", false)],
                vec![
                    fd(Some("d"), deep.clone()),
                    fd(Some("bv"), Src::Vec(bx(Src::BoxT(bx(Src::Param(0)))))),
                    fd(Some("m"), Src::BTreeMap(bx(p("u8")), bx(Src::BoxT(bx(app(0, vec![Src::Param(0)])))))),
                    fd(Some("c"), Src::Cow(bx(p("str")))),
                    fd(Some("r"), Src::Range(bx(p("u64")))),
                ],
            )],
            roots: vec![app(0, vec![p("i16")]), deep, Src::BTreeSet(bx(app(0, vec![p("i16")])))],
        },
    ));
    v
}

// ---------------------------------------------------------------------------
// random mutually recursive programs: bodies may refer to every definition;
// arguments of such references are parameters or primitives only, so the set
// of instantiations stays finite.

fn mutual_type(rng: &mut Rng, defs: &[Def], nparams: usize, depth: usize) -> Src {
    let leaf = |rng: &mut Rng| {
        if nparams > 0 && rng.chance(1, 2) {
            Src::Param(rng.below(nparams))
        } else {
            Src::Prim(*rng.pick(&["u8", "u32", "bool", "str", "i64"]))
        }
    };
    if depth >= 3 || rng.chance(1, 4) {
        return leaf(rng);
    }
    match rng.below(12) {
        0 | 1 => Src::Vec(bx(mutual_type(rng, defs, nparams, depth + 1))),
        2 => Src::Array(rng.range(0, 5) as u32, bx(mutual_type(rng, defs, nparams, depth + 1))),
        3 | 4 => {
            let n = rng.below(4);
            Src::Tuple((0..n).map(|_| mutual_type(rng, defs, nparams, depth + 1)).collect())
        }
        5 => Src::Opt(bx(mutual_type(rng, defs, nparams, depth + 1))),
        6 => Src::BoxT(bx(mutual_type(rng, defs, nparams, depth + 1))),
        7 => Src::BitVec(*rng.pick(&["u8", "u32"]), rng.chance(1, 2)),
        _ => {
            let d = rng.below(defs.len());
            let args = (0..defs[d].params.len()).map(|_| leaf(rng)).collect();
            Src::App(d, args)
        }
    }
}

fn mutual_fields(rng: &mut Rng, defs: &[Def], np: usize) -> Vec<FieldDef> {
    let n = rng.below(4);
    let named = rng.chance(1, 2);
    (0..n)
        .map(|i| FieldDef {
            name: if named { Some(format!("f{}", i)) } else { None },
            ty: mutual_type(rng, defs, np, 0),
            compact_attr: false,
            docs: vec![],
            type_name: !rng.chance(1, 5),
        })
        .collect()
}

pub fn mutual_program(rng: &mut Rng) -> Program {
    let nd = rng.range(2, 5);
    let mut defs: Vec<Def> = (0..nd)
        .map(|i| {
            let np = rng.below(3);
            Def {
                path: vec![rng.pick(&["m", "n"]).to_string(), format!("{}{}", rng.pick(&["Node", "Msg", "Ev", "Foo"]), if rng.chance(1, 3) { String::new() } else { i.to_string() })],
                params: (0..np).map(|k| (["T", "U"][k].to_string(), rng.chance(1, 6))).collect(),
                body: Body::Struct(vec![]),
                docs: vec![],
            }
        })
        .collect();
    for i in 0..nd {
        let np = defs[i].params.len();
        let body = if rng.chance(1, 2) {
            Body::Struct(mutual_fields(rng, &defs, np))
        } else {
            let nv = rng.below(4);
            Body::Enum((0..nv).map(|k| (format!("V{}", k), k as u8, mutual_fields(rng, &defs, np), vec![])).collect())
        };
        defs[i].body = body;
    }
    let nr = rng.range(1, 3);
    let roots = (0..nr)
        .map(|_| {
            let d = rng.below(nd);
            let args = (0..defs[d].params.len()).map(|_| reggen::rand_arg(rng, 1)).collect();
            Src::App(d, args)
        })
        .collect();
    Program { defs, roots }
}

// ---------------------------------------------------------------------------
// raw registries: arbitrary field cycles, built directly as scale-info JSON

pub struct RawCfg {
    pub max_types: usize,
    /// inject one fault: 0 none, 1 missing field id, 2 missing parameter id,
    /// 3 missing element id, 4 mixed fields, 5 ids != positions
    pub fault: usize,
}

pub fn raw_registry(rng: &mut Rng, cfg: &RawCfg) -> Value {
    let n = rng.range(1, cfg.max_types);
    // rank = position in a random permutation; unprotected edges go to lower ranks only
    let mut rank: Vec<usize> = (0..n).collect();
    rng.shuffle(&mut rank);
    let lower = |i: usize| -> Vec<usize> { (0..n).filter(|j| rank[*j] < rank[i]).collect() };
    let prims = ["bool", "char", "str", "u8", "u16", "u32", "u64", "u128", "u256", "i8", "i16", "i32", "i64", "i128", "i256"];
    let mut types = vec![];
    for i in 0..n {
        let low = lower(i);
        let any = |rng: &mut Rng| rng.below(n) as u32;
        let fields = |rng: &mut Rng, pool: Option<&Vec<usize>>| -> Value {
            let k = rng.below(4);
            let named = rng.chance(1, 2);
            let mut out = vec![];
            for j in 0..k {
                let t = match pool {
                    None => any(rng),
                    Some(l) => *rng.pick(l) as u32,
                };
                let mut o = json!({"type": t, "docs": []});
                if named {
                    o["name"] = json!(format!("{}{}", rng.pick(&["x", "next", "who"]), j));
                }
                match rng.below(5) {
                    0 => o["typeName"] = json!("Box<T>"),
                    1 => o["typeName"] = json!("Vec<Box<Self>>"),
                    2 => o["typeName"] = json!("Boxed"),
                    3 => o["typeName"] = json!("T"),
                    _ => {}
                }
                out.push(o);
            }
            Value::Array(out)
        };
        let path = |rng: &mut Rng| -> Vec<String> {
            let name = format!("{}{}", rng.pick(&["Foo", "Bar", "Node"]), if rng.chance(1, 4) { String::new() } else { i.to_string() });
            match rng.below(3) {
                0 => vec![name],
                1 => vec!["a".into(), name],
                _ => vec!["a".into(), "b".into(), name],
            }
        };
        let params = |rng: &mut Rng| -> Value {
            let k = rng.below(3);
            Value::Array(
                (0..k)
                    .map(|j| {
                        let pn = ["T", "U"][j];
                        if low.is_empty() || rng.chance(1, 4) {
                            json!({"name": pn})
                        } else {
                            json!({"name": pn, "type": *rng.pick(&low) as u32})
                        }
                    })
                    .collect(),
            )
        };
        let kind = rng.below(20);
        let ty = if kind < 8 {
            json!({"path": path(rng), "params": params(rng), "def": {"composite": {"fields": fields(rng, None)}}, "docs": []})
        } else if kind < 11 {
            let nv = rng.below(4);
            let vs: Vec<Value> = (0..nv).map(|k| json!({"name": format!("V{}", k), "index": k, "fields": fields(rng, None), "docs": []})).collect();
            json!({"path": path(rng), "params": params(rng), "def": {"variant": {"variants": vs}}, "docs": []})
        } else if low.is_empty() || kind == 11 {
            json!({"def": {"primitive": *rng.pick(&prims)}})
        } else if kind < 14 {
            json!({"def": {"sequence": {"type": *rng.pick(&low)}}})
        } else if kind == 14 {
            json!({"def": {"array": {"len": rng.below(5), "type": *rng.pick(&low)}}})
        } else if kind < 17 {
            let k = rng.below(4);
            json!({"def": {"tuple": (0..k).map(|_| *rng.pick(&low)).collect::<Vec<_>>()}})
        } else if kind == 17 {
            json!({"def": {"compact": {"type": *rng.pick(&low)}}})
        } else if kind == 18 {
            json!({"def": {"bitsequence": {"bit_store_type": *rng.pick(&low), "bit_order_type": *rng.pick(&low)}}})
        } else if rng.chance(1, 2) {
            // a composite without a path: printed as `_` in names, expanded inline with `struct `
            json!({"params": params(rng), "def": {"composite": {"fields": fields(rng, Some(&low))}}, "docs": []})
        } else {
            // a sequence / tuple WITH a path ("named" for the transformer)
            if rng.chance(1, 2) {
                json!({"path": path(rng), "def": {"sequence": {"type": *rng.pick(&low)}}})
            } else {
                json!({"path": path(rng), "def": {"tuple": [*rng.pick(&low), *rng.pick(&low)]}})
            }
        };
        types.push(json!({"id": i, "type": ty}));
    }
    // faults
    let missing = (n + rng.below(3)) as u32;
    match cfg.fault {
        1 | 4 => {
            // first composite: one more field
            for t in types.iter_mut() {
                if let Some(fs) = t.pointer_mut("/type/def/composite/fields").and_then(|x| x.as_array_mut()) {
                    if cfg.fault == 1 {
                        let named = fs.first().map(|f| f.get("name").is_some()).unwrap_or(false);
                        let mut o = json!({"type": missing, "docs": []});
                        if named {
                            o["name"] = json!("gone");
                        }
                        fs.push(o);
                    } else {
                        let named = fs.first().map(|f| f.get("name").is_some()).unwrap_or(false);
                        let mut o = json!({"type": 0, "docs": []});
                        if !named {
                            o["name"] = json!("odd");
                        }
                        if fs.is_empty() {
                            fs.push(json!({"type": 0, "docs": [], "name": "first"}));
                            fs.push(json!({"type": 0, "docs": []}));
                        } else {
                            fs.push(o);
                        }
                    }
                    break;
                }
            }
        }
        2 => {
            for t in types.iter_mut() {
                if t.pointer("/type/path").is_some() && t.pointer("/type/def/composite").is_some() {
                    t["type"]["params"] = json!([{"name": "T", "type": missing}]);
                    break;
                }
            }
        }
        3 => {
            for t in types.iter_mut() {
                if t.pointer("/type/def/sequence").is_some() {
                    t["type"]["def"]["sequence"]["type"] = json!(missing);
                    break;
                }
                if let Some(es) = t.pointer_mut("/type/def/tuple").and_then(|x| x.as_array_mut()) {
                    es.push(json!(missing));
                    break;
                }
            }
        }
        5 => {
            let mut ids: Vec<usize> = (0..n).collect();
            rng.shuffle(&mut ids);
            for (t, i) in types.iter_mut().zip(ids) {
                t["id"] = json!(i + rng.below(2) * 7);
            }
        }
        _ => {}
    }
    json!({"types": types})
}

// ---------------------------------------------------------------------------

struct Ctx {
    shards: Shards,
    meta: Meta,
    seen: HashSet<(u64, u32)>,
    nontrivial: usize,
    outcomes: [usize; 3],
    size_hist: [usize; 6],
    digested: usize,
    max_chars: usize,
    ids_total: usize,
}

fn hash_str(s: &str) -> u64 {
    let mut h: u64 = 0xcbf29ce484222325;
    for b in s.bytes() {
        h ^= b as u64;
        h = h.wrapping_mul(0x100000001b3);
    }
    h
}

impl Ctx {
    /// observe the given ids of one registry and push them in groups
    fn push_registry(&mut self, stream: &str, reg: &PortableRegistry, reg_json: Value, ids: &[u32], group: usize) {
        crate::util::inflight_ctx(&serde_json::json!({"registry": reg_json}));
        let reg_coq = crate::regprint::registry(reg);
        let rh = hash_str(&reg_coq);
        for chunk in ids.chunks(group.max(1)) {
            let mut items = vec![];
            let mut jitems = vec![];
            for &id in chunk {
                let u = observe(reg, id, false);
                let f = observe(reg, id, true);
                self.ids_total += 1;
                self.outcomes[match &u {
                    O::Ok(_) => 0,
                    O::Err(_) => 1,
                    O::Panic => 2,
                }] += 1;
                let (full_u, full_f) = match (&u, &f) {
                    (O::Ok(a), O::Ok(b)) => {
                        let n = a.chars().count();
                        self.max_chars = self.max_chars.max(n);
                        self.size_hist[match n {
                            0..=15 => 0,
                            16..=63 => 1,
                            64..=255 => 2,
                            256..=1023 => 3,
                            1024..=4095 => 4,
                            _ => 5,
                        }] += 1;
                        let full = n <= FULL_MAX && b.chars().count() <= 6 * FULL_MAX;
                        (full, full)
                    }
                    _ => (true, true),
                };
                if !full_u {
                    self.digested += 1;
                }
                let nontrivial = reg
                    .types
                    .get(id as usize)
                    .map(|t| !matches!(t.ty.type_def, TypeDef::Primitive(_)))
                    .unwrap_or(false);
                if nontrivial && self.seen.insert((rh, id)) {
                    self.nontrivial += 1;
                }
                items.push(format!("({}, {}, {})", cn(id as u128), coq_obs(&u, full_u), coq_obs(&f, full_f)));
                jitems.push(json!({"id": id, "unformatted": json_obs(&u, full_u), "formatted": json_obs(&f, full_f)}));
            }
            let term = format!("({}, {})", reg_coq, clist(items));
            let j = json!({"stream": stream, "registry": reg_json, "ids": chunk, "observed": jitems,
                           "input": {"registry": reg_json, "ids": chunk}});
            let i = self.shards.push(term, j.clone());
            self.meta.count(stream);
            if self.meta.samples.len() < 4 && (i % 53 == 7 || stream == "replay") && reg.types.len() < 30 {
                self.meta.samples.push(j);
            }
        }
    }

    fn push_json(&mut self, stream: &str, v: Value, extra_ids: &[u32]) {
        let reg = reggen::to_registry(&v);
        let mut ids: Vec<u32> = (0..reg.types.len() as u32).collect();
        ids.extend_from_slice(extra_ids);
        self.push_registry(stream, &reg, v, &ids, GROUP);
    }
}

pub fn generate(tier: &str, seed: u64, out: &Path, nshards: usize, replay: Option<&Path>) -> Meta {
    let mut rng = Rng::new(seed ^ 0xC13);
    let mut cx = Ctx {
        shards: Shards::new(out, nshards, HEADER, "case", &EVALS),
        meta: Meta::new("C13"),
        seen: HashSet::new(),
        nontrivial: 0,
        outcomes: [0; 3],
        size_hist: [0; 6],
        digested: 0,
        max_chars: 0,
        ids_total: 0,
    };
    let thorough = tier == "thorough";

    if let Some(pth) = replay {
        let v: Value = serde_json::from_str(&std::fs::read_to_string(pth).unwrap()).unwrap();
        let c = if v.get("case").is_some() { v["case"].clone() } else { v.clone() };
        let ids: Vec<u32> = c["ids"].as_array().map(|a| a.iter().map(|x| x.as_u64().unwrap() as u32).collect()).unwrap_or_default();
        if c["registry"].as_str() == Some("polkadot") {
            let reg = polkadot_registry();
            cx.push_registry("replay", &reg, json!("polkadot"), &ids, ids.len());
        } else {
            let reg = reggen::to_registry(&c["registry"]);
            cx.push_registry("replay", &reg, c["registry"].clone(), &ids, ids.len());
        }
    } else {
        // corpus: corpus/C13/*.json = {"registry": <scale-info json>, "ids": [..]}
        let dir = crate::util::verif_dir().join("corpus").join("C13");
        if let Ok(rd) = std::fs::read_dir(dir) {
            let mut ps: Vec<_> = rd.filter_map(|e| e.ok()).map(|e| e.path()).collect();
            ps.sort();
            for pth in ps {
                if let Ok(t) = std::fs::read_to_string(&pth) {
                    if let Ok(j) = serde_json::from_str::<Value>(&t) {
                        if j.get("registry").is_some() {
                            let reg = reggen::to_registry(&j["registry"]);
                            let ids: Vec<u32> = j["ids"]
                                .as_array()
                                .map(|a| a.iter().map(|x| x.as_u64().unwrap() as u32).collect())
                                .unwrap_or_else(|| (0..reg.types.len() as u32).collect());
                            cx.push_registry("corpus", &reg, j["registry"].clone(), &ids, GROUP);
                        }
                    }
                }
            }
        }
        // fixed programs: every id
        for (_name, prog) in fixed_programs() {
            let (v, _) = reggen::build(&prog);
            cx.push_json("fixed", v, &[]);
        }
        let scale = if thorough { 20 } else { 1 };
        // random programs (reggen)
        for k in 0..(70 * scale) {
            let cfg = GenCfg { max_defs: if k % 7 == 0 { 10 } else { 5 }, no_type_name_pct: 15, ..GenCfg::default() };
            let prog = reggen::rand_program(&mut rng, &cfg);
            let (v, _) = reggen::build(&prog);
            cx.push_json("program", v, &[]);
        }
        // mutual recursion
        for _ in 0..(60 * scale) {
            let prog = mutual_program(&mut rng);
            let (v, _) = reggen::build(&prog);
            if v["types"].as_array().map(|a| a.len()).unwrap_or(0) <= 60 {
                cx.push_json("mutual", v, &[]);
            }
        }
        // raw field cycles
        for k in 0..(150 * scale) {
            let v = raw_registry(&mut rng, &RawCfg { max_types: if k % 5 == 0 { 14 } else { 8 }, fault: 0 });
            cx.push_json("raw-cycles", v, &[]);
        }
        // malformed
        for k in 0..(40 * scale) {
            let v = raw_registry(&mut rng, &RawCfg { max_types: 7, fault: 1 + k % 5 });
            let n = v["types"].as_array().unwrap().len() as u32;
            cx.push_json("malformed", v, &[n, n + 1 + rng.below(9) as u32]);
        }
        // Polkadot
        let reg = polkadot_registry();
        let n = reg.types.len();
        if thorough {
            // all ids, 16 groups (round robin so that the big ones spread over the shards)
            for g in 0..nshards {
                let ids: Vec<u32> = (0..n as u32).filter(|i| (*i as usize) % nshards == g).collect();
                cx.push_registry("polkadot", &reg, json!("polkadot"), &ids, ids.len());
            }
        } else {
            let mut ids: Vec<u32> = (0..40).map(|_| rng.below(n) as u32).collect();
            ids.sort();
            ids.dedup();
            let per = (ids.len() + 3) / 4;
            cx.push_registry("polkadot", &reg, json!("polkadot"), &ids, per);
        }
    }
    let mut meta = cx.meta;
    meta.evaluations = cx.ids_total;
    meta.distinct_nontrivial = cx.nontrivial;
    meta.rule = "one evaluation = one (registry, type id) pair, described unformatted and formatted; cases group up to 10 ids of one registry. non-trivial = distinct (registry, id) whose type is not a primitive".into();
    meta.extra = json!({
        "cases": cx.shards.len(),
        "outcomes(ok,err,panic)": cx.outcomes.to_vec(),
        "unformatted_chars_histogram(<16,<64,<256,<1024,<4096,more)": cx.size_hist.to_vec(),
        "compared_by_digest_only": cx.digested,
        "max_chars": cx.max_chars,
    });
    cx.shards.finish();
    meta
}
