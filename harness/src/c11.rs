//! C11: settings validation against a registry and the similar-path query.
//!
//! A case = a registry (random program of `reggen`) + a settings history mixing
//! known and unknown paths in specific / recursive / substitute positions.
//! Observed: `validate_substitutes_and_derives_against_registry` canonicalised
//! (hash-ordered lists sorted: error entries by path token string resp. source
//! segments, the sets inside by token string) and `similar_type_paths_in_registry`
//! for a set of query paths (result as segment lists, in the returned order).
use crate::coq::{clist, cstr, Shards};
use crate::reggen::{self, GenCfg};
use crate::rng::Rng;
use crate::sets::{self, ctokens, OpSpec, SettingsSpec};
use crate::tok::flatten_of;
use crate::util::Meta;
use quote::quote;
use scale_info::PortableRegistry;
use scale_typegen::typegen::validation::{
    similar_type_paths_in_registry, validate_substitutes_and_derives_against_registry,
};
use serde_json::{json, Value};
use std::collections::{BTreeMap, BTreeSet, HashSet};
use std::path::Path;

pub const HEADER: &str = "From Coq Require Import List NArith String.\nFrom V Require Import Base.Util Base.Result Model.Registry Model.Settings Model.Subst Model.Builders Corr.RunC11.\nImport ListNotations. Open Scope string_scope.";
pub const EVALS: [(&str, &str); 9] = [
    ("corr_validate", "corr_validate"),
    ("corr_similar", "corr_similar"),
    ("prop_validate_iff", "prop_validate_iff"),
    ("prop_error_exact", "prop_error_exact"),
    ("prop_similar", "prop_similar"),
    ("hyp_invalid", "hyp_invalid"),
    ("hyp_multi_unknown", "hyp_multi_unknown"),
    ("hyp_merged_unknown", "hyp_merged_unknown"),
    ("hyp_similar_nonempty", "hyp_similar_nonempty"),
];

const DERIVES: [&str; 6] = ["Debug", "Clone", "::core::cmp::PartialEq", "Eq", "::codec::Encode", "serde::Serialize"];
const ATTRS: [&str; 4] =
    ["#[allow(dead_code)]", "#[serde(rename_all = \"camelCase\")]", "#[repr(C)]", "#[codec(crate = ::codec)]"];
const UNKNOWN: [&str; 8] =
    ["a::Unknown", "nope::Missing", "zz::Q", "Foo", "a::b", "a", "rt::deep::er::Nope", "Optional"];
const TARGETS: [&str; 5] = ["::ext::Subst", "crate::ext::Other", "::ext::Gen<A>", "::ext::Wrap<::ext::Inner<A>, u8>", "::ext::Two<A, B>"];

#[derive(Debug)]
pub enum VObs {
    Ok,
    Err(Vec<(String, Vec<String>)>, Vec<(String, Vec<String>)>, Vec<(Vec<String>, Vec<String>)>),
    Panic,
}

fn all_paths(reg: &PortableRegistry) -> Vec<Vec<String>> {
    let mut seen = BTreeSet::new();
    let mut v = vec![];
    for t in &reg.types {
        let p = &t.ty.path.segments;
        if !p.is_empty() && seen.insert(p.clone()) {
            v.push(p.clone());
        }
    }
    v
}

fn pick_some(rng: &mut Rng, pool: &[&str], min: usize, max: usize) -> Vec<String> {
    let n = rng.range(min, max);
    (0..n).map(|_| rng.pick(pool).to_string()).collect()
}

fn decorate(rng: &mut Rng, p: String) -> String {
    match rng.below(10) {
        0 => format!("::{p}"),
        1 => format!("{p}<T>"),
        2 => format!("::{p}<A, B>"),
        _ => p,
    }
}

pub fn rand_history(rng: &mut Rng, reg: &PortableRegistry) -> Vec<OpSpec> {
    let paths = all_paths(reg);
    let punknown = *rng.pick(&[0usize, 20, 40, 70]);
    // a few keys reused within the history (same path specifically and recursively)
    let nk = rng.range(1, 5);
    let keys: Vec<String> = (0..nk)
        .map(|_| {
            let base = if paths.is_empty() || rng.chance(punknown, 100) {
                rng.pick(&UNKNOWN).to_string()
            } else {
                rng.pick(&paths).join("::")
            };
            decorate(rng, base)
        })
        .collect();
    let n = rng.range(0, 14);
    let mut ops = vec![];
    for _ in 0..n {
        let k = rng.pick(&keys).clone();
        ops.push(match rng.below(12) {
            0 => OpSpec::DerivesAll(pick_some(rng, &DERIVES, 0, 2)),
            1 => OpSpec::AttrsAll(pick_some(rng, &ATTRS, 0, 2)),
            2 | 3 => OpSpec::DerivesFor(k, pick_some(rng, &DERIVES, 0, 3), false),
            4 | 5 => OpSpec::DerivesFor(k, pick_some(rng, &DERIVES, 0, 3), true),
            6 => OpSpec::AttrsFor(k, pick_some(rng, &ATTRS, 0, 2), false),
            7 => OpSpec::AttrsFor(k, pick_some(rng, &ATTRS, 0, 2), true),
            8 | 9 => {
                // substitute sources: generics / `::` of the key text are legal source forms
                let src = if k.contains("<T>") { k.replace("<T>", "<A>") } else { k };
                OpSpec::SubInsert(src, rng.pick(&TARGETS).to_string())
            }
            10 => OpSpec::SubInsertIfAbsent(k.replace("<T>", ""), rng.pick(&TARGETS).to_string()),
            _ => {
                let m = rng.range(1, 3);
                OpSpec::SubExtend(
                    (0..m)
                        .map(|_| {
                            let base = if paths.is_empty() || rng.chance(punknown, 100) {
                                rng.pick(&UNKNOWN).to_string()
                            } else {
                                rng.pick(&paths).join("::")
                            };
                            (base, rng.pick(&TARGETS).to_string())
                        })
                        .collect(),
                )
            }
        });
    }
    ops
}

pub fn queries(rng: &mut Rng, reg: &PortableRegistry) -> Vec<String> {
    let paths = all_paths(reg);
    let mut q: Vec<String> = vec!["@empty".into(), "a::Nope".into(), "Nope".into(), "Option".into()];
    for _ in 0..4 {
        if paths.is_empty() {
            break;
        }
        let p = rng.pick(&paths).clone();
        let last = p.last().unwrap().clone();
        q.push(match rng.below(6) {
            0 => p.join("::"),
            1 => last,
            2 => format!("x::y::{last}"),
            3 => format!("::types::{last}<T>"),
            4 => format!("{}::Other", p.join("::")),
            _ => {
                // the namespace only (its last segment is a module name)
                if p.len() >= 2 { p[..p.len() - 1].join("::") } else { p.join("::") }
            }
        });
    }
    q
}

pub fn observe_validate(reg: &PortableRegistry, ops: &[OpSpec]) -> VObs {
    let spec = SettingsSpec { ops: ops.to_vec(), ..SettingsSpec::default() };
    let (settings, _) = sets::build(&spec);
    let r = std::panic::catch_unwind(|| {
        validate_substitutes_and_derives_against_registry(&settings.substitutes, &settings.derives, reg)
    });
    match r {
        Err(_) => VObs::Panic,
        Ok(Ok(())) => VObs::Ok,
        Ok(Err(e)) => {
            let mut ds: Vec<(String, Vec<String>)> = e
                .derives_for_unknown_types
                .iter()
                .map(|(p, set)| {
                    let mut v: Vec<String> = set.iter().map(|d| quote!(#d).to_string()).collect();
                    v.sort();
                    (quote!(#p).to_string(), v)
                })
                .collect();
            ds.sort();
            let mut ats: Vec<(String, Vec<String>)> = e
                .attributes_for_unknown_types
                .iter()
                .map(|(p, set)| {
                    let mut v: Vec<String> = set.iter().map(|d| quote!(#d).to_string()).collect();
                    v.sort();
                    (quote!(#p).to_string(), v)
                })
                .collect();
            ats.sort();
            let mut subs: Vec<(Vec<String>, Vec<String>)> = e
                .substitutes_for_unknown_types
                .iter()
                .map(|(p, t)| (p.segments.iter().map(|s| s.ident.to_string()).collect(), flatten_of(t)))
                .collect();
            subs.sort();
            VObs::Err(ds, ats, subs)
        }
    }
}

fn cstrs(v: &[String]) -> String {
    clist(v.iter().map(|s| cstr(s)))
}

fn ckeyed(l: &[(String, Vec<String>)]) -> String {
    clist(l.iter().map(|(k, v)| format!("({}, {})", cstr(k), cstrs(v))))
}

struct Ctx {
    shards: Shards,
    meta: Meta,
    seen: HashSet<String>,
    nontrivial: usize,
    kinds: BTreeMap<String, usize>,
}

fn push(ctx: &mut Ctx, stream: &str, rj: &Value, ops: &[OpSpec], qs: &[String]) {
    let reg = reggen::to_registry(rj);
    let v = observe_validate(&reg, ops);
    let sims: Vec<(Vec<String>, Option<Vec<Vec<String>>>)> = qs
        .iter()
        .map(|q| {
            let p = sets::path(q);
            let segs: Vec<String> = p.segments.iter().map(|s| s.ident.to_string()).collect();
            let r = std::panic::catch_unwind(|| similar_type_paths_in_registry(&reg, &p)).ok().map(|l| {
                l.iter().map(|p| p.segments.iter().map(|s| s.ident.to_string()).collect::<Vec<String>>()).collect()
            });
            (segs, r)
        })
        .collect();
    let (vterm, vjson, kind) = match &v {
        VObs::Ok => ("VOk".to_string(), json!("ok"), "Ok"),
        VObs::Panic => ("VPanic".to_string(), json!("panic"), "Panic"),
        VObs::Err(d, a, s) => (
            format!(
                "(VErr (mk_vobs {} {} {}))",
                ckeyed(d),
                ckeyed(a),
                clist(s.iter().map(|(k, t)| format!("({}, {})", cstrs(k), ctokens(t))))
            ),
            json!({"derives_for_unknown_types": d, "attributes_for_unknown_types": a,
                   "substitutes_for_unknown_types": s.iter().map(|(k, t)| json!([k.join("::"), t.join(" ")])).collect::<Vec<_>>()}),
            "Err",
        ),
    };
    *ctx.kinds.entry(kind.to_string()).or_insert(0) += 1;
    let term = format!(
        "(mk_c11 {} {} {} {})",
        crate::regprint::registry(&reg),
        clist(ops.iter().map(sets::cop)),
        vterm,
        clist(sims.iter().map(|(q, r)| format!(
            "({}, {})",
            cstrs(q),
            match r {
                None => "None".to_string(),
                Some(l) => format!("(Some {})", clist(l.iter().map(|p| cstrs(p)))),
            }
        )))
    );
    let input = json!({"registry": rj, "ops": ops, "queries": qs});
    if ctx.seen.insert(input.to_string()) && !ops.is_empty() {
        ctx.nontrivial += 1;
    }
    let j = json!({"stream": stream, "input": input, "observed": {"validate": vjson,
        "similar": sims.iter().map(|(q, r)| json!({"query": q.join("::"), "result": r.as_ref().map(|l| l.iter().map(|p| p.join("::")).collect::<Vec<_>>())})).collect::<Vec<_>>()}});
    let i = ctx.shards.push(term, j.clone());
    ctx.meta.count(stream);
    if ctx.meta.samples.len() < 3 && (i % 53 == 11 || stream == "replay") && reg.types.len() <= 12 {
        ctx.meta.samples.push(j);
    }
}

pub fn generate(tier: &str, seed: u64, out: &Path, nshards: usize, replay: Option<&Path>) -> Meta {
    let mut ctx = Ctx {
        shards: Shards::new(out, nshards, HEADER, "c11_case", &EVALS),
        meta: Meta::new("C11"),
        seen: HashSet::new(),
        nontrivial: 0,
        kinds: BTreeMap::new(),
    };
    let mut rng = Rng::new(seed ^ 0xC11);
    let read = |p: &Path| -> Option<(Value, Vec<OpSpec>, Vec<String>)> {
        let v: Value = serde_json::from_str(&std::fs::read_to_string(p).ok()?).ok()?;
        let input = if v.get("input").is_some() { v["input"].clone() } else { v };
        let ops: Vec<OpSpec> = serde_json::from_value(input["ops"].clone()).ok()?;
        let qs: Vec<String> = serde_json::from_value(input["queries"].clone()).unwrap_or_default();
        Some((input["registry"].clone(), ops, qs))
    };
    if let Some(p) = replay {
        let (rj, ops, qs) = read(p).expect("harness: replay file");
        push(&mut ctx, "replay", &rj, &ops, &qs);
    } else {
        let dir = crate::util::verif_dir().join("corpus").join("C11");
        if let Ok(rd) = std::fs::read_dir(dir) {
            let mut ps: Vec<_> = rd.filter_map(|e| e.ok()).map(|e| e.path()).collect();
            ps.sort();
            for p in ps.iter().filter(|p| p.extension().map(|e| e == "json").unwrap_or(false)) {
                if let Some((rj, ops, qs)) = read(p) {
                    push(&mut ctx, "corpus", &rj, &ops, &qs);
                }
            }
        }
        let scale = if tier == "thorough" { 6 } else { 1 };
        let gcfg = GenCfg::default();
        for _ in 0..(400 * scale) {
            let p = reggen::rand_program(&mut rng, &gcfg);
            let (rj, _) = reggen::build(&p);
            let reg = reggen::to_registry(&rj);
            let ops = rand_history(&mut rng, &reg);
            let qs = queries(&mut rng, &reg);
            push(&mut ctx, "random-program", &rj, &ops, &qs);
        }
        // the empty registry and a registry of builtin types only
        let empty = json!({"types": []});
        let reg = reggen::to_registry(&empty);
        for _ in 0..(10 * scale) {
            let ops = rand_history(&mut rng, &reg);
            push(&mut ctx, "empty-registry", &empty, &ops, &["@empty".into(), "a::Foo".into()]);
        }
    }
    ctx.meta.evaluations = ctx.shards.len();
    ctx.meta.distinct_nontrivial = ctx.nontrivial;
    ctx.meta.rule = "registries generated as programs + settings histories whose derive/attribute keys (specific and recursive, \
        the same key in both, `::`-prefixed or generic spellings, empty sets) and substitute sources mix registry paths (incl. \
        single-segment prelude paths) and up to five unknown paths; similar-path queries with the final identifier present / \
        absent / single segment / empty path; non-trivial = distinct input with a non-empty history".into();
    ctx.meta.extra = json!({"validate_outcome_kinds": ctx.kinds});
    ctx.shards.finish();
    ctx.meta
}
