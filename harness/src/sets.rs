//! Settings as a replayable specification: scalar switches + a history of the
//! public builder calls.  `build` runs the history against the real builders
//! (recording the outcome of every call); `coq_*` print it for the model.
use crate::coq::{cbool, clist, copt, cstr};
use crate::tok::{flatten, flatten_of};
use quote::{quote, ToTokens};
use scale_typegen::typegen::settings::substitutes::absolute_path;
use scale_typegen::typegen::settings::AllocCratePath;
use scale_typegen::TypeGeneratorSettings;
use serde::{Deserialize, Serialize};

#[derive(Clone, Debug, Serialize, Deserialize)]
pub enum OpSpec {
    DerivesAll(Vec<String>),
    AttrsAll(Vec<String>),
    DerivesFor(String, Vec<String>, bool),
    AttrsFor(String, Vec<String>, bool),
    SubInsert(String, String),
    SubInsertIfAbsent(String, String),
    SubExtend(Vec<(String, String)>),
}

#[derive(Clone, Debug, Serialize, Deserialize)]
pub struct SettingsSpec {
    pub root: String,
    pub docs: bool,
    pub codec: bool,
    pub alloc: Option<String>,
    pub compact: Option<String>,
    pub bits: Option<String>,
    pub compact_as: Option<String>,
    pub ops: Vec<OpSpec>,
}

impl Default for SettingsSpec {
    fn default() -> Self {
        SettingsSpec {
            root: "types".into(),
            docs: true,
            codec: true,
            alloc: None,
            compact: Some("::codec::Compact".into()),
            bits: Some("::bits::DecodedBits".into()),
            compact_as: Some("::codec::CompactAs".into()),
            ops: vec![],
        }
    }
}

/// A user path.  `syn::Path`'s own parser does not accept parenthesised generics
/// (`a::Foo(A)`), which a caller can nevertheless hand to the builders (e.g. taken
/// out of a parsed trait bound `Fn(A) -> B`); those are obtained through `syn::TraitBound`.
/// `@empty` / `::@empty` denote the hand-built path without segments
/// (only constructible programmatically; the `EmptySubstitutePath` error).
pub fn path(s: &str) -> syn::Path {
    match s.trim() {
        "@empty" => return syn::Path { leading_colon: None, segments: Default::default() },
        "::@empty" => {
            return syn::Path { leading_colon: Some(Default::default()), segments: Default::default() }
        }
        _ => {}
    }
    if let Ok(p) = syn::parse_str::<syn::Path>(s) {
        return p;
    }
    // syn 2 only parses `Foo(A) -> B` arguments in trait-bound position
    match syn::parse_str::<syn::TraitBound>(s) {
        Ok(tb) if tb.lifetimes.is_none() && matches!(tb.modifier, syn::TraitBoundModifier::None) => tb.path,
        Ok(_) => panic!("harness: bad path {s}: not a plain path"),
        Err(e) => panic!("harness: bad path {s}: {e}"),
    }
}
pub fn type_path(s: &str) -> syn::TypePath {
    syn::parse_str::<syn::TypePath>(s).unwrap_or_else(|e| panic!("harness: bad type path {s}: {e}"))
}
pub fn attr(s: &str) -> syn::Attribute {
    use syn::parse::Parser;
    let v = syn::Attribute::parse_outer.parse_str(s).unwrap_or_else(|e| panic!("harness: bad attr {s}: {e}"));
    v.into_iter().next().expect("one attribute")
}

/// outcome of one builder call: None = Ok, Some(kind)
pub type Outcome = Option<String>;

fn sub_err(e: scale_typegen::typegen::error::TypeSubstitutionError) -> String {
    format!("{:?}", e.kind)
}

pub fn build(spec: &SettingsSpec) -> (TypeGeneratorSettings, Vec<Outcome>) {
    let mut s = TypeGeneratorSettings::new().type_mod_name(&spec.root).should_gen_docs(spec.docs);
    if spec.codec {
        s = s.insert_codec_attributes();
    }
    if let Some(a) = &spec.alloc {
        s.alloc_crate_path = AllocCratePath::Custom(path(a));
    }
    if let Some(p) = &spec.compact {
        s = s.compact_type_path(path(p));
    }
    if let Some(p) = &spec.bits {
        s = s.decoded_bits_type_path(path(p));
    }
    if let Some(p) = &spec.compact_as {
        s = s.compact_as_type_path(path(p));
    }
    let mut outs = vec![];
    for op in &spec.ops {
        let o: Outcome = match op {
            OpSpec::DerivesAll(ds) => {
                s.derives.add_derives_for_all(ds.iter().map(|d| path(d)));
                None
            }
            OpSpec::AttrsAll(ats) => {
                s.derives.add_attributes_for_all(ats.iter().map(|a| attr(a)));
                None
            }
            OpSpec::DerivesFor(k, ds, rec) => {
                s.derives.add_derives_for(type_path(k), ds.iter().map(|d| path(d)), *rec);
                None
            }
            OpSpec::AttrsFor(k, ats, rec) => {
                s.derives.add_attributes_for(type_path(k), ats.iter().map(|a| attr(a)), *rec);
                None
            }
            OpSpec::SubInsert(src, tgt) => match absolute_path(path(tgt)) {
                Err(e) => Some(sub_err(e)),
                Ok(t) => s.substitutes.insert(path(src), t).err().map(sub_err),
            },
            OpSpec::SubInsertIfAbsent(src, tgt) => match absolute_path(path(tgt)) {
                Err(e) => Some(sub_err(e)),
                Ok(t) => s.substitutes.insert_if_not_exists(path(src), t).err().map(sub_err),
            },
            OpSpec::SubExtend(l) => {
                let mut v = vec![];
                let mut err = None;
                for (src, tgt) in l {
                    match absolute_path(path(tgt)) {
                        Ok(t) => v.push((path(src), t)),
                        Err(e) => {
                            err = Some(sub_err(e));
                            break;
                        }
                    }
                }
                match err {
                    Some(e) => Some(e),
                    None => s.substitutes.extend(v).err().map(sub_err),
                }
            }
        };
        outs.push(o);
    }
    (s, outs)
}

// ---------------------------------------------------------------------------
// Gallina printing

pub fn ctokens(t: &[String]) -> String {
    clist(t.iter().map(|s| cstr(s)))
}

pub fn ckt<T: ToTokens>(x: &T) -> String {
    let key = quote!(#x).to_string();
    format!("({}, {})", cstr(&key), ctokens(&flatten_of(x)))
}

pub fn ctykey(k: &syn::TypePath) -> String {
    let key = quote!(#k).to_string();
    let segs: Vec<String> = k.path.segments.iter().map(|s| s.ident.to_string()).collect();
    format!("(mk_tykey {} {} {})", cstr(&key), clist(segs.iter().map(|s| cstr(s))), ctokens(&flatten_of(k)))
}

fn cgtype(t: &syn::Type) -> String {
    match t {
        syn::Type::Path(tp) => format!(
            "(GTPath {} {} {})",
            cbool(tp.qself.is_some()),
            cbool(tp.path.leading_colon.is_some()),
            csegs(&tp.path)
        ),
        other => format!("(GTOther {})", ctokens(&flatten_of(other))),
    }
}

fn cgarg(a: &syn::GenericArgument) -> String {
    match a {
        syn::GenericArgument::Type(t) => format!("(GType {})", cgtype(t)),
        other => format!("(GOther {})", ctokens(&flatten_of(other))),
    }
}

fn cpargs(a: &syn::PathArguments) -> String {
    match a {
        syn::PathArguments::None => "ANone".into(),
        syn::PathArguments::AngleBracketed(ab) => format!("(AAngle {})", clist(ab.args.iter().map(cgarg))),
        syn::PathArguments::Parenthesized(p) => format!("(AParen {})", ctokens(&flatten(p.to_token_stream()))),
    }
}

fn csegs(p: &syn::Path) -> String {
    clist(p.segments.iter().map(|s| format!("({}, {})", cstr(&s.ident.to_string()), cpargs(&s.arguments))))
}

pub fn cspath(p: &syn::Path) -> String {
    format!("(mk_spath {} {})", cbool(p.leading_colon.is_some()), csegs(p))
}

pub fn cop(op: &OpSpec) -> String {
    match op {
        OpSpec::DerivesAll(ds) => format!("(OpDerivesAll {})", clist(ds.iter().map(|d| ckt(&path(d))))),
        OpSpec::AttrsAll(ats) => format!("(OpAttrsAll {})", clist(ats.iter().map(|a| ckt(&attr(a))))),
        OpSpec::DerivesFor(k, ds, rec) => format!(
            "(OpDerivesFor {} {} {})",
            ctykey(&type_path(k)),
            clist(ds.iter().map(|d| ckt(&path(d)))),
            cbool(*rec)
        ),
        OpSpec::AttrsFor(k, ats, rec) => format!(
            "(OpAttrsFor {} {} {})",
            ctykey(&type_path(k)),
            clist(ats.iter().map(|a| ckt(&attr(a)))),
            cbool(*rec)
        ),
        OpSpec::SubInsert(s, t) => format!("(OpSubInsert {} {})", cspath(&path(s)), cspath(&path(t))),
        OpSpec::SubInsertIfAbsent(s, t) => {
            format!("(OpSubInsertIfAbsent {} {})", cspath(&path(s)), cspath(&path(t)))
        }
        OpSpec::SubExtend(l) => format!(
            "(OpSubExtend {})",
            clist(l.iter().map(|(s, t)| format!("({}, {})", cspath(&path(s)), cspath(&path(t)))))
        ),
    }
}

pub fn cpath_tokens(s: &str) -> String {
    ctokens(&flatten_of(&path(s)))
}

/// `(mk_sspec root docs codec alloc compact bits compact_as ops)`
pub fn cspec(spec: &SettingsSpec) -> String {
    format!(
        "(mk_sspec {} {} {} {} {} {} {} {})",
        cstr(&spec.root),
        cbool(spec.docs),
        cbool(spec.codec),
        match &spec.alloc {
            None => "AStd".to_string(),
            Some(a) => format!("(ACustom {})", cpath_tokens(a)),
        },
        copt(spec.compact.as_ref().map(|p| cpath_tokens(p))),
        copt(spec.bits.as_ref().map(|p| cpath_tokens(p))),
        copt(spec.compact_as.as_ref().map(|p| ckt(&path(p)))),
        clist(spec.ops.iter().map(cop))
    )
}

pub fn coutcomes(outs: &[Outcome]) -> String {
    clist(outs.iter().map(|o| match o {
        None => "None".to_string(),
        Some(k) => format!("(Some S{})", k),
    }))
}
