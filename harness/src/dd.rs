//! C03 / C04 cases: same-path families through `ensure_unique_type_paths` and generation.
use crate::coq::{clist, cstr, Shards};
use crate::famgen;
use crate::obs::Obs;
use crate::reggen;
use crate::rng::Rng;
use crate::sets::SettingsSpec;
use crate::tg::{bit_order_subs, coq_case, observe_tg};
use crate::util::Meta;
use scale_info::PortableRegistry;
use scale_typegen::utils::ensure_unique_type_paths;
use serde_json::{json, Value};
use std::collections::{BTreeMap, HashSet};
use std::path::Path;

pub const HEADER: &str = "From Coq Require Import List NArith String.\nFrom V Require Import Base.Util Base.Result Model.Registry Model.Settings Model.Subst Model.Builders Corr.RunTG Corr.CheckTG Corr.RunDD.\nImport ListNotations. Open Scope string_scope.";

fn paths_of(r: &PortableRegistry) -> Vec<Vec<String>> {
    r.types.iter().map(|t| t.ty.path.segments.clone()).collect()
}

fn dedup(r: &PortableRegistry) -> (Obs<Vec<Vec<String>>>, Option<PortableRegistry>) {
    let mut c = r.clone();
    let res = std::panic::catch_unwind(move || {
        let e = ensure_unique_type_paths(&mut c);
        (e, c)
    });
    match res {
        Ok((Ok(()), c)) => (Obs::Ok(paths_of(&c)), Some(c)),
        Ok((Err(e), _)) => {
            let (k, n, m) = crate::obs::of_typegen_error(&e);
            (Obs::Err(k, n, m), None)
        }
        Err(_) => (Obs::Panic, None),
    }
}

fn cpaths(p: &Vec<Vec<String>>) -> String {
    clist(p.iter().map(|s| clist(s.iter().map(|x| cstr(x)))))
}

/// Registry of a program and, per entry, the label of the SOURCE definition it instantiates, for the
/// clause "instantiations of one generic definition still share one path" (C04).  A definition is
/// labelled only if it belongs to the class the clause quantifies over as far as the definition alone
/// decides it: no skipped parameter occurs in a field type (such "instantiations" are the
/// associated-type variants of C03 and legitimately differ in shape) and no parameter sits directly
/// under a transparent wrapper (Box<T>, Cow<T>).  Coincidences between arguments and concrete field
/// types are NOT excluded: splits caused by them are the recorded finding F18.
pub fn labelled(p: &reggen::Program) -> (Value, Vec<Option<usize>>) {
    use reggen::{Body, Src};
    fn bad(t: &Src, skipped: &[bool]) -> bool {
        match t {
            Src::Param(i) => skipped.get(*i).copied().unwrap_or(false),
            Src::BoxT(a) | Src::Cow(a) if matches!(**a, Src::Param(_)) => true,
            Src::App(_, a) | Src::Tuple(a) => a.iter().any(|x| bad(x, skipped)),
            Src::Vec(a) | Src::VecDeque(a) | Src::Array(_, a) | Src::Compact(a) | Src::BoxT(a) | Src::Opt(a)
            | Src::BTreeSet(a) | Src::Cow(a) | Src::Range(a) => bad(a, skipped),
            Src::Res(a, b) | Src::BTreeMap(a, b) => bad(a, skipped) || bad(b, skipped),
            Src::Prim(_) | Src::BitVec(..) => false,
        }
    }
    let in_class: Vec<bool> = p.defs.iter().map(|d| {
        let skipped: Vec<bool> = d.params.iter().map(|x| x.1).collect();
        let fields: Vec<&reggen::FieldDef> = match &d.body {
            Body::Struct(fs) => fs.iter().collect(),
            Body::Enum(vs) => vs.iter().flat_map(|v| v.2.iter()).collect(),
        };
        !fields.iter().any(|f| bad(&f.ty, &skipped))
    }).collect();
    let (rj, labels) = reggen::build_with_defs(p);
    (rj, labels.into_iter().map(|l| l.filter(|d| in_class[*d])).collect())
}

pub fn evals(prop: &str) -> Vec<(&'static str, &'static str)> {
    let mut v = vec![("corr_dedup", "corr_dedup"), ("corr_dd_tg", "corr_dd_tg"), ("corr_teq_trace", "corr_teq_trace_dd")];
    if prop == "C03" {
        v.extend([
            ("prop_no_conflation", "prop_no_conflation"),
            ("prop_dedup_no_conflation", "prop_dedup_no_conflation"),
            ("known_TE_arity", "known_TE_arity"),
            ("known_TE_unsound", "known_TE_unsound"),
            ("prop_family_outcome", "prop_family_outcome"),
            ("hyp_family_wf", "hyp_family_wf"),
            ("hyp_family_dup", "hyp_family_dup"),
        ]);
    } else {
        v.extend([
            ("prop_frame", "prop_frame"),
            ("prop_numbering", "prop_numbering"),
            ("prop_sufficient", "prop_sufficient"),
            ("prop_idempotent", "prop_idempotent"),
            ("known_suffix_collision", "known_suffix_collision"),
            ("known_not_fixpoint", "known_not_fixpoint"),
            ("corr_dd_labels", "corr_dd_labels"),
            ("prop_instantiations_stay", "prop_instantiations_stay"),
            ("known_F18_split", "known_F18_split"),
            ("known_F3_split", "known_F3_split"),
            ("hyp_instantiations", "hyp_instantiations"),
            ("hyp_instantiations_renamed", "hyp_instantiations_renamed"),
            ("hyp_instantiations_skel_differ", "hyp_instantiations_skel_differ"),
        ]);
    }
    v.extend([("hyp_has_family", "hyp_has_family"), ("hyp_renamed", "hyp_renamed"), ("hyp_gen_before_ok", "hyp_gen_before_ok")]);
    v
}

pub fn generate(prop: &str, tier: &str, seed: u64, out: &Path, nshards: usize, replay: Option<&Path>) -> Meta {
    let mut rng = Rng::new(seed ^ 0xdd);
    let ev = evals(prop);
    let mut shards = Shards::new(out, nshards, HEADER, "dd_case", &ev);
    let mut meta = Meta::new(prop);
    let mut seen: HashSet<String> = HashSet::new();
    let mut nontrivial = 0usize;
    let mut kinds: BTreeMap<String, usize> = BTreeMap::new();
    let mut exhaustive = json!(null);
    let mut push = |stream: &str, rj: &Value, labels: Option<&[Option<usize>]>, shards: &mut Shards, meta: &mut Meta| {
        let reg = reggen::to_registry(rj);
        // per entry: the source definition it instantiates (C04 "instantiations stay together")
        let defs: Vec<Option<usize>> = match labels {
            Some(l) => { assert_eq!(l.len(), reg.types.len(), "harness: one label per entry"); l.to_vec() }
            None => vec![None; reg.types.len()],
        };
        let mut spec = SettingsSpec::default();
        spec.ops.extend(bit_order_subs(&reg));
        let before = observe_tg(&reg, &spec);
        let (once, reg1) = dedup(&reg);
        let (twice, after) = match &reg1 {
            Some(r1) => {
                let (t, _) = dedup(r1);
                (t, Some((r1.clone(), observe_tg(r1, &spec))))
            }
            None => (once.clone(), None),
        };
        let term = format!(
            "(mk_dd {} {} {} {} {} {})",
            cstr(stream),
            coq_case(stream, &reg, &spec, &before, &None),
            once.coq(cpaths),
            twice.coq(cpaths),
            match &after {
                Some((r1, o)) => format!("(Some {})", coq_case(stream, r1, &spec, o, &None)),
                None => "None".into(),
            },
            clist(defs.iter().map(|d| crate::coq::copt(d.map(|x| crate::coq::cn(x as u128)))))
        );
        let k = format!(
            "before:{} after:{}",
            before.gen.kind(),
            after.as_ref().map(|(_, o)| o.gen.kind()).unwrap_or_else(|| "-".into())
        );
        *kinds.entry(k).or_insert(0) += 1;
        let fam = {
            let mut m: BTreeMap<Vec<String>, usize> = BTreeMap::new();
            for t in &reg.types {
                if t.ty.path.segments.len() >= 2 {
                    *m.entry(t.ty.path.segments.clone()).or_insert(0) += 1;
                }
            }
            m.values().any(|c| *c >= 2)
        };
        if seen.insert(rj.to_string()) && fam {
            nontrivial += 1;
        }
        let j = json!({"stream": stream, "input": {"registry": rj, "defs": defs},
                       "observed_paths_once": once.json(|p| json!(p.iter().map(|s| s.join("::")).collect::<Vec<_>>())),
                       "observed_paths_twice": twice.json(|p| json!(p.iter().map(|s| s.join("::")).collect::<Vec<_>>())),
                       "generate_before": before.gen.kind(),
                       "generate_after": after.as_ref().map(|(_, o)| o.gen.kind())});
        let i = shards.push(term, j.clone());
        meta.count(stream);
        if meta.samples.len() < 3 && i % 41 == 7 {
            meta.samples.push(j);
        }
    };

    if let Some(p) = replay {
        let v: Value = serde_json::from_str(&std::fs::read_to_string(p).unwrap()).unwrap();
        let input = if v.get("input").is_some() { v["input"].clone() } else { v };
        let labels: Option<Vec<Option<usize>>> = input.get("defs").and_then(|d| d.as_array()).map(|a| {
            a.iter().map(|x| x.as_u64().map(|n| n as usize)).collect()
        });
        push("replay", &input["registry"], labels.as_deref(), &mut shards, &mut meta);
    } else {
        // recorded witnesses first
        let dir = crate::util::verif_dir().join("corpus").join("families");
        if let Ok(rd) = std::fs::read_dir(dir) {
            let mut ps: Vec<_> = rd.filter_map(|e| e.ok()).map(|e| e.path()).collect();
            ps.sort();
            for p in ps {
                if let Ok(t) = std::fs::read_to_string(&p) {
                    if let Ok(v) = serde_json::from_str::<Value>(&t) {
                        let input = if v.get("input").is_some() { v["input"].clone() } else { v };
                        // witnesses may carry the definition labels of their entries (input.defs)
                        let labels: Option<Vec<Option<usize>>> = input.get("defs").and_then(|d| d.as_array()).map(|a| {
                            a.iter().map(|x| x.as_u64().map(|n| n as usize)).collect()
                        });
                        push("corpus", &input["registry"], labels.as_deref(), &mut shards, &mut meta);
                    }
                }
            }
        }
        // hand-built associated-type families (X<A1>, X<A2> with Inner = u8, X<B> with Inner = u32) in
        // several orders; also fed to C01
        for rj in crate::tgprops::skip_flip_families() {
            push("skip-flip", &rj, None, &mut shards, &mut meta);
        }
        for rj in crate::tgprops::three_member_families() {
            push("three-members", &rj, None, &mut shards, &mut meta);
        }
        // every family of <= 3 distinct members over a small alphabet of member shapes, in every order
        // (thorough: all of them; quick: a 1/10 sample drawn from the seed)
        let all = famgen::small_families();
        let total = all.len();
        let mut taken = 0usize;
        // own generator: the random streams below stay what they were for a given seed
        let mut pick = Rng::new(seed ^ 0xe5a11);
        for p in all {
            if tier == "thorough" || pick.chance(1, 10) {
                let (rj, labels) = labelled(&p);
                push("exhaustive-small", &rj, Some(&labels), &mut shards, &mut meta);
                taken += 1;
            }
        }
        exhaustive = json!({"families_enumerated": total, "families_run": taken});
        let scale = if tier == "thorough" { 10 } else { 1 };
        for _ in 0..(500 * scale) {
            let p = famgen::family_program(&mut rng);
            let (rj, labels) = labelled(&p);
            // all registry orders matter: also a consistently renumbered copy
            push("family", &rj, Some(&labels), &mut shards, &mut meta);
            if rng.chance(1, 3) {
                let n = rj["types"].as_array().unwrap().len();
                let mut perm: Vec<usize> = (0..n).collect();
                rng.shuffle(&mut perm);
                // perm[new position] = old position
                let pl: Vec<Option<usize>> = perm.iter().map(|o| labels[*o]).collect();
                push("family-permuted", &crate::tgprops::renumber(&rj, &perm), Some(&pl), &mut shards, &mut meta);
            }
        }
        for _ in 0..(150 * scale) {
            let p = famgen::noisy_program(&mut rng);
            let (rj, labels) = labelled(&p);
            push("noisy-program", &rj, Some(&labels), &mut shards, &mut meta);
        }
        for (_, p) in crate::corpus::programs() {
            let (rj, labels) = labelled(&p);
            push("arm-corpus", &rj, Some(&labels), &mut shards, &mut meta);
        }
    }
    meta.evaluations = shards.len();
    meta.distinct_nontrivial = nontrivial;
    meta.rule = "same-path families: a definition, mutated copies of it under the same path (changed field type / name / order / count, variants, parameter count or skipping), several instantiations each, optional digit-suffixed neighbour and nesting outer type, in original and permuted registry order; plus random programs with two definitions forced onto one path; plus the hand-built associated-type families (stream three-members); plus stream exhaustive-small: EVERY family of <= 3 distinct members a::F over the member alphabet {no parameter | one parameter used as the field type | one parameter unused} x field type {u8, u16} x {named, unnamed} x instantiation argument {u8, u16} (16 member shapes, members of one definition share its label), in every order - all 3616 in the thorough tier, a 1/10 sample drawn from the seed in the quick tier (extra.exhaustive_small_families); every entry carries the label of the source definition it instantiates (dd_defs, None outside the class of the C04 clause); non-trivial = distinct registry with at least one path carried by two or more entries".into();
    meta.extra = json!({"generate_kinds_before_after_dedup": kinds, "exhaustive_small_families": exhaustive});
    shards.finish();
    meta
}
