//! C03 / C04 cases: same-path families through `ensure_unique_type_paths` and generation.
use crate::coq::{clist, cstr, Shards};
use crate::famgen;
use crate::obs::Obs;
use crate::reggen;
use crate::rng::Rng;
use crate::sets::SettingsSpec;
use crate::tg::{bit_order_subs, coq_case, observe_tg};
use crate::util::Meta;
use scale_info::PortableRegistry;
use scale_typegen::utils::ensure_unique_type_paths;
use serde_json::{json, Value};
use std::collections::{BTreeMap, HashSet};
use std::path::Path;

pub const HEADER: &str = "From Coq Require Import List NArith String.\nFrom V Require Import Base.Util Base.Result Model.Registry Model.Settings Model.Subst Model.Builders Corr.RunTG Corr.CheckTG Corr.RunDD.\nImport ListNotations. Open Scope string_scope.";

fn paths_of(r: &PortableRegistry) -> Vec<Vec<String>> {
    r.types.iter().map(|t| t.ty.path.segments.clone()).collect()
}

fn dedup(r: &PortableRegistry) -> (Obs<Vec<Vec<String>>>, Option<PortableRegistry>) {
    let mut c = r.clone();
    let res = std::panic::catch_unwind(move || {
        let e = ensure_unique_type_paths(&mut c);
        (e, c)
    });
    match res {
        Ok((Ok(()), c)) => (Obs::Ok(paths_of(&c)), Some(c)),
        Ok((Err(e), _)) => {
            let (k, n, m) = crate::obs::of_typegen_error(&e);
            (Obs::Err(k, n, m), None)
        }
        Err(_) => (Obs::Panic, None),
    }
}

fn cpaths(p: &Vec<Vec<String>>) -> String {
    clist(p.iter().map(|s| clist(s.iter().map(|x| cstr(x)))))
}

pub fn evals(prop: &str) -> Vec<(&'static str, &'static str)> {
    let mut v = vec![("corr_dedup", "corr_dedup"), ("corr_dd_tg", "corr_dd_tg"), ("corr_teq_trace", "corr_teq_trace_dd")];
    if prop == "C03" {
        v.extend([
            ("prop_no_conflation", "prop_no_conflation"),
            ("prop_dedup_no_conflation", "prop_dedup_no_conflation"),
            ("known_TE_arity", "known_TE_arity"),
            ("known_TE_unsound", "known_TE_unsound"),
        ]);
    } else {
        v.extend([
            ("prop_frame", "prop_frame"),
            ("prop_numbering", "prop_numbering"),
            ("prop_sufficient", "prop_sufficient"),
            ("prop_idempotent", "prop_idempotent"),
            ("known_suffix_collision", "known_suffix_collision"),
            ("known_not_fixpoint", "known_not_fixpoint"),
        ]);
    }
    v.extend([("hyp_has_family", "hyp_has_family"), ("hyp_renamed", "hyp_renamed"), ("hyp_gen_before_ok", "hyp_gen_before_ok")]);
    v
}

pub fn generate(prop: &str, tier: &str, seed: u64, out: &Path, nshards: usize, replay: Option<&Path>) -> Meta {
    let mut rng = Rng::new(seed ^ 0xdd);
    let ev = evals(prop);
    let mut shards = Shards::new(out, nshards, HEADER, "dd_case", &ev);
    let mut meta = Meta::new(prop);
    let mut seen: HashSet<String> = HashSet::new();
    let mut nontrivial = 0usize;
    let mut kinds: BTreeMap<String, usize> = BTreeMap::new();
    let mut push = |stream: &str, rj: &Value, shards: &mut Shards, meta: &mut Meta| {
        let reg = reggen::to_registry(rj);
        let mut spec = SettingsSpec::default();
        spec.ops.extend(bit_order_subs(&reg));
        let before = observe_tg(&reg, &spec);
        let (once, reg1) = dedup(&reg);
        let (twice, after) = match &reg1 {
            Some(r1) => {
                let (t, _) = dedup(r1);
                (t, Some((r1.clone(), observe_tg(r1, &spec))))
            }
            None => (once.clone(), None),
        };
        let term = format!(
            "(mk_dd {} {} {} {} {})",
            cstr(stream),
            coq_case(stream, &reg, &spec, &before, &None),
            once.coq(cpaths),
            twice.coq(cpaths),
            match &after {
                Some((r1, o)) => format!("(Some {})", coq_case(stream, r1, &spec, o, &None)),
                None => "None".into(),
            }
        );
        let k = format!(
            "before:{} after:{}",
            before.gen.kind(),
            after.as_ref().map(|(_, o)| o.gen.kind()).unwrap_or_else(|| "-".into())
        );
        *kinds.entry(k).or_insert(0) += 1;
        let fam = {
            let mut m: BTreeMap<Vec<String>, usize> = BTreeMap::new();
            for t in &reg.types {
                if t.ty.path.segments.len() >= 2 {
                    *m.entry(t.ty.path.segments.clone()).or_insert(0) += 1;
                }
            }
            m.values().any(|c| *c >= 2)
        };
        if seen.insert(rj.to_string()) && fam {
            nontrivial += 1;
        }
        let j = json!({"stream": stream, "input": {"registry": rj},
                       "observed_paths_once": once.json(|p| json!(p.iter().map(|s| s.join("::")).collect::<Vec<_>>())),
                       "observed_paths_twice": twice.json(|p| json!(p.iter().map(|s| s.join("::")).collect::<Vec<_>>())),
                       "generate_before": before.gen.kind(),
                       "generate_after": after.as_ref().map(|(_, o)| o.gen.kind())});
        let i = shards.push(term, j.clone());
        meta.count(stream);
        if meta.samples.len() < 3 && i % 41 == 7 {
            meta.samples.push(j);
        }
    };

    if let Some(p) = replay {
        let v: Value = serde_json::from_str(&std::fs::read_to_string(p).unwrap()).unwrap();
        let input = if v.get("input").is_some() { v["input"].clone() } else { v };
        push("replay", &input["registry"], &mut shards, &mut meta);
    } else {
        // recorded witnesses first
        let dir = crate::util::verif_dir().join("corpus").join("families");
        if let Ok(rd) = std::fs::read_dir(dir) {
            let mut ps: Vec<_> = rd.filter_map(|e| e.ok()).map(|e| e.path()).collect();
            ps.sort();
            for p in ps {
                if let Ok(t) = std::fs::read_to_string(&p) {
                    if let Ok(v) = serde_json::from_str::<Value>(&t) {
                        let input = if v.get("input").is_some() { v["input"].clone() } else { v };
                        push("corpus", &input["registry"], &mut shards, &mut meta);
                    }
                }
            }
        }
        let scale = if tier == "thorough" { 10 } else { 1 };
        for _ in 0..(500 * scale) {
            let p = famgen::family_program(&mut rng);
            let (rj, _) = reggen::build(&p);
            // all registry orders matter: also a consistently renumbered copy
            push("family", &rj, &mut shards, &mut meta);
            if rng.chance(1, 3) {
                let n = rj["types"].as_array().unwrap().len();
                let mut perm: Vec<usize> = (0..n).collect();
                rng.shuffle(&mut perm);
                push("family-permuted", &crate::tgprops::renumber(&rj, &perm), &mut shards, &mut meta);
            }
        }
        for _ in 0..(150 * scale) {
            let p = famgen::noisy_program(&mut rng);
            let (rj, _) = reggen::build(&p);
            push("noisy-program", &rj, &mut shards, &mut meta);
        }
        for (_, p) in crate::corpus::programs() {
            let (rj, _) = reggen::build(&p);
            push("arm-corpus", &rj, &mut shards, &mut meta);
        }
    }
    meta.evaluations = shards.len();
    meta.distinct_nontrivial = nontrivial;
    meta.rule = "same-path families: a definition, mutated copies of it under the same path (changed field type / name / order / count, variants, parameter count or skipping), several instantiations each, optional digit-suffixed neighbour and nesting outer type, in original and permuted registry order; plus random programs with two definitions forced onto one path; non-trivial = distinct registry with at least one path carried by two or more entries".into();
    meta.extra = json!({"generate_kinds_before_after_dedup": kinds});
    shards.finish();
    meta
}
