//! C17, restriction half, clause "descriptions and example validity for retained ids are
//! unchanged": for a registry `a`, its `retain`-ed sub-registry `b` and scale-info's id map
//! (old id in `a` -> new id in `b`) the artefacts of the description crate are observed on BOTH
//! registries for the same retained type:
//!   * `type_description(id, registry, false)` (the text, or its digest when long),
//!   * for every seed `scale_value_from_seed(id, registry, seed)` (value AST / error class / panic),
//!     the real `encode_as_type` -> `decode_as_type` round trip of each value against its own
//!     registry and against the OTHER registry at the corresponding id,
//!   * the first words of the seed's ChaCha8 stream (for the Coq model of the example generator).
//! The typing verdicts (`has_typeb`) are computed in Coq from the values and the two registries.
use crate::c12::{self, Out};
use crate::c13::{self, O};
use crate::coq::{cbool, clist, cn, cstr};
use crate::rngwords;
use scale_info::{PortableRegistry, TypeDef};
use serde_json::{json, Value};

/// texts longer than this (in chars) are given to Coq as (length, digest) only
const FULL_MAX: usize = 2500;
/// retained ids observed per pair
pub const MAX_IDS: usize = 12;

pub struct Ex {
    pub seed_ix: usize,
    pub a: Out,
    pub b: Out,
    /// value observed on a / b round-trips against its own registry
    pub rt_aa: bool,
    pub rt_bb: bool,
    /// value observed on a round-trips against b at the new id / value of b against a at the old id
    pub rt_ab: bool,
    pub rt_ba: bool,
}

pub struct Art {
    pub old: u32,
    pub new: u32,
    pub da: O,
    pub db: O,
    pub full: bool,
    pub ex: Vec<Ex>,
}

pub struct Arts {
    pub roots: Vec<u32>,
    pub ids: Vec<(u32, u32)>,
    pub seeds: Vec<(u64, Vec<u32>)>,
    pub arts: Vec<Art>,
    /// why nothing was observed (the description code would recurse without bound)
    pub skipped: Option<String>,
}

/// what a recorded case needs to be observed again
#[derive(Clone)]
pub struct RetainInfo {
    pub roots: Vec<u32>,
    pub ids: Vec<(u32, u32)>,
    pub seeds: Vec<u64>,
}

impl RetainInfo {
    pub fn json(&self) -> Value {
        json!({"roots": self.roots, "ids": self.ids.iter().map(|(o, n)| json!([o, n])).collect::<Vec<_>>(), "seeds": self.seeds})
    }
    pub fn from_json(v: &Value) -> Option<RetainInfo> {
        if !v.is_object() {
            return None;
        }
        let nums = |x: &Value| -> Vec<u64> { x.as_array().map(|a| a.iter().filter_map(|y| y.as_u64()).collect()).unwrap_or_default() };
        let ids = v["ids"]
            .as_array()
            .map(|a| {
                a.iter()
                    .filter_map(|p| {
                        let q = nums(p);
                        if q.len() == 2 { Some((q[0] as u32, q[1] as u32)) } else { None }
                    })
                    .collect()
            })
            .unwrap_or_default();
        Some(RetainInfo { roots: nums(&v["roots"]).into_iter().map(|x| x as u32).collect(), ids, seeds: nums(&v["seeds"]) })
    }
}

/// the retained ids to observe: the roots first, then evenly spread over the id map
pub fn select_ids(map: &std::collections::BTreeMap<u32, u32>, roots: &[u32]) -> Vec<(u32, u32)> {
    let all: Vec<(u32, u32)> = map.iter().map(|(o, n)| (*o, *n)).collect();
    if all.len() <= MAX_IDS {
        return all;
    }
    let mut v: Vec<(u32, u32)> = vec![];
    for r in roots {
        if let Some(n) = map.get(r) {
            if !v.contains(&(*r, *n)) {
                v.push((*r, *n));
            }
        }
    }
    let step = (all.len() + MAX_IDS - 1) / MAX_IDS;
    for (k, p) in all.iter().enumerate() {
        if v.len() >= MAX_IDS {
            break;
        }
        if k % step == 0 && !v.contains(p) {
            v.push(*p);
        }
    }
    v.sort();
    v
}

/// `type_description` follows some edges without its in-progress marker (element types, generic
/// arguments of a named struct / enum, every child of a type with an empty path): a cycle there is
/// unbounded recursion (stack overflow, which would take the harness down).  Also false on ids
/// that do not resolve.
pub fn description_terminates(reg: &PortableRegistry) -> bool {
    let n = reg.types.len();
    let ok = |i: u32| (i as usize) < n;
    let mut edges: Vec<Vec<u32>> = vec![];
    for (pos, t) in reg.types.iter().enumerate() {
        if t.id as usize != pos {
            return false;
        }
        let ty = &t.ty;
        let named = !ty.path.segments.is_empty();
        let mut all: Vec<u32> = vec![];
        let mut unprot: Vec<u32> = vec![];
        match &ty.type_def {
            TypeDef::Composite(c) => all.extend(c.fields.iter().map(|f| f.ty.id)),
            TypeDef::Variant(v) => all.extend(v.variants.iter().flat_map(|v| v.fields.iter().map(|f| f.ty.id))),
            TypeDef::Sequence(s) => unprot.push(s.type_param.id),
            TypeDef::Array(a) => unprot.push(a.type_param.id),
            TypeDef::Tuple(t) => unprot.extend(t.fields.iter().map(|f| f.id)),
            TypeDef::Compact(c) => unprot.push(c.type_param.id),
            TypeDef::Primitive(_) => {}
            TypeDef::BitSequence(b) => all.extend([b.bit_store_type.id, b.bit_order_type.id]),
        }
        if matches!(ty.type_def, TypeDef::Composite(_) | TypeDef::Variant(_)) && named {
            unprot.extend(ty.type_params.iter().filter_map(|p| p.ty.as_ref().map(|x| x.id)));
        }
        if !ty.type_params.iter().filter_map(|p| p.ty.as_ref().map(|x| x.id)).all(ok) || !all.iter().all(|i| ok(*i)) || !unprot.iter().all(|i| ok(*i)) {
            return false;
        }
        if !named {
            unprot.extend(all.iter().cloned());
        }
        edges.push(unprot);
    }
    // cycle detection (0 white, 1 grey, 2 black), iterative
    let mut col = vec![0u8; n];
    for s in 0..n {
        if col[s] != 0 {
            continue;
        }
        let mut stack: Vec<(usize, usize)> = vec![(s, 0)];
        col[s] = 1;
        while let Some((v, k)) = stack.pop() {
            if k < edges[v].len() {
                stack.push((v, k + 1));
                let w = edges[v][k] as usize;
                if col[w] == 1 {
                    return false;
                }
                if col[w] == 0 {
                    col[w] = 1;
                    stack.push((w, 0));
                }
            } else {
                col[v] = 2;
            }
        }
    }
    true
}

fn rt_of(reg: &PortableRegistry, id: u32, o: &Out) -> bool {
    match o {
        Out::Ok(v) => c12::roundtrip(reg, id, v).0,
        _ => true,
    }
}

pub fn observe(a: &PortableRegistry, b: &PortableRegistry, info: &RetainInfo) -> Arts {
    let mut out = Arts { roots: info.roots.clone(), ids: info.ids.clone(), seeds: vec![], arts: vec![], skipped: None };
    if !description_terminates(a) || !description_terminates(b) {
        out.skipped = Some("unprotected cycle or unresolved id: type_description would not terminate".into());
        return out;
    }
    if info.ids.iter().any(|(o, n)| *o as usize >= a.types.len() || *n as usize >= b.types.len()) {
        out.skipped = Some("id map outside the registries".into());
        return out;
    }
    // words per seed: the longest run over all observed (id, registry)
    let mut need: Vec<usize> = vec![0; info.seeds.len()];
    let mut usable: Vec<Vec<bool>> = vec![];
    for (old, new) in &info.ids {
        let mut u = vec![];
        for (k, seed) in info.seeds.iter().enumerate() {
            match (c12::words_needed(a, *old, *seed), c12::words_needed(b, *new, *seed)) {
                (Some(x), Some(y)) if x.max(y) <= 20_000 => {
                    need[k] = need[k].max(x).max(y);
                    u.push(true);
                }
                _ => u.push(false),
            }
        }
        usable.push(u);
    }
    for (k, seed) in info.seeds.iter().enumerate() {
        out.seeds.push((*seed, rngwords::words(*seed, need[k])));
    }
    for (j, (old, new)) in info.ids.iter().enumerate() {
        let da = c13::observe(a, *old, false);
        let db = c13::observe(b, *new, false);
        let full = match (&da, &db) {
            (O::Ok(x), O::Ok(y)) => x.chars().count() <= FULL_MAX && y.chars().count() <= FULL_MAX,
            _ => true,
        };
        let mut ex = vec![];
        for (k, seed) in info.seeds.iter().enumerate() {
            if !usable[j][k] {
                continue;
            }
            let oa = c12::call(a, *old, *seed);
            let ob = c12::call(b, *new, *seed);
            ex.push(Ex {
                seed_ix: k,
                rt_aa: rt_of(a, *old, &oa),
                rt_bb: rt_of(b, *new, &ob),
                rt_ab: rt_of(b, *new, &oa),
                rt_ba: rt_of(a, *old, &ob),
                a: oa,
                b: ob,
            });
        }
        out.arts.push(Art { old: *old, new: *new, da, db, full, ex });
    }
    out
}

fn coq_desc(o: &O, full: bool) -> String {
    match o {
        O::Ok(s) => {
            if full {
                format!("(DOk {})", cstr(s))
            } else {
                let (n, h) = c13::digest(s);
                format!("(DDigest {} {})", cn(n as u128), cn(h as u128))
            }
        }
        O::Err(m) => format!("(DErr {})", cstr(m)),
        O::Panic => "DPanic".into(),
    }
}

fn json_desc(o: &O, full: bool) -> Value {
    match o {
        O::Ok(s) => {
            if full {
                json!({"ok": s})
            } else {
                let (n, h) = c13::digest(s);
                json!({"ok_digest": {"chars": n, "h": h}})
            }
        }
        O::Err(m) => json!({"err": m}),
        O::Panic => json!("panic"),
    }
}

fn coq_out(o: &Out) -> String {
    match o {
        Out::Ok(v) => format!("(XvOk {})", c12::coq_value(v)),
        Out::Err(k, n, _) => format!("(XvErr {} {})", cstr(k), cn(*n as u128)),
        Out::Panic => "XvPanic".to_string(),
    }
}

fn json_out(o: &Out) -> Value {
    match o {
        Out::Ok(v) => json!({"ok": std::panic::catch_unwind(std::panic::AssertUnwindSafe(|| v.to_string())).unwrap_or_else(|_| format!("{:?}", v))}),
        Out::Err(k, n, m) => json!({"err": k, "id": n, "msg": m.chars().take(200).collect::<String>()}),
        Out::Panic => json!("panic"),
    }
}

impl Arts {
    pub fn empty() -> Arts {
        Arts { roots: vec![], ids: vec![], seeds: vec![], arts: vec![], skipped: None }
    }

    /// the two extra fields of `mk_c17`
    pub fn coq(&self) -> (String, String) {
        let seeds = clist(self.seeds.iter().map(|(s, ws)| format!("({}, {})", cn(*s as u128), rngwords::coq_words(ws))));
        let arts = clist(self.arts.iter().map(|a| {
            format!(
                "(mk_art {} {} {} {} {})",
                cn(a.old as u128),
                cn(a.new as u128),
                coq_desc(&a.da, a.full),
                coq_desc(&a.db, a.full),
                clist(a.ex.iter().map(|e| format!(
                    "(mk_ex {} {} {} {} {} {} {})",
                    cn(e.seed_ix as u128),
                    coq_out(&e.a),
                    coq_out(&e.b),
                    cbool(e.rt_aa),
                    cbool(e.rt_bb),
                    cbool(e.rt_ab),
                    cbool(e.rt_ba)
                )))
            )
        }));
        (seeds, arts)
    }

    pub fn json(&self, small: bool) -> Value {
        if !small {
            return json!({"retained_ids_observed": self.arts.len(), "skipped": self.skipped});
        }
        json!({
            "skipped": self.skipped,
            "seeds": self.seeds.iter().map(|(s, ws)| json!({"seed": s, "nwords": ws.len()})).collect::<Vec<_>>(),
            "arts": self.arts.iter().map(|a| json!({
                "old_id": a.old, "new_id": a.new,
                "description_full": json_desc(&a.da, a.full), "description_retained": json_desc(&a.db, a.full),
                "examples": a.ex.iter().map(|e| json!({
                    "seed": self.seeds[e.seed_ix].0, "full": json_out(&e.a), "retained": json_out(&e.b),
                    "roundtrip(full value on full, retained on retained, full on retained, retained on full)": [e.rt_aa, e.rt_bb, e.rt_ab, e.rt_ba],
                })).collect::<Vec<_>>(),
            })).collect::<Vec<_>>(),
        })
    }
}

#[derive(Default)]
pub struct Counts {
    pub retain_pairs: usize,
    pub retain_pairs_plain_settings: usize,
    pub retain_pairs_with_arts: usize,
    pub retain_pairs_arts_skipped: usize,
    pub retained_ids_observed: usize,
    pub descriptions_both_ok: usize,
    pub descriptions_by_digest: usize,
    pub descriptions_not_ok: usize,
    pub examples_observed: usize,
    pub examples_both_ok: usize,
    pub examples_both_err: usize,
    pub examples_roundtrip_all_four: usize,
    pub roots_generic_instantiation: usize,
    pub retained_sizes: Vec<usize>,
}

impl Counts {
    pub fn add(&mut self, a: &Arts, retained_len: usize) {
        self.retain_pairs += 1;
        self.retained_sizes.push(retained_len);
        if a.skipped.is_some() {
            self.retain_pairs_arts_skipped += 1;
        }
        if !a.arts.is_empty() {
            self.retain_pairs_with_arts += 1;
        }
        for x in &a.arts {
            self.retained_ids_observed += 1;
            match (&x.da, &x.db) {
                (O::Ok(_), O::Ok(_)) => {
                    self.descriptions_both_ok += 1;
                    if !x.full {
                        self.descriptions_by_digest += 1;
                    }
                }
                _ => self.descriptions_not_ok += 1,
            }
            for e in &x.ex {
                self.examples_observed += 1;
                match (&e.a, &e.b) {
                    (Out::Ok(_), Out::Ok(_)) => {
                        self.examples_both_ok += 1;
                        if e.rt_aa && e.rt_bb && e.rt_ab && e.rt_ba {
                            self.examples_roundtrip_all_four += 1;
                        }
                    }
                    (Out::Err(..), Out::Err(..)) => self.examples_both_err += 1,
                    _ => {}
                }
            }
        }
    }

    pub fn json(&self) -> Value {
        let mut s = self.retained_sizes.clone();
        s.sort();
        let med = if s.is_empty() { 0 } else { s[s.len() / 2] };
        json!({
            "retain_pairs": self.retain_pairs,
            "retain_pairs_plain_settings(no path-specific derives / substitutes beyond the retained bit-order types)": self.retain_pairs_plain_settings,
            "retain_pairs_root_is_generic_instantiation": self.roots_generic_instantiation,
            "retain_pairs_with_artefacts": self.retain_pairs_with_arts,
            "retain_pairs_artefacts_skipped": self.retain_pairs_arts_skipped,
            "retained_ids_observed": self.retained_ids_observed,
            "descriptions_compared(both Ok)": self.descriptions_both_ok,
            "descriptions_compared_by_digest": self.descriptions_by_digest,
            "descriptions_not_ok_on_a_side": self.descriptions_not_ok,
            "examples_observed(retained id x seed)": self.examples_observed,
            "examples_both_ok": self.examples_both_ok,
            "examples_both_err": self.examples_both_err,
            "examples_all_four_roundtrips_ok": self.examples_roundtrip_all_four,
            "retained_registry_size(min,median,max)": [s.first().cloned().unwrap_or(0), med, s.last().cloned().unwrap_or(0)],
        })
    }
}
