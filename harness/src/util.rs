//! Shared helpers: meta/evidence record, corpus, Polkadot registry.
use scale_info::PortableRegistry;
use serde_json::{json, Value};
use std::collections::BTreeMap;

pub struct Meta {
    pub property: String,
    pub evaluations: usize,
    pub distinct_nontrivial: usize,
    pub rule: String,
    pub streams: BTreeMap<String, usize>,
    pub samples: Vec<Value>,
    pub extra: Value,
}

impl Meta {
    pub fn new(p: &str) -> Self {
        Meta {
            property: p.to_string(),
            evaluations: 0,
            distinct_nontrivial: 0,
            rule: String::new(),
            streams: BTreeMap::new(),
            samples: vec![],
            extra: json!({}),
        }
    }
    pub fn count(&mut self, stream: &str) {
        *self.streams.entry(stream.to_string()).or_insert(0) += 1;
    }
    pub fn to_json(&self) -> Value {
        json!({
            "property": self.property,
            "evaluations": self.evaluations,
            "distinct_nontrivial": self.distinct_nontrivial,
            "rule": self.rule,
            "streams": self.streams,
            "samples": self.samples,
            "extra": self.extra,
        })
    }
}

pub fn verif_dir() -> std::path::PathBuf {
    std::env::var("VERIF_DIR").map(Into::into).unwrap_or_else(|_| "/verif".into())
}

/// corpus/<prop>/*.json each holding {"input": "..."}
pub fn corpus_strings(prop: &str) -> Vec<String> {
    let mut v = vec![];
    let dir = verif_dir().join("corpus").join(prop);
    if let Ok(rd) = std::fs::read_dir(dir) {
        let mut ps: Vec<_> = rd.filter_map(|e| e.ok()).map(|e| e.path()).collect();
        ps.sort();
        for p in ps {
            if p.extension().map(|e| e == "json").unwrap_or(false) {
                if let Ok(t) = std::fs::read_to_string(&p) {
                    if let Ok(j) = serde_json::from_str::<Value>(&t) {
                        if let Some(s) = j["input"].as_str() {
                            v.push(s.to_string());
                        }
                    }
                }
            }
        }
    }
    v
}

pub fn polkadot_registry() -> PortableRegistry {
    use parity_scale_codec::Decode;
    let bytes = std::fs::read("/repo/artifacts/polkadot_metadata.scale").expect("polkadot metadata");
    let md = frame_metadata::RuntimeMetadataPrefixed::decode(&mut &bytes[..]).expect("decode metadata");
    match md.1 {
        frame_metadata::RuntimeMetadata::V14(m) => m.types,
        frame_metadata::RuntimeMetadata::V15(m) => m.types,
        _ => panic!("unsupported metadata version"),
    }
}


// ---------------------------------------------------------------------------
// in-flight record: a crash of the implementation under test that `catch_unwind` cannot catch
// (stack overflow, abort) kills this process; the input being observed at that moment is kept in
// two small files in the output directory so that the driver can report it as the failing input.
static INFLIGHT_DIR: std::sync::OnceLock<std::path::PathBuf> = std::sync::OnceLock::new();

pub fn inflight_init(dir: &std::path::Path) {
    let _ = std::fs::create_dir_all(dir);
    let _ = INFLIGHT_DIR.set(dir.to_path_buf());
    inflight_done();
}

/// the slowly changing part (registry, settings): written once per registry
pub fn inflight_ctx(v: &serde_json::Value) {
    if let Some(d) = INFLIGHT_DIR.get() {
        let _ = std::fs::write(d.join("inflight_ctx.json"), v.to_string());
        let _ = std::fs::remove_file(d.join("inflight.json"));
    }
}

/// the part that changes with every call (ids, seeds, ...)
pub fn inflight(v: &serde_json::Value) {
    if let Some(d) = INFLIGHT_DIR.get() {
        let _ = std::fs::write(d.join("inflight.json"), v.to_string());
    }
}

pub fn inflight_done() {
    if let Some(d) = INFLIGHT_DIR.get() {
        let _ = std::fs::remove_file(d.join("inflight_ctx.json"));
        let _ = std::fs::remove_file(d.join("inflight.json"));
    }
}
