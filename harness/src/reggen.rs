//! Structured generation of registries *as programs*: generic struct/enum
//! definitions in nested modules plus a set of closed instantiations, interned
//! in scale-info's order (a type gets its id before its parameters and fields
//! are registered).  The result is scale-info JSON, deserialised into a real
//! `PortableRegistry`.
use crate::rng::Rng;
use scale_info::PortableRegistry;
use serde_json::{json, Value};
use std::collections::HashMap;

#[derive(Clone, Debug, PartialEq)]
pub enum Src {
    Param(usize),
    App(usize, Vec<Src>),
    Vec(Box<Src>),
    VecDeque(Box<Src>),
    Array(u32, Box<Src>),
    Tuple(Vec<Src>),
    Prim(&'static str),
    Compact(Box<Src>),
    BoxT(Box<Src>),
    Opt(Box<Src>),
    Res(Box<Src>, Box<Src>),
    BTreeMap(Box<Src>, Box<Src>),
    BTreeSet(Box<Src>),
    Cow(Box<Src>),
    Range(Box<Src>),
    BitVec(&'static str, bool),
}

#[derive(Clone, Debug)]
pub struct FieldDef {
    pub name: Option<String>,
    pub ty: Src,
    /// `#[codec(compact)]` on the field (type recorded as Compact<ty>, type name = ty)
    pub compact_attr: bool,
    pub docs: Vec<String>,
    /// record the source type name (scale-info always does; `false` models hand-built metadata)
    pub type_name: bool,
}

#[derive(Clone, Debug)]
pub enum Body {
    Struct(Vec<FieldDef>),
    Enum(Vec<(String, u8, Vec<FieldDef>, Vec<String>)>),
}

#[derive(Clone, Debug)]
pub struct Def {
    pub path: Vec<String>,
    pub params: Vec<(String, bool)>, // (name, skipped)
    pub body: Body,
    pub docs: Vec<String>,
}

#[derive(Clone, Debug, Default)]
pub struct Program {
    pub defs: Vec<Def>,
    pub roots: Vec<Src>,
}

pub const PRIMS: [&str; 13] = [
    "bool", "char", "str", "u8", "u16", "u32", "u64", "u128", "i8", "i16", "i32", "i64", "i128",
];

fn subst(s: &Src, args: &[Src]) -> Src {
    match s {
        Src::Param(i) => args[*i].clone(),
        Src::App(d, a) => Src::App(*d, a.iter().map(|x| subst(x, args)).collect()),
        Src::Vec(a) => Src::Vec(Box::new(subst(a, args))),
        Src::VecDeque(a) => Src::VecDeque(Box::new(subst(a, args))),
        Src::Array(n, a) => Src::Array(*n, Box::new(subst(a, args))),
        Src::Tuple(a) => Src::Tuple(a.iter().map(|x| subst(x, args)).collect()),
        Src::Prim(p) => Src::Prim(p),
        Src::Compact(a) => Src::Compact(Box::new(subst(a, args))),
        Src::BoxT(a) => Src::BoxT(Box::new(subst(a, args))),
        Src::Opt(a) => Src::Opt(Box::new(subst(a, args))),
        Src::Res(a, b) => Src::Res(Box::new(subst(a, args)), Box::new(subst(b, args))),
        Src::BTreeMap(a, b) => Src::BTreeMap(Box::new(subst(a, args)), Box::new(subst(b, args))),
        Src::BTreeSet(a) => Src::BTreeSet(Box::new(subst(a, args))),
        Src::Cow(a) => Src::Cow(Box::new(subst(a, args))),
        Src::Range(a) => Src::Range(Box::new(subst(a, args))),
        Src::BitVec(s, l) => Src::BitVec(s, *l),
    }
}

/// scale-info-derive 2.11 src/lib.rs `clean_type_string`, applied by the derive to `quote!(#ty).to_string()`
pub fn clean_type_string(input: &str) -> String {
    input
        .replace(" ::", "::")
        .replace(":: ", "::")
        .replace(" ,", ",")
        .replace(" ;", ";")
        .replace(" [", "[")
        .replace("[ ", "[")
        .replace(" ]", "]")
        .replace(" (", "(")
        .replace(",(", ", (")
        .replace("( ", "(")
        .replace(" )", ")")
        .replace(" <", "<")
        .replace("< ", "<")
        .replace(" >", ">")
        .replace("& \'", "&'")
}

/// the recorded `typeName` of a field: the derive's `clean_type_string` of the token string of the type
/// as written.  Its rules are not symmetric: the blank after a comma survives before `(` (it is put
/// back) and before an identifier, but NOT before `[` (`(Option<T>,[U; 2])`, `BTreeMap<String,[u8; 3]>`).
pub fn type_name(s: &Src, def: Option<&Def>, defs: &[Def]) -> String {
    clean_type_string(&type_text(s, def, defs))
}

/// the source text of a type (what the derive tier prints into the Rust source)
pub fn type_text(s: &Src, def: Option<&Def>, defs: &[Def]) -> String {
    let tn = |x: &Src| type_text(x, def, defs);
    match s {
        Src::Param(i) => def.map(|d| d.params[*i].0.clone()).unwrap_or_else(|| format!("P{i}")),
        Src::App(d, a) => {
            let n = defs[*d].path.last().unwrap().clone();
            if a.is_empty() {
                n
            } else {
                format!("{}<{}>", n, a.iter().map(tn).collect::<Vec<_>>().join(", "))
            }
        }
        Src::Vec(a) => format!("Vec<{}>", tn(a)),
        Src::VecDeque(a) => format!("VecDeque<{}>", tn(a)),
        Src::Array(n, a) => format!("[{}; {}]", tn(a), n),
        // `(T,)`: the token string of a one-element tuple type keeps its comma (scale-info-derive's
        // `clean_type_string` only removes the blank before it)
        Src::Tuple(a) if a.len() == 1 => format!("({},)", tn(&a[0])),
        Src::Tuple(a) => format!("({})", a.iter().map(tn).collect::<Vec<_>>().join(", ")),
        Src::Prim(p) => if *p == "str" { "String".into() } else { p.to_string() },
        Src::Compact(a) => format!("Compact<{}>", tn(a)),
        Src::BoxT(a) => format!("Box<{}>", tn(a)),
        Src::Opt(a) => format!("Option<{}>", tn(a)),
        Src::Res(a, b) => format!("Result<{}, {}>", tn(a), tn(b)),
        Src::BTreeMap(a, b) => format!("BTreeMap<{}, {}>", tn(a), tn(b)),
        Src::BTreeSet(a) => format!("BTreeSet<{}>", tn(a)),
        Src::Cow(a) => format!("Cow<'static, {}>", tn(a)),
        Src::Range(a) => format!("Range<{}>", tn(a)),
        Src::BitVec(s, l) => format!("BitVec<{}, {}>", s, if *l { "Lsb0" } else { "Msb0" }),
    }
}

/// What scale-info's registry interns by (`MetaType::type_id` = `TypeId::of::<T::Identity>()`,
/// scale-info 2.11 src/meta_type.rs, src/impls.rs): ONE step of `Identity` at the top of the type and
/// nothing below it.  `Identity` is `T` for `Box<T>`, `[T]` for `Vec<T>` and `VecDeque<T>`, `str` for
/// `String`, `Self` for everything else.  So `Vec<T>` and `VecDeque<T>` share an entry, `Box<Foo>` and
/// `Foo` share an entry, but `Vec<Box<T>>` / `Vec<T>`, `Option<Box<T>>` / `Option<T>`,
/// `Box<Vec<T>>` / `Vec<T>`, `Box<String>` / `String`, `Box<Box<T>>` / `T` are pairs of DISTINCT entries
/// with equal content (validated against the real derive by the derive tier, harness/src/dtier.rs).
pub fn tid_key(s: &Src) -> String {
    match s {
        Src::BoxT(a) => format!("ty:{:?}", a),
        Src::Vec(a) | Src::VecDeque(a) => format!("slice:{:?}", a),
        Src::Prim("str") => "str".to_string(),
        other => format!("ty:{:?}", other),
    }
}

/// the type whose `type_info()` is the entry's content: all outer boxes removed
pub fn peel(s: &Src) -> &Src {
    match s {
        Src::BoxT(a) => peel(a),
        other => other,
    }
}

/// full normalisation (Box erased everywhere, VecDeque = Vec): the label of an entry in the Coq
/// source model (Model/Program.v `canon`).  NOT what scale-info interns by, see `tid_key`.
pub fn canon(s: &Src) -> Src {
    let c = |x: &Src| Box::new(canon(x));
    match s {
        Src::BoxT(a) => canon(a),
        Src::VecDeque(a) | Src::Vec(a) => Src::Vec(c(a)),
        Src::App(d, a) => Src::App(*d, a.iter().map(canon).collect()),
        Src::Tuple(a) => Src::Tuple(a.iter().map(canon).collect()),
        Src::Array(n, a) => Src::Array(*n, c(a)),
        Src::Compact(a) => Src::Compact(c(a)),
        Src::Opt(a) => Src::Opt(c(a)),
        Src::Res(a, b) => Src::Res(c(a), c(b)),
        Src::BTreeMap(a, b) => Src::BTreeMap(c(a), c(b)),
        Src::BTreeSet(a) => Src::BTreeSet(c(a)),
        Src::Cow(a) => Src::Cow(c(a)),
        Src::Range(a) => Src::Range(c(a)),
        other => other.clone(),
    }
}

pub struct Interner<'a> {
    defs: &'a [Def],
    ids: HashMap<String, u32>,
    pub types: Vec<Value>,
    /// every closed instantiation (definition index, arguments) that was interned
    pub insts: Vec<(usize, Vec<Src>)>,
    /// per id: the closed source type the entry was first registered for (`None`: bit-order marker)
    pub labels: Vec<Option<Src>>,
    /// intern by `canon` (Box erased everywhere, VecDeque = Vec) as this harness did before the derive tier
    /// existed; kept only so that the derive tier can show that it tells the two apart
    pub legacy_identity: bool,
    /// per id: the index of the source definition the entry is an instantiation of
    pub def_of: Vec<Option<usize>>,
}

impl<'a> Interner<'a> {
    pub fn new(defs: &'a [Def]) -> Self {
        Interner { defs, ids: HashMap::new(), types: vec![], insts: vec![], labels: vec![], legacy_identity: false, def_of: vec![] }
    }

    fn alloc(&mut self, key: String) -> Result<u32, u32> {
        if let Some(i) = self.ids.get(&key) {
            return Err(*i);
        }
        let id = self.types.len() as u32;
        self.ids.insert(key, id);
        self.types.push(Value::Null);
        self.labels.push(None);
        self.def_of.push(None);
        Ok(id)
    }

    fn set(&mut self, id: u32, path: Vec<String>, params: Value, def: Value, docs: &[String]) {
        self.types[id as usize] =
            json!({"id": id, "type": {"path": path, "params": params, "def": def, "docs": docs}});
    }

    fn fields(&mut self, fs: &[FieldDef], d: Option<&Def>, args: &[Src]) -> Value {
        let mut out = vec![];
        for f in fs {
            let closed = subst(&f.ty, args);
            let id = if f.compact_attr {
                self.intern(&Src::Compact(Box::new(closed)))
            } else {
                self.intern(&closed)
            };
            let mut o = json!({"type": id, "docs": f.docs});
            if let Some(n) = &f.name {
                o["name"] = json!(n);
            }
            if f.type_name {
                o["typeName"] = json!(type_name(&f.ty, d, self.defs));
            }
            out.push(o);
        }
        Value::Array(out)
    }

    /// id of a closed source type
    pub fn intern(&mut self, s: &Src) -> u32 {
        // scale-info identifies types by the TypeId of `T::Identity` (one step, see `tid_key`);
        // the content is `T::type_info()`, which looks through every outer Box
        let key = if self.legacy_identity { format!("{:?}", canon(s)) } else { tid_key(s) };
        let id = match self.alloc(key) {
            Ok(id) => id,
            Err(id) => return id,
        };
        self.labels[id as usize] = Some(s.clone());
        let s = peel(s);
        let no: Vec<String> = vec![];
        match s {
            Src::Param(_) => panic!("open type"),
            Src::BoxT(_) => unreachable!(),
            Src::App(di, args) => {
                self.insts.push((*di, args.clone()));
                self.def_of[id as usize] = Some(*di);
                let d = self.defs[*di].clone();
                let mut params = vec![];
                for (i, (n, skipped)) in d.params.iter().enumerate() {
                    if *skipped {
                        params.push(json!({"name": n}));
                    } else {
                        let pid = self.intern(&args[i]);
                        params.push(json!({"name": n, "type": pid}));
                    }
                }
                let def = match &d.body {
                    Body::Struct(fs) => json!({"composite": {"fields": self.fields(fs, Some(&d), args)}}),
                    Body::Enum(vs) => {
                        let mut out = vec![];
                        for (n, idx, fs, docs) in vs {
                            out.push(json!({"name": n, "index": idx, "docs": docs,
                                            "fields": self.fields(fs, Some(&d), args)}));
                        }
                        json!({"variant": {"variants": out}})
                    }
                };
                self.set(id, d.path.clone(), Value::Array(params), def, &d.docs);
            }
            Src::Vec(a) | Src::VecDeque(a) => {
                let e = self.intern(a);
                self.set(id, vec![], json!([]), json!({"sequence": {"type": e}}), &no);
            }
            Src::Array(n, a) => {
                let e = self.intern(a);
                self.set(id, vec![], json!([]), json!({"array": {"len": n, "type": e}}), &no);
            }
            Src::Tuple(a) => {
                let es: Vec<u32> = a.iter().map(|x| self.intern(x)).collect();
                self.set(id, vec![], json!([]), json!({"tuple": es}), &no);
            }
            Src::Prim(p) => self.set(id, vec![], json!([]), json!({"primitive": p}), &no),
            Src::Compact(a) => {
                let e = self.intern(a);
                self.set(id, vec![], json!([]), json!({"compact": {"type": e}}), &no);
            }
            Src::Opt(a) => {
                let e = self.intern(a);
                self.set(
                    id,
                    vec!["Option".into()],
                    json!([{"name": "T", "type": e}]),
                    json!({"variant": {"variants": [
                        {"name": "None", "index": 0, "fields": [], "docs": []},
                        {"name": "Some", "index": 1, "fields": [{"type": e, "docs": []}], "docs": []}]}}),
                    &no,
                );
            }
            Src::Res(a, b) => {
                let x = self.intern(a);
                let y = self.intern(b);
                self.set(
                    id,
                    vec!["Result".into()],
                    json!([{"name": "T", "type": x}, {"name": "E", "type": y}]),
                    json!({"variant": {"variants": [
                        {"name": "Ok", "index": 0, "fields": [{"type": x, "docs": []}], "docs": []},
                        {"name": "Err", "index": 1, "fields": [{"type": y, "docs": []}], "docs": []}]}}),
                    &no,
                );
            }
            Src::BTreeMap(a, b) => {
                let k = self.intern(a);
                let v = self.intern(b);
                let seq = self.intern(&Src::Vec(Box::new(Src::Tuple(vec![(**a).clone(), (**b).clone()]))));
                self.set(
                    id,
                    vec!["BTreeMap".into()],
                    json!([{"name": "K", "type": k}, {"name": "V", "type": v}]),
                    json!({"composite": {"fields": [{"type": seq, "docs": []}]}}),
                    &no,
                );
            }
            Src::BTreeSet(a) => {
                let k = self.intern(a);
                let seq = self.intern(&Src::Vec(a.clone()));
                self.set(
                    id,
                    vec!["BTreeSet".into()],
                    json!([{"name": "T", "type": k}]),
                    json!({"composite": {"fields": [{"type": seq, "docs": []}]}}),
                    &no,
                );
            }
            Src::Cow(a) => {
                let e = self.intern(a);
                self.set(
                    id,
                    vec!["Cow".into()],
                    json!([{"name": "T", "type": e}]),
                    json!({"composite": {"fields": [{"type": e, "docs": []}]}}),
                    &no,
                );
            }
            Src::Range(a) => {
                let e = self.intern(a);
                self.set(
                    id,
                    vec!["Range".into()],
                    json!([{"name": "Idx", "type": e}]),
                    json!({"composite": {"fields": [
                        {"name": "start", "type": e, "typeName": "Idx", "docs": []},
                        {"name": "end", "type": e, "typeName": "Idx", "docs": []}]}}),
                    &no,
                );
            }
            Src::BitVec(store, lsb) => {
                let st = self.intern(&Src::Prim(store));
                // the order marker: a unit struct bitvec::order::Lsb0 / Msb0
                let okey = format!("order:{}", lsb);
                let oid = match self.alloc(okey) {
                    Ok(oid) => {
                        self.set(
                            oid,
                            vec!["bitvec".into(), "order".into(), if *lsb { "Lsb0".into() } else { "Msb0".into() }],
                            json!([]),
                            json!({"composite": {"fields": []}}),
                            &no,
                        );
                        oid
                    }
                    Err(oid) => oid,
                };
                self.set(id, vec![], json!([]), json!({"bitsequence": {"bit_store_type": st, "bit_order_type": oid}}), &no);
            }
        }
        id
    }

    pub fn finish(self) -> Value {
        json!({"types": self.types})
    }
}

pub fn to_registry(v: &Value) -> PortableRegistry {
    serde_json::from_value::<PortableRegistry>(v.clone()).expect("registry json")
}

pub fn build(p: &Program) -> (Value, Vec<u32>) {
    let mut it = Interner::new(&p.defs);
    let roots: Vec<u32> = p.roots.iter().map(|r| it.intern(r)).collect();
    (it.finish(), roots)
}

/// the registry and, per entry, the source definition it instantiates (`None` for built-in shapes)
pub fn build_with_defs(p: &Program) -> (Value, Vec<Option<usize>>) {
    let mut it = Interner::new(&p.defs);
    for r in &p.roots {
        it.intern(r);
    }
    let labels = it.def_of.clone();
    (it.finish(), labels)
}

pub fn build_with_insts(p: &Program) -> (Value, Vec<(usize, Vec<Src>)>) {
    let (v, insts, _) = build_labelled(p);
    (v, insts)
}

/// registry, interned instantiations, and per id the closed source type it stands for
pub fn build_labelled(p: &Program) -> (Value, Vec<(usize, Vec<Src>)>, Vec<Option<Src>>) {
    let mut it = Interner::new(&p.defs);
    for r in &p.roots {
        it.intern(r);
    }
    let insts = it.insts.clone();
    let labels = it.labels.clone();
    (it.finish(), insts, labels)
}

/// the registry under the FALSE assumption that scale-info erases Box / VecDeque everywhere
pub fn build_legacy_identity(p: &Program) -> Value {
    let mut it = Interner::new(&p.defs);
    it.legacy_identity = true;
    for r in &p.roots {
        it.intern(r);
    }
    it.finish()
}

/// two entries standing for the same type up to `canon` (Box below the top, `Box<Vec<..>>`, ..):
/// scale-info registers them separately; the label function of `RegistryOf` is then not injective
pub fn identity_duplicates(labels: &[Option<Src>]) -> usize {
    let mut seen = std::collections::HashSet::new();
    labels.iter().flatten().filter(|l| !seen.insert(format!("{:?}", canon(l)))).count()
}

// ---------------------------------------------------------------------------
// random programs

pub struct GenCfg {
    pub max_defs: usize,
    pub allow_compact: bool,
    pub allow_bits: bool,
    pub allow_recursion: bool,
    pub docs: bool,
    /// probability (percent) that a field records no type name (hand-built metadata)
    pub no_type_name_pct: usize,
}

impl Default for GenCfg {
    fn default() -> Self {
        GenCfg { max_defs: 6, allow_compact: true, allow_bits: true, allow_recursion: true, docs: true, no_type_name_pct: 0 }
    }
}

const NAMESPACES: [&[&str]; 6] = [&["a"], &["a", "b"], &["c"], &["a", "b", "d"], &["rt"], &["c", "e"]];
const NAMES: [&str; 10] = ["Foo", "Bar", "Baz", "Wrap", "Node", "Ev", "Call", "Id", "Msg", "Cfg"];
const FIELD_NAMES: [&str; 8] = ["x", "y", "next", "data", "who", "amount", "inner", "flag"];
const PARAM_NAMES: [&str; 4] = ["T", "U", "V", "W"];
const DOCS: [&str; 6] = ["A doc line.", " leading space", "quotes \" and \\ backslash", "it's `code`", "", "tab\there"];
/// primitives used inside definition bodies
const BODY_PRIMS: [&str; 6] = ["u8", "u32", "str", "bool", "u128", "i64"];
/// primitives used only as instantiation arguments (keeps instantiations coincidence-free)
const ARG_PRIMS: [&str; 5] = ["u16", "u64", "i8", "i32", "char"];

fn docs(rng: &mut Rng, on: bool) -> Vec<String> {
    if !on || rng.chance(2, 3) {
        return vec![];
    }
    (0..rng.range(1, 2)).map(|_| rng.pick(&DOCS).to_string()).collect()
}

/// parameters of `d` that type a `#[codec(compact)]` field (they must be instantiated with
/// unsigned integers: `T: HasCompact`)
pub fn compact_params(d: &Def) -> Vec<usize> {
    let mut v = vec![];
    let mut scan = |fs: &Vec<FieldDef>| {
        for f in fs {
            if f.compact_attr {
                if let Src::Param(i) = f.ty {
                    v.push(i);
                }
            }
        }
    };
    match &d.body {
        Body::Struct(fs) => scan(fs),
        Body::Enum(vs) => vs.iter().for_each(|x| scan(&x.2)),
    }
    v
}

pub fn rand_type(rng: &mut Rng, cfg: &GenCfg, defs: &[Def], nparams: usize, depth: usize, self_idx: Option<usize>) -> Src {
    let leaf = depth >= 3 || rng.chance(2, 5);
    if leaf {
        if nparams > 0 && rng.chance(1, 2) {
            return Src::Param(rng.below(nparams));
        }
        return Src::Prim(*rng.pick(&BODY_PRIMS));
    }
    let sub = |rng: &mut Rng| Box::new(rand_type(rng, cfg, defs, nparams, depth + 1, self_idx));
    match rng.below(16) {
        0 | 1 => Src::Vec(sub(rng)),
        2 => Src::Array(rng.range(1, 4) as u32, sub(rng)),
        3 | 4 => {
            let n = rng.below(4);
            Src::Tuple((0..n).map(|_| *sub(rng)).collect())
        }
        5 => Src::Opt(sub(rng)),
        6 => Src::Res(sub(rng), sub(rng)),
        7 => Src::BTreeMap(sub(rng), sub(rng)),
        8 => match rng.below(4) {
            0 => Src::BTreeSet(sub(rng)),
            1 => Src::VecDeque(sub(rng)),
            2 => Src::Range(sub(rng)),
            _ => Src::Cow(sub(rng)),
        },
        9 if cfg.allow_bits => Src::BitVec(*rng.pick(&["u8", "u16", "u32", "u64"]), rng.chance(1, 2)),
        10 if cfg.allow_compact => Src::Compact(Box::new(Src::Prim(*rng.pick(&["u8", "u16", "u32", "u64", "u128"])))),
        11 if cfg.allow_recursion && self_idx.is_some() && depth == 0 => {
            // recursion through a heap indirection
            let me = self_idx.unwrap();
            let args: Vec<Src> = (0..nparams).map(Src::Param).collect();
            match rng.below(3) {
                0 => Src::Opt(Box::new(Src::BoxT(Box::new(Src::App(me, args))))),
                1 => Src::Vec(Box::new(Src::App(me, args))),
                _ => Src::BoxT(Box::new(Src::App(me, args))),
            }
        }
        _ => {
            if defs.is_empty() {
                return Src::Prim(*rng.pick(&BODY_PRIMS));
            }
            let d = rng.below(defs.len());
            let n = defs[d].params.len();
            let cps = compact_params(&defs[d]);
            let args = (0..n)
                .map(|i| if cps.contains(&i) {
                    Src::Prim(*rng.pick(&["u8", "u16", "u32", "u64", "u128"]))
                } else {
                    rand_type(rng, cfg, defs, nparams, depth + 2, self_idx)
                })
                .collect();
            let app = Src::App(d, args);
            if rng.chance(1, 6) { Src::BoxT(Box::new(app)) } else { app }
        }
    }
}

fn rand_fields(rng: &mut Rng, cfg: &GenCfg, defs: &[Def], nparams: usize, self_idx: Option<usize>) -> Vec<FieldDef> {
    let n = rng.below(4);
    let named = rng.chance(1, 2);
    let mut names: Vec<&str> = FIELD_NAMES.to_vec();
    rng.shuffle(&mut names);
    (0..n)
        .map(|i| {
            let mut ty = rand_type(rng, cfg, defs, nparams, 0, self_idx);
            let mut compact_attr = false;
            if cfg.allow_compact && rng.chance(1, 8) {
                // `#[codec(compact)]` on a primitive or on a type parameter (T: HasCompact)
                ty = if nparams > 0 && rng.chance(1, 3) {
                    Src::Param(rng.below(nparams))
                } else {
                    Src::Prim(*rng.pick(&["u8", "u16", "u32", "u64", "u128"]))
                };
                compact_attr = true;
            }
            FieldDef {
                name: if named { Some(names[i].to_string()) } else { None },
                ty,
                compact_attr,
                docs: vec![],
                type_name: !rng.chance(cfg.no_type_name_pct, 100),
            }
        })
        .collect()
}

pub fn rand_def(rng: &mut Rng, cfg: &GenCfg, defs: &[Def], idx: usize) -> Def {
    let ns = *rng.pick(&NAMESPACES);
    let mut path: Vec<String> = ns.iter().map(|s| s.to_string()).collect();
    // sometimes reuse the final identifier of an earlier definition (in another module):
    // `a::Call` and `c::Call` are typical of chain metadata
    if !defs.is_empty() && rng.chance(1, 5) {
        path.push(rng.pick(defs).path.last().unwrap().clone());
    } else {
        path.push(format!("{}{}", rng.pick(&NAMES), if rng.chance(1, 2) { String::new() } else { format!("{}", idx) }));
    }
    // unique path per definition (same-path families have their own generator)
    if defs.iter().any(|d| d.path == path) {
        let l = path.len() - 1;
        path[l] = format!("{}X{}", path[l], idx);
    }
    let np = match rng.below(10) { 0..=3 => 0, 4..=6 => 1, 7..=8 => 2, _ => 3 };
    let params: Vec<(String, bool)> = (0..np).map(|i| (PARAM_NAMES[i].to_string(), rng.chance(1, 8))).collect();
    let body = if rng.chance(1, 2) {
        Body::Struct(rand_fields(rng, cfg, defs, np, Some(idx)))
    } else {
        let nv = rng.range(1, 4);
        let mut idxs: Vec<u8> = (0..nv as u8).collect();
        if rng.chance(1, 3) {
            idxs = idxs.iter().map(|i| i * 3 + 1).collect();
        }
        Body::Enum(
            (0..nv)
                .map(|i| {
                    (format!("V{}", i), idxs[i], rand_fields(rng, cfg, defs, np, Some(idx)), docs(rng, cfg.docs))
                })
                .collect(),
        )
    };
    // parameters that are skipped must not be referenced by Param (scale-info could not name their type):
    // keep them, but a skipped parameter used in a field is still legal (the field's type is registered).
    Def { path, params, body, docs: docs(rng, cfg.docs) }
}

pub fn rand_arg(rng: &mut Rng, depth: usize) -> Src {
    // an argument that is itself a transparent wrapper (Cow<'static, str>, Cow<[u16]>)
    if depth == 0 && rng.chance(1, 10) {
        return if rng.chance(1, 2) {
            Src::Cow(Box::new(Src::Prim("str")))
        } else {
            Src::Cow(Box::new(Src::Vec(Box::new(Src::Prim(*rng.pick(&ARG_PRIMS))))))
        };
    }
    if depth >= 2 || rng.chance(3, 5) {
        return Src::Prim(*rng.pick(&ARG_PRIMS));
    }
    match rng.below(4) {
        0 => Src::Array(rng.range(5, 9) as u32, Box::new(rand_arg(rng, depth + 1))),
        1 => Src::Tuple(vec![rand_arg(rng, depth + 1), rand_arg(rng, depth + 1)]),
        2 => Src::Vec(Box::new(rand_arg(rng, depth + 1))),
        _ => Src::Opt(Box::new(rand_arg(rng, depth + 1))),
    }
}

pub fn rand_program(rng: &mut Rng, cfg: &GenCfg) -> Program {
    let nd = rng.range(1, cfg.max_defs);
    let mut defs: Vec<Def> = vec![];
    for i in 0..nd {
        let d = rand_def(rng, cfg, &defs, i);
        defs.push(d);
    }
    let nr = rng.range(1, 4);
    let mut roots = vec![];
    for _ in 0..nr {
        let d = rng.below(defs.len());
        let mut args: Vec<Src> = vec![];
        let cps = compact_params(&defs[d]);
        for i in 0..defs[d].params.len() {
            if cps.contains(&i) {
                args.push(Src::Prim(*rng.pick(&["u8", "u16", "u32", "u64", "u128"])));
                continue;
            }
            // pairwise distinct arguments
            let mut a = rand_arg(rng, 0);
            let mut tries = 0;
            while args.contains(&a) && tries < 10 {
                a = rand_arg(rng, 0);
                tries += 1;
            }
            args.push(a);
        }
        roots.push(Src::App(d, args));
    }
    if rng.chance(1, 4) {
        roots.push(rand_type(rng, cfg, &defs, 0, 0, None));
    }
    // instantiations whose arguments overlap across positions: F<a,b>, F<b,c>, F<c,a>
    if rng.chance(1, 3) {
        let multi: Vec<usize> = (0..defs.len()).filter(|d| defs[*d].params.len() >= 2).collect();
        if !multi.is_empty() {
            let d = *rng.pick(&multi);
            let mut pool: Vec<Src> = ARG_PRIMS.iter().map(|p| Src::Prim(p)).collect();
            rng.shuffle(&mut pool);
            let n = defs[d].params.len();
            if compact_params(&defs[d]).is_empty() {
                for k in 0..3 {
                    let args: Vec<Src> = (0..n).map(|i| pool[(k + i) % 3].clone()).collect();
                    roots.push(Src::App(d, args));
                }
            }
            rng.shuffle(&mut roots);
        }
    }
    Program { defs, roots }
}
