//! Cases for the type generator (C01, C02, C05-C10, C17, C18 share this case type):
//! a registry, a settings specification (switches + builder history) and the
//! implementation's observed outputs.
use crate::coq::{clist, Shards};
use crate::obs::{observe, Obs};
use crate::reggen::{self, GenCfg, Program};
use crate::rng::Rng;
use crate::sets::{self, ctokens, OpSpec, SettingsSpec};
use crate::tok::flatten;
use crate::util::Meta;
use scale_info::{PortableRegistry, TypeDef};
use scale_typegen::typegen::ir::ToTokensWithSettings;
use scale_typegen::TypeGenerator;
use serde_json::{json, Value};
use std::collections::{BTreeSet, HashSet};
use std::path::Path;

pub const HEADER: &str = "From Coq Require Import List NArith String.\nFrom V Require Import Base.Util Base.Result Model.Registry Model.Settings Model.Subst Model.Builders Corr.RunTG Corr.CheckTG.\nImport ListNotations. Open Scope string_scope.";

/// C17: the pair wrapped with the artefacts of the description crate for retained ids (Corr/RunC17.v)
pub const HEADER_C17: &str = "From Coq Require Import List NArith ZArith String.\nFrom V Require Import Model.RngWords Model.ExampleValue.\nFrom V Require Import Base.Util Base.Result Model.Registry Model.Settings Model.Subst Model.Builders Corr.RunTG Corr.CheckTG Corr.RunC17.\nImport ListNotations. Open Scope string_scope.";

pub struct TgObs {
    pub outs: Vec<sets::Outcome>,
    pub gen: Obs<Vec<String>>,
    pub paths: Vec<Obs<Vec<String>>>,
    pub syn_ok: bool,
    pub upcasts: Vec<(u32, Option<usize>, Obs<Vec<String>>)>,
    /// entry paths after `ensure_unique_type_paths` on a copy of the registry
    pub dedup: Obs<Vec<Vec<String>>>,
}

/// standalone struct built through the public API from a field list (C18)
fn upcast_tokens(
    g: &TypeGenerator,
    settings: &scale_typegen::TypeGeneratorSettings,
    name: &str,
    fields: &[scale_info::Field<scale_info::form::PortableForm>],
    docs: &[String],
) -> Result<Vec<String>, scale_typegen::TypegenError> {
    use scale_typegen::typegen::ir::type_ir::CompositeIR;
    use scale_typegen::typegen::type_params::TypeParameters;
    let ident = syn::parse_str::<proc_macro2::Ident>(name)?;
    let mut tp = TypeParameters::from_scale_info(&[]);
    let kind = g.create_composite_ir_kind(fields, &mut tp)?;
    let c = CompositeIR::new(ident, kind, g.docs_from_scale_info(docs));
    Ok(flatten(g.upcast_composite(&c).to_token_stream(settings)))
}

pub fn observe_tg(reg: &PortableRegistry, spec: &SettingsSpec) -> TgObs {
    if reg.types.len() <= 200 {
        crate::util::inflight_ctx(&json!({"registry": reg, "settings": spec}));
    } else {
        crate::util::inflight_ctx(&json!({"registry": "large", "types": reg.types.len(), "settings": spec}));
    }
    let (settings, outs) = sets::build(spec);
    let gen = observe(|| {
        let g = TypeGenerator::new(reg, &settings);
        let m = g.generate_types_mod()?;
        Ok(flatten(m.to_token_stream(&settings)))
    });
    let mut paths = vec![];
    for i in 0..reg.types.len() as u32 {
        paths.push(observe(|| {
            let g = TypeGenerator::new(reg, &settings);
            let p = g.resolve_type_path(i)?;
            Ok(flatten(p.to_token_stream(&settings)))
        }));
    }
    let mut syn_ok = true;
    let gen_ts = std::panic::catch_unwind(|| {
        let g = TypeGenerator::new(reg, &settings);
        g.generate_types_mod().ok().map(|m| m.to_token_stream(&settings))
    });
    if let Ok(Some(ts)) = gen_ts {
        syn_ok = syn::parse2::<syn::File>(ts).is_ok();
    }
    let mut upcasts = vec![];
    for (pos, t) in reg.types.iter().enumerate() {
        let ty = &t.ty;
        let pos = pos as u32; // the model resolves by position
        if ty.path.segments.len() < 2 || ty.type_params.iter().any(|p| p.ty.is_some()) {
            continue;
        }
        match &ty.type_def {
            TypeDef::Composite(c) => {
                let name = ty.path.segments.last().unwrap().clone();
                upcasts.push((pos, None, observe(|| {
                    let g = TypeGenerator::new(reg, &settings);
                    upcast_tokens(&g, &settings, &name, &c.fields, &ty.docs)
                })));
            }
            TypeDef::Variant(v) => {
                for (vi, var) in v.variants.iter().enumerate() {
                    upcasts.push((pos, Some(vi), observe(|| {
                        let g = TypeGenerator::new(reg, &settings);
                        upcast_tokens(&g, &settings, &var.name, &var.fields, &var.docs)
                    })));
                }
            }
            _ => {}
        }
    }
    let dedup = {
        let mut c = reg.clone();
        match std::panic::catch_unwind(move || {
            let e = scale_typegen::utils::ensure_unique_type_paths(&mut c);
            (e, c)
        }) {
            Ok((Ok(()), c)) => Obs::Ok(c.types.iter().map(|t| t.ty.path.segments.clone()).collect()),
            Ok((Err(e), _)) => {
                let (k, n, m) = crate::obs::of_typegen_error(&e);
                Obs::Err(k, n, m)
            }
            Err(_) => Obs::Panic,
        }
    };
    TgObs { outs, gen, paths, syn_ok, upcasts, dedup }
}

pub fn coq_case(tag: &str, reg: &PortableRegistry, spec: &SettingsSpec, o: &TgObs, expect: &Option<(String, Vec<u128>)>) -> String {
    format!(
        "(mk_tg {} {} {} {} {} {} {} {} {} {})",
        crate::coq::cstr(tag),
        crate::regprint::registry(reg),
        sets::cspec(spec),
        sets::coutcomes(&o.outs),
        o.gen.coq(|t| ctokens(t)),
        clist(o.paths.iter().map(|p| p.coq(|t| ctokens(t)))),
        crate::coq::cbool(o.syn_ok),
        clist(o.upcasts.iter().map(|(id, vi, ob)| format!(
            "({}, {}, {})",
            crate::coq::cn(*id as u128),
            crate::coq::copt(vi.map(|v| crate::coq::cn(v as u128))),
            ob.coq(|t| ctokens(t))
        ))),
        match expect {
            None => "None".to_string(),
            Some((k, n)) => format!("(Some ({}, {}))", crate::coq::cstr(k), clist(n.iter().map(|x| crate::coq::cn(*x)))),
        },
        o.dedup.coq(|p| clist(p.iter().map(|s| clist(s.iter().map(|x| crate::coq::cstr(x))))))
    )
}

// ---------------------------------------------------------------------------
// settings generation

const DERIVES: [&str; 8] = [
    "Debug", "Clone", "::core::cmp::PartialEq", "Eq", "::codec::Encode", "::codec::Decode",
    "serde::Serialize", "::core::cmp::Ord",
];
// several attributes share a path (`serde`, `cfg_attr`): their order is decided by the arguments
const ATTRS: [&str; 9] = [
    "#[allow(dead_code)]", "#[serde(rename_all = \"camelCase\")]", "#[repr(C)]",
    "#[codec(crate = ::codec)]", "#[cfg_attr(feature = \"std\", derive(Hash))]",
    "#[serde(deny_unknown_fields)]", "#[serde(bound = \"\")]", "#[cfg_attr(test, derive(PartialOrd))]",
    "#[serde(crate = \"::serde\")]",
];

pub fn item_paths(reg: &PortableRegistry) -> Vec<Vec<String>> {
    let mut seen = BTreeSet::new();
    let mut v = vec![];
    for t in &reg.types {
        let p = &t.ty.path.segments;
        if p.len() >= 2 && matches!(t.ty.type_def, TypeDef::Composite(_) | TypeDef::Variant(_)) && seen.insert(p.clone()) {
            v.push(p.clone());
        }
    }
    v
}

fn pick_some(rng: &mut Rng, pool: &[&str], max: usize) -> Vec<String> {
    let n = rng.range(1, max);
    (0..n).map(|_| rng.pick(pool).to_string()).collect()
}

pub fn has_def(reg: &PortableRegistry, f: impl Fn(&TypeDef<scale_info::form::PortableForm>) -> bool) -> bool {
    reg.types.iter().any(|t| f(&t.ty.type_def))
}

pub fn bit_order_subs(reg: &PortableRegistry) -> Vec<OpSpec> {
    let mut v = vec![];
    for t in &reg.types {
        let p = &t.ty.path.segments;
        if p.len() == 3 && p[0] == "bitvec" && p[1] == "order" {
            v.push(OpSpec::SubInsert(p.join("::"), format!("::bits::order::{}", p[2])));
        }
    }
    v.dedup_by(|a, b| format!("{a:?}") == format!("{b:?}"));
    v
}

pub struct SetCfg {
    pub derives: bool,
    pub substitutes: bool,
    pub switches: bool,
    pub missing_paths: bool,
}

pub fn rand_settings(rng: &mut Rng, reg: &PortableRegistry, cfg: &SetCfg) -> SettingsSpec {
    let mut s = SettingsSpec::default();
    let paths = item_paths(reg);
    if cfg.switches {
        s.root = rng.pick(&["types", "root", "runtime_types", "tys"]).to_string();
        s.docs = rng.chance(1, 2);
        s.codec = !rng.chance(1, 4);
        s.alloc = match rng.below(3) {
            0 => None,
            1 => Some("::alloc".into()),
            _ => Some("::my_crate::alloc_crate".into()),
        };
        s.compact_as = if rng.chance(1, 4) { None } else { Some("::codec::CompactAs".into()) };
        if rng.chance(1, 5) {
            s.compact = Some("crate::ext::Compact".into());
            s.bits = Some("crate::ext::Bits".into());
        }
    }
    if cfg.missing_paths {
        if rng.chance(1, 2) {
            s.compact = None;
        }
        if rng.chance(1, 2) {
            s.bits = None;
        }
    }
    s.ops.extend(bit_order_subs(reg));
    if cfg.derives {
        let n = rng.below(6);
        for _ in 0..n {
            let key = if paths.is_empty() || rng.chance(1, 8) {
                rng.pick(&["a::Unknown", "nope::Missing", "::a::Foo", "a::Foo<T>"]).to_string()
            } else {
                rng.pick(&paths).join("::")
            };
            s.ops.push(match rng.below(6) {
                0 => OpSpec::DerivesAll(pick_some(rng, &DERIVES, 3)),
                1 => OpSpec::AttrsAll(pick_some(rng, &ATTRS, 2)),
                2 => OpSpec::DerivesFor(key, pick_some(rng, &DERIVES, 3), false),
                3 => OpSpec::DerivesFor(key, pick_some(rng, &DERIVES, 3), true),
                4 => OpSpec::AttrsFor(key, pick_some(rng, &ATTRS, 2), rng.chance(1, 2)),
                _ => OpSpec::DerivesAll(pick_some(rng, &DERIVES, 2)),
            });
        }
    }
    if cfg.substitutes && !paths.is_empty() {
        let n = rng.below(3);
        for _ in 0..n {
            let p = rng.pick(&paths).clone();
            // number of (non-skipped) params of the first type with that path
            let np = reg
                .types
                .iter()
                .find(|t| t.ty.path.segments == p)
                .map(|t| t.ty.type_params.iter().filter(|p| p.ty.is_some()).count())
                .unwrap_or(0);
            // parameter names in the user's style or in the generator's own `_i` style
            let declared = if rng.chance(1, 2) { 0 } else { (np + rng.below(3)).saturating_sub(1).min(4) };
            // the generator's own `_i` style only when every declared name can be replaced
            // (a leftover `_i` in the target would be captured by the generics of the using item)
            let gen_style = rng.chance(1, 3) && declared >= 1 && declared <= np;
            let names = if gen_style { ["_0", "_1", "_2", "_3"] } else { ["A", "B", "C", "D"] };
            let src = if declared == 0 {
                p.join("::")
            } else {
                format!("{}<{}>", p.join("::"), names[..declared].join(", "))
            };
            let tgt_pool: Vec<String> = vec![
                "::ext::Subst".into(),
                "crate::ext::Other".into(),
                "::ext::Gen<A>".into(),
                "::ext::Gen<B, A>".into(),
                "::ext::Wrap<::ext::Inner<A>, u8>".into(),
                "::ext::Twice<A, A>".into(),
                "::ext::Tup<(A, B)>".into(),
                "::ext::Deep<::ext::L1<::ext::L2<B>>, A>".into(),
                "::ext::Fixed<u32>".into(),
                "::ext::Mod<A>::Assoc".into(),
                "::ext::Qual<a::A, A>".into(),
                // subsets / reorderings of the source parameters
                "::ext::OnlyB<B>".into(),
                "::ext::OnlyC<C>".into(),
                "::ext::CA<C, A>".into(),
                "::ext::BIn<::ext::In<B>, bool>".into(),
                "::ext::DB<D, B>".into(),
                "::ext::Arr<::ext::Q<[B; 2]>, A>".into(),
            ];
            let mut tgt = rng.pick(&tgt_pool).clone();
            if gen_style {
                // only targets whose names are all declared
                let used_max = ["A", "B", "C", "D"].iter().rposition(|n| {
                    [",", ">", ";", ")"].iter().any(|e| tgt.contains(&format!("<{n}{e}")) || tgt.contains(&format!(" {n}{e}"))
                        || tgt.contains(&format!("({n}{e}")) || tgt.contains(&format!("[{n}{e}")))
                });
                if used_max.map(|m| m >= declared).unwrap_or(false) {
                    tgt = format!("::ext::Sub<{}>", ["A", "B", "C", "D"][..declared].iter().rev().cloned().collect::<Vec<_>>().join(", "));
                }
            }
            if gen_style {
                // rename A..D in the target (whole identifiers only: they are followed by , > or ])
                for (a, b) in [("A", "_0"), ("B", "_1"), ("C", "_2"), ("D", "_3")] {
                    for end in [",", ">", ";", ")"] {
                        tgt = tgt.replace(&format!("<{a}{end}"), &format!("<{b}{end}"));
                        tgt = tgt.replace(&format!(" {a}{end}"), &format!(" {b}{end}"));
                        tgt = tgt.replace(&format!("({a}{end}"), &format!("({b}{end}"));
                        tgt = tgt.replace(&format!("[{a}{end}"), &format!("[{b}{end}"));
                    }
                }
            }
            if declared == 0 && rng.chance(2, 3) {
                tgt = rng.pick(&["::ext::Subst", "crate::ext::Other", "::ext::deep::Path"]).to_string();
            }
            s.ops.push(match rng.below(4) {
                0 => OpSpec::SubInsertIfAbsent(src, tgt),
                1 => OpSpec::SubExtend(vec![(src, tgt)]),
                _ => OpSpec::SubInsert(src, tgt),
            });
        }
    }
    s
}

// ---------------------------------------------------------------------------

pub struct Ctx {
    pub shards: Shards,
    pub meta: Meta,
    pub seen: HashSet<String>,
    pub nontrivial: usize,
    pub kinds: std::collections::BTreeMap<String, usize>,
    pub sizes: [usize; 5],
    /// C17: every pair is wrapped into a `c17_case`
    pub c17: bool,
    pub c17_counts: crate::c17::Counts,
    /// free-form counters shown in the evidence (`extra.notes`)
    pub notes: std::collections::BTreeMap<String, usize>,
}

impl Ctx {
    pub fn new(prop: &str, out: &Path, nshards: usize, evals: &[(&str, &str)], pair: bool) -> Self {
        let c17 = prop == "C17";
        Ctx {
            c17,
            c17_counts: Default::default(),
            shards: Shards::new(out, nshards, if c17 { HEADER_C17 } else { HEADER },
                                if c17 { "c17_case" } else if pair { "tg_pair" } else { "tg_case" }, evals),
            meta: Meta::new(prop),
            seen: HashSet::new(),
            nontrivial: 0,
            kinds: Default::default(),
            sizes: [0; 5],
            notes: Default::default(),
        }
    }

    pub fn push(&mut self, stream: &str, regjson: &Value, spec: &SettingsSpec) {
        let reg = reggen::to_registry(regjson);
        self.push_reg(stream, &reg, Some(regjson), spec);
    }

    pub fn push_reg(&mut self, stream: &str, reg: &PortableRegistry, regjson: Option<&Value>, spec: &SettingsSpec) {
        self.push_full(stream, reg, regjson, spec, None);
    }

    pub fn push_full(&mut self, stream: &str, reg: &PortableRegistry, regjson: Option<&Value>, spec: &SettingsSpec,
                     expect: Option<(String, Vec<u128>)>) {
        let o = observe_tg(reg, spec);
        if stream.starts_with("fault:") {
            *self.notes.entry(format!("{stream} expectation {}", expect.as_ref().map(|e| e.0.as_str()).unwrap_or("none"))).or_insert(0) += 1;
        }
        let term = coq_case(stream, reg, spec, &o, &expect);
        let n = reg.types.len();
        self.sizes[match n { 0..=3 => 0, 4..=10 => 1, 11..=30 => 2, 31..=100 => 3, _ => 4 }] += 1;
        *self.kinds.entry(o.gen.kind()).or_insert(0) += 1;
        let rj = regjson.cloned().unwrap_or_else(|| serde_json::to_value(reg).unwrap());
        let key = format!("{}|{}", rj, serde_json::to_string(spec).unwrap());
        let items = item_paths(reg).len();
        if self.seen.insert(key) && items >= 1 {
            self.nontrivial += 1;
        }
        let small = n <= 12;
        let input = json!({"registry": rj, "settings": spec, "expect": expect.as_ref().map(|(k, n)| json!({"kind": k, "nums": n.iter().map(|x| *x as u64).collect::<Vec<_>>()}))});
        let j = if small {
            json!({"stream": stream, "input": input, "observed_generate": o.gen.json(|t| json!(t.join(" "))),
                   "observed_paths": o.paths.iter().map(|p| p.json(|t| json!(t.join(" ")))).collect::<Vec<_>>()})
        } else {
            json!({"stream": stream, "input": input, "observed_generate_kind": o.gen.kind()})
        };
        let i = self.shards.push(term, j.clone());
        self.meta.count(stream);
        if small && self.meta.samples.len() < 3 && i % 37 == 5 {
            self.meta.samples.push(j);
        }
    }

    /// two related runs (C06 / C09 / C17)
    pub fn push_pair(&mut self, stream: &str, kind: &str,
                     a: (&PortableRegistry, &SettingsSpec), b: (&PortableRegistry, &SettingsSpec)) {
        self.push_pair_perm(stream, kind, a, b, &[])
    }

    /// `perm[j]` = position in `a` of the entry at position `j` of `b` (kind "renumbered")
    pub fn push_pair_perm(&mut self, stream: &str, kind: &str,
                          a: (&PortableRegistry, &SettingsSpec), b: (&PortableRegistry, &SettingsSpec), perm: &[usize]) {
        self.push_pair_full(stream, kind, a, b, perm, None)
    }

    /// (registry, `retain`-ed registry) with the id map of the retained ids to observe (C17)
    pub fn push_pair_retain(&mut self, stream: &str,
                            a: (&PortableRegistry, &SettingsSpec), b: (&PortableRegistry, &SettingsSpec),
                            info: &crate::c17::RetainInfo) {
        self.push_pair_full(stream, "retain", a, b, &[], Some(info))
    }

    pub fn push_pair_full(&mut self, stream: &str, kind: &str,
                          a: (&PortableRegistry, &SettingsSpec), b: (&PortableRegistry, &SettingsSpec), perm: &[usize],
                          retain: Option<&crate::c17::RetainInfo>) {
        let oa = observe_tg(a.0, a.1);
        let ob = observe_tg(b.0, b.1);
        let mut term = format!(
            "(mk_pair {} {} {} {})",
            crate::coq::cstr(kind),
            coq_case(stream, a.0, a.1, &oa, &None),
            coq_case(stream, b.0, b.1, &ob, &None),
            clist(perm.iter().map(|x| crate::coq::cn(*x as u128)))
        );
        let arts = match retain {
            Some(info) if self.c17 => {
                let x = crate::c17::observe(a.0, b.0, info);
                self.c17_counts.add(&x, b.0.types.len());
                x
            }
            _ => crate::c17::Arts::empty(),
        };
        if self.c17 {
            let (seeds, l) = arts.coq();
            term = format!("(mk_c17 {} {} {})", term, seeds, l);
        }
        let n = a.0.types.len();
        self.sizes[match n { 0..=3 => 0, 4..=10 => 1, 11..=30 => 2, 31..=100 => 3, _ => 4 }] += 1;
        *self.kinds.entry(format!("{}/{}", oa.gen.kind(), ob.gen.kind())).or_insert(0) += 1;
        let ra = serde_json::to_value(a.0).unwrap();
        let rb = serde_json::to_value(b.0).unwrap();
        let key = format!("{}|{}|{}|{}|{}", kind, ra, serde_json::to_string(a.1).unwrap(), rb, serde_json::to_string(b.1).unwrap());
        if self.seen.insert(key) && item_paths(a.0).len() >= 1 {
            self.nontrivial += 1;
        }
        let small = n <= 12;
        let mut input = json!({"pair_kind": kind, "perm": perm, "a": {"registry": ra, "settings": a.1}, "b": {"registry": rb, "settings": b.1}});
        // validation of both settings against their registry, canonicalised as a set (sorted entries, sorted
        // derive lists, paths as spelled): recorded in the case line only, so that the cross-process comparison
        // of C06 (driver) sees a validation error that depends on the hash seed ("validation results compared as sets")
        let validation = |reg: &PortableRegistry, spec: &SettingsSpec| -> String {
            format!("{:?}", crate::c11::observe_validate(reg, &spec.ops))
        };
        let (va, vb) = (validation(a.0, a.1), validation(b.0, b.1));
        if let Some(info) = retain {
            input["retain"] = info.json();
        }
        let mut j = if small {
            json!({"stream": stream, "input": input, "validation": [va, vb],
                   "observed_a": oa.gen.json(|t| json!(t.join(" "))), "observed_b": ob.gen.json(|t| json!(t.join(" ")))})
        } else {
            json!({"stream": stream, "input": input, "observed_kinds": [oa.gen.kind(), ob.gen.kind()], "validation": [va, vb]})
        };
        if retain.is_some() && self.c17 {
            j["observed_retained_artefacts"] = arts.json(true);
        }
        let i = self.shards.push(term, j.clone());
        self.meta.count(stream);
        if small && self.meta.samples.len() < 3 && i % 37 == 5 {
            self.meta.samples.push(j);
        }
    }

    pub fn finish(mut self, rule: &str) -> Meta {
        self.meta.evaluations = self.shards.len();
        self.meta.distinct_nontrivial = self.nontrivial;
        self.meta.rule = rule.to_string();
        self.meta.extra = json!({"generate_outcome_kinds": self.kinds, "notes": self.notes,
                                 "registry_size_histogram(0-3,4-10,11-30,31-100,>100)": self.sizes.to_vec()});
        if self.c17 {
            self.meta.extra["retain"] = self.c17_counts.json();
        }
        self.shards.finish();
        self.meta
    }
}

pub fn replay_input(p: &Path) -> (Value, SettingsSpec) {
    let v: Value = serde_json::from_str(&std::fs::read_to_string(p).unwrap()).unwrap();
    let input = if v.get("input").is_some() { v["input"].clone() } else { v };
    let spec: SettingsSpec = serde_json::from_value(input["settings"].clone()).unwrap();
    (input["registry"].clone(), spec)
}

/// the random part shared by the TG properties
pub fn random_cases(ctx: &mut Ctx, rng: &mut Rng, n: usize, gcfg: &GenCfg, scfg: &SetCfg) {
    for _ in 0..n {
        let p: Program = reggen::rand_program(rng, gcfg);
        let (rj, _roots) = reggen::build(&p);
        let reg = reggen::to_registry(&rj);
        let spec = rand_settings(rng, &reg, scfg);
        ctx.push_reg("random-program", &reg, Some(&rj), &spec);
    }
}

pub fn generate(prop: &str, tier: &str, seed: u64, out: &Path, nshards: usize, replay: Option<&Path>) -> Meta {
    let evals: Vec<(&str, &str)> = crate::tgprops::evals(prop);
    let pair = crate::tgprops::is_pair(prop);
    let mut ctx = Ctx::new(prop, out, nshards, &evals, pair);
    let mut rng = Rng::new(seed ^ 0x7467);
    if let Some(p) = replay {
        let v: Value = serde_json::from_str(&std::fs::read_to_string(p).unwrap()).unwrap();
        let input = if v.get("input").is_some() { v["input"].clone() } else { v };
        if pair {
            let ra = reggen::to_registry(&input["a"]["registry"]);
            let rb = reggen::to_registry(&input["b"]["registry"]);
            let sa: SettingsSpec = serde_json::from_value(input["a"]["settings"].clone()).unwrap();
            let sb: SettingsSpec = serde_json::from_value(input["b"]["settings"].clone()).unwrap();
            let perm: Vec<usize> = input["perm"].as_array().map(|a| a.iter().map(|x| x.as_u64().unwrap_or(0) as usize).collect()).unwrap_or_default();
            let info = crate::c17::RetainInfo::from_json(&input["retain"]);
            ctx.push_pair_full("replay", input["pair_kind"].as_str().unwrap_or("same"), (&ra, &sa), (&rb, &sb), &perm, info.as_ref());
        } else {
            let reg = reggen::to_registry(&input["registry"]);
            // a replay recorded by another property's check (C03 / C04 family cases) has no settings
            let mut spec: SettingsSpec = serde_json::from_value(input["settings"].clone()).unwrap_or_default();
            if input["settings"].is_null() {
                spec.ops.extend(bit_order_subs(&reg));
            }
            let expect = input.get("expect").and_then(|e| if e.is_null() { None } else {
                Some((e["kind"].as_str().unwrap().to_string(),
                      e["nums"].as_array().unwrap().iter().map(|x| x.as_u64().unwrap() as u128).collect::<Vec<_>>())) });
            ctx.push_full("replay", &reg, Some(&input["registry"]), &spec, expect);
        }
        return ctx.finish("replay of one recorded input");
    }
    // pair properties: recorded pair witnesses first (corpus/pairs/<prop>/*.json, replay format)
    if pair {
        let dir = crate::util::verif_dir().join("corpus").join("pairs").join(prop);
        if let Ok(rd) = std::fs::read_dir(dir) {
            let mut ps: Vec<_> = rd.filter_map(|e| e.ok()).map(|e| e.path()).filter(|p| p.extension().map(|x| x == "json").unwrap_or(false)).collect();
            ps.sort();
            for p in ps {
                let Ok(t) = std::fs::read_to_string(&p) else { continue };
                let Ok(v) = serde_json::from_str::<Value>(&t) else { continue };
                let input = if v.get("input").is_some() { v["input"].clone() } else { v };
                if !input["a"]["registry"].is_object() || !input["b"]["registry"].is_object() {
                    continue;
                }
                let ra = reggen::to_registry(&input["a"]["registry"]);
                let rb = reggen::to_registry(&input["b"]["registry"]);
                let sa: SettingsSpec = serde_json::from_value(input["a"]["settings"].clone()).unwrap_or_default();
                let sb: SettingsSpec = serde_json::from_value(input["b"]["settings"].clone()).unwrap_or_default();
                let perm: Vec<usize> = input["perm"].as_array().map(|a| a.iter().map(|x| x.as_u64().unwrap_or(0) as usize).collect()).unwrap_or_default();
                let info = crate::c17::RetainInfo::from_json(&input["retain"]);
                ctx.push_pair_full("corpus-witness", input["pair_kind"].as_str().unwrap_or("same"), (&ra, &sa), (&rb, &sb), &perm, info.as_ref());
            }
        }
    }
    // recorded witnesses first (corpus/TG/*.json: {"input": {"registry": .., "settings": ..}}): minimised
    // failing inputs of repaired defects and of seeded changes; every single-case TG property runs them
    if !pair {
        let dir = crate::util::verif_dir().join("corpus").join("TG");
        if let Ok(rd) = std::fs::read_dir(dir) {
            let mut ps: Vec<_> = rd.filter_map(|e| e.ok()).map(|e| e.path()).filter(|p| p.extension().map(|x| x == "json").unwrap_or(false)).collect();
            ps.sort();
            for p in ps {
                let Ok(t) = std::fs::read_to_string(&p) else { continue };
                let Ok(v) = serde_json::from_str::<Value>(&t) else { continue };
                let input = if v.get("input").is_some() { v["input"].clone() } else { v };
                if !input["registry"].is_object() {
                    continue;
                }
                let reg = reggen::to_registry(&input["registry"]);
                let mut spec: SettingsSpec = serde_json::from_value(input["settings"].clone()).unwrap_or_default();
                if input["settings"].is_null() {
                    spec.ops.extend(bit_order_subs(&reg));
                }
                ctx.push_full("corpus-witness", &reg, Some(&input["registry"]), &spec, None);
            }
        }
    }
    crate::tgprops::cases(prop, tier, &mut ctx, &mut rng);
    ctx.finish(crate::tgprops::rule(prop))
}
