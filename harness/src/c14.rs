//! C14: example Rust expressions (`rust_value::example_from_seed(id, types, settings, seed, None, None)`).
//!
//! One case = one (registry, settings) pair with: the observed `generate_types_mod` tokens, the
//! observed `resolve_type_path` tokens of every id, and per seed the first K words of the ChaCha8
//! stream (module `rngwords`) plus, per type id, the observed outcome (flattened expression tokens /
//! error class / panic), whether `syn::parse2::<syn::Expr>` accepts the expression, and a
//! determinism flag (the call is repeated in-process).
use crate::coq::{cbool, clist, cn, cstr, Shards};
use crate::obs::{observe, Obs};
use crate::reggen::{self, GenCfg};
use crate::regprint;
use crate::rng::Rng;
use crate::rngwords;
use crate::sets::{self, ctokens, OpSpec, SettingsSpec};
use crate::tg::{rand_settings, SetCfg};
use crate::tok::flatten;
use crate::util::{polkadot_registry, verif_dir, Meta};
use scale_info::{PortableRegistry, TypeDef, TypeDefPrimitive};
use scale_typegen::typegen::ir::ToTokensWithSettings;
use scale_typegen::{TypeGenerator, TypeGeneratorSettings};
use scale_typegen_description::rust_value_from_seed as example_from_seed;
use serde_json::{json, Value as J};
use std::collections::{BTreeMap, HashSet};
use std::path::Path;

pub const HEADER: &str = "From Coq Require Import List NArith ZArith String.\nFrom V Require Import Base.Util Base.Result Model.Registry Model.Settings Model.Subst Model.Builders Model.RngWords Model.ExampleRust Corr.RunTG Corr.RunC14.\nFrom V Require Proofs.ConformsCase.\nImport ListNotations. Open Scope string_scope.";
pub const EVALS: [(&str, &str); 26] = [
    // hypotheses of the pinned theorem C14_prop_conforms_of_corr (Proofs/ConformsCase.v): observed module and
    // paths equal the model's, reader scope; with corr_example they IMPLY prop_conforms
    ("corr_module", "V.Proofs.ConformsCase.corr_module"),
    ("corr_model_paths", "V.Proofs.ConformsCase.corr_model_paths"),
    ("hyp_reader_scope", "V.Proofs.ConformsCase.hyp_reader_scope"),
    ("known_F14", "known_F14"),
    ("known_F15", "known_F15"),
    ("hyp_ok", "hyp_ok"),
    ("hyp_err", "hyp_err"),
    ("hyp_panic", "hyp_panic"),
    ("hyp_recursive", "hyp_recursive"),
    ("hyp_marker", "hyp_marker"),
    ("hyp_item_checked", "hyp_item_checked"),
    ("hyp_module", "hyp_module"),
    ("hyp_in_class", "hyp_in_class"),
    ("hyp_total_hyps", "hyp_total_hyps"),
    ("hyp_compact_wrapped", "hyp_compact_wrapped"),
    // the Copy side condition of the array repeat form is exercised (arrays of >= 2 non-copy / copy elements)
    ("hyp_array_noncopy", "hyp_array_noncopy"),
    ("hyp_array_copy_repeat", "hyp_array_copy_repeat"),
    ("hyp_irb_accepts", "hyp_irb_accepts"),
    ("corr_example", "corr_example"),
    ("corr_settings", "corr_settings"),
    ("corr_conforms_agree", "corr_conforms_agree"),
    ("prop_parses", "prop_parses"),
    ("prop_deterministic", "prop_deterministic"),
    ("prop_conforms", "prop_conforms"),
    ("prop_no_panic_in_class", "prop_no_panic_in_class"),
    ("prop_total_in_class", "prop_total_in_class"),
];

/// long list literals overflow coqc's stack: build them from chunks
fn clist_big(items: Vec<String>) -> String {
    if items.len() <= 600 {
        return clist(items);
    }
    format!("(List.concat {})", clist(items.chunks(400).map(|c| clist(c.to_vec()))))
}
fn ctokens_big(t: &[String]) -> String {
    clist_big(t.iter().map(|s| cstr(s)).collect())
}

// ---------------------------------------------------------------------------
// observations

#[derive(Clone, Debug, PartialEq)]
pub enum Out {
    Ok(Vec<String>, bool),      // flattened tokens, syn::Expr accepted
    Err(String, Vec<u128>, String), // class, numeric payload, full message
    Panic,
}

fn classify(msg: &str) -> (String, Vec<u128>) {
    let num_after = |prefix: &str| -> Vec<u128> {
        let rest = &msg[prefix.len()..];
        let n: String = rest.chars().take_while(|c| c.is_ascii_digit()).collect();
        vec![n.parse().unwrap_or(u128::MAX)]
    };
    if msg.starts_with("Cannot generate rust type example for recursive type") {
        ("Recursive".into(), vec![])
    } else if msg.starts_with("Variant type should have at least one variant") {
        ("EmptyEnum".into(), vec![])
    } else if msg.starts_with("mixed fields in struct def") {
        ("MixedFields".into(), vec![])
    } else if msg.starts_with("Type with id ") {
        ("NotFound".into(), num_after("Type with id "))
    } else if msg.starts_with("Could not find type with ID ") {
        ("TypeNotFound".into(), num_after("Could not find type with ID "))
    } else if msg.starts_with("Could not parse into a syn type") {
        ("SynParseError".into(), vec![])
    } else if msg.starts_with("Fields should either be all named or all unnamed") {
        ("InvalidFields".into(), vec![])
    } else if msg.starts_with("A type in the metadata was invalid") {
        ("InvalidType".into(), vec![])
    } else if msg.starts_with("Could not generate a type that contains a compact type") {
        ("CompactPathNone".into(), vec![])
    } else if msg.starts_with("Could not generate a type that contains a bit sequence") {
        ("DecodedBitsPathNone".into(), vec![])
    } else {
        ("Other".into(), vec![])
    }
}

fn call(reg: &PortableRegistry, settings: &TypeGeneratorSettings, id: u32, seed: u64) -> Out {
    crate::util::inflight(&serde_json::json!({"ids": [id], "seeds": [seed]}));
    match std::panic::catch_unwind(std::panic::AssertUnwindSafe(|| example_from_seed(id, reg, settings, seed, None, None))) {
        Ok(Ok(ts)) => {
            let syn_ok = std::panic::catch_unwind(std::panic::AssertUnwindSafe(|| syn::parse2::<syn::Expr>(ts.clone()).is_ok()))
                .unwrap_or(false);
            Out::Ok(flatten(ts), syn_ok)
        }
        Ok(Err(e)) => {
            let m = e.to_string();
            let (k, n) = classify(&m);
            Out::Err(k, n, m)
        }
        Err(_) => Out::Panic,
    }
}

pub struct EObs {
    pub id: u32,
    pub out: Out,
    pub det: bool,
}

impl EObs {
    fn coq(&self) -> String {
        let (o, syn) = match &self.out {
            Out::Ok(t, syn) => (format!("(OOk {})", ctokens_big(t)), *syn),
            Out::Err(k, n, _) => (format!("(OErr {} {} \"\")", cstr(k), clist(n.iter().map(|x| cn(*x)))), true),
            Out::Panic => ("OPanic".to_string(), true),
        };
        format!("(mk_eobs {} {} {} {})", cn(self.id as u128), o, cbool(syn), cbool(self.det))
    }
    fn json(&self) -> J {
        let o = match &self.out {
            Out::Ok(t, syn) => json!({"ok": t.join(" "), "syn_expr_ok": syn}),
            Out::Err(k, n, m) => json!({"err": k, "nums": n.iter().map(|x| *x as u64).collect::<Vec<_>>(), "msg": m.chars().take(160).collect::<String>()}),
            Out::Panic => json!("panic"),
        };
        json!({"id": self.id, "out": o, "deterministic": self.det})
    }
    fn kind(&self) -> String {
        match &self.out {
            Out::Ok(_, _) => "Ok".into(),
            Out::Err(k, _, _) => format!("Err:{k}"),
            Out::Panic => "Panic".into(),
        }
    }
}

// ---------------------------------------------------------------------------
// How many words does a run consume at most?  (Only sizes the word list handed to the model: too
// few words make the model report OutOfWords = a loud corr_example failure, never a pass.)  The
// simulation ignores errors of the path resolver (it then over-estimates, which is harmless) and
// gives up on traversals that are too large or too deep (the observation is then skipped: on a
// registry with a cycle of sequence/array element edges the implementation itself overflows its stack).

struct Sim<'a> {
    reg: &'a PortableRegistry,
    words: &'a [u32],
    pos: usize,
    inprog: HashSet<u32>,
    short: bool,
    steps: usize,
    depth: usize,
    too_big: bool,
}

impl<'a> Sim<'a> {
    fn next(&mut self) -> Result<u32, ()> {
        if self.pos >= self.words.len() {
            self.short = true;
            return Err(());
        }
        self.pos += 1;
        Ok(self.words[self.pos - 1])
    }
    fn skip(&mut self, n: usize) -> Result<(), ()> {
        for _ in 0..n {
            self.next()?;
        }
        Ok(())
    }
    fn index(&mut self, n: u32) -> Result<u32, ()> {
        let zone = (n << n.leading_zeros()).wrapping_sub(1);
        loop {
            let m = self.next()? as u64 * n as u64;
            if (m as u32) <= zone {
                return Ok((m >> 32) as u32);
            }
        }
    }
    fn fields(&mut self, fs: &[(bool, u32)]) -> Result<(), ()> {
        let named = fs.iter().all(|f| f.0);
        let unnamed = fs.iter().all(|f| !f.0);
        if !named && !unnamed {
            return Err(());
        }
        for f in fs {
            self.resolve(f.1)?;
        }
        Ok(())
    }
    fn resolve(&mut self, id: u32) -> Result<(), ()> {
        let ty = self.reg.resolve(id).ok_or(())?;
        if self.inprog.contains(&id) {
            return Err(());
        }
        self.inprog.insert(id);
        self.ty_example(ty)?;
        self.inprog.remove(&id);
        Ok(())
    }
    fn ty_example(&mut self, ty: &scale_info::Type<scale_info::form::PortableForm>) -> Result<(), ()> {
        self.steps += 1;
        self.depth += 1;
        if self.steps > 200_000 || self.depth > 400 {
            self.too_big = true;
            return Err(());
        }
        match &ty.type_def {
            TypeDef::Composite(c) => {
                let fs: Vec<_> = c.fields.iter().map(|f| (f.name.is_some(), f.ty.id)).collect();
                self.fields(&fs)?
            }
            TypeDef::Variant(v) => {
                if v.variants.is_empty() {
                    return Err(());
                }
                let i = self.index(v.variants.len() as u32)? as usize;
                let fs: Vec<_> = v.variants[i].fields.iter().map(|f| (f.name.is_some(), f.ty.id)).collect();
                self.fields(&fs)?
            }
            TypeDef::Sequence(s) => {
                let e = self.reg.resolve(s.type_param.id).ok_or(())?;
                self.ty_example(e)?;
                self.ty_example(e)?
            }
            TypeDef::Array(a) => {
                let e = self.reg.resolve(a.type_param.id).ok_or(())?;
                self.ty_example(e)?;
                if a.len > 3000 {
                    self.too_big = true;
                    return Err(());
                }
            }
            TypeDef::Tuple(t) => {
                for f in &t.fields {
                    self.resolve(f.id)?;
                }
            }
            TypeDef::Primitive(p) => match p {
                TypeDefPrimitive::Char => {
                    self.index(7)?;
                }
                TypeDefPrimitive::Str => {
                    self.index(4)?;
                }
                TypeDefPrimitive::U64 | TypeDefPrimitive::I64 => self.skip(2)?,
                TypeDefPrimitive::U128 | TypeDefPrimitive::I128 => self.skip(4)?,
                TypeDefPrimitive::U256 | TypeDefPrimitive::I256 => self.skip(32)?,
                _ => self.skip(1)?,
            },
            TypeDef::Compact(c) => self.resolve(c.type_param.id)?,
            TypeDef::BitSequence(_) => {}
        }
        self.depth -= 1;
        Ok(())
    }
}

/// `type_def_is_copy` loops forever on a cycle of array/tuple/compact edges: detect it up front
fn copy_walk_finite(reg: &PortableRegistry, id: u32, budget: &mut usize) -> bool {
    if *budget == 0 {
        return false;
    }
    *budget -= 1;
    match reg.resolve(id).map(|t| &t.type_def) {
        Some(TypeDef::Array(a)) => a.len > 32 || copy_walk_finite(reg, a.type_param.id, budget),
        Some(TypeDef::Tuple(t)) => t.fields.iter().all(|f| copy_walk_finite(reg, f.id, budget)),
        Some(TypeDef::Compact(c)) => copy_walk_finite(reg, c.type_param.id, budget),
        _ => true,
    }
}

/// the path resolver recurses over parameter / element / compact edges without protection
fn path_walk_finite(reg: &PortableRegistry, id: u32, budget: &mut usize) -> bool {
    if *budget == 0 {
        return false;
    }
    *budget -= 1;
    let Some(t) = reg.resolve(id) else { return true };
    for p in &t.type_params {
        if let Some(pt) = p.ty {
            if !path_walk_finite(reg, pt.id, budget) {
                return false;
            }
        }
    }
    match &t.type_def {
        TypeDef::Sequence(s) => path_walk_finite(reg, s.type_param.id, budget),
        TypeDef::Array(a) => path_walk_finite(reg, a.type_param.id, budget),
        TypeDef::Tuple(tp) => tp.fields.iter().all(|f| path_walk_finite(reg, f.id, budget)),
        TypeDef::Compact(c) => path_walk_finite(reg, c.type_param.id, budget),
        TypeDef::BitSequence(b) => path_walk_finite(reg, b.bit_store_type.id, budget) && path_walk_finite(reg, b.bit_order_type.id, budget),
        _ => true,
    }
}

fn safe_to_call(reg: &PortableRegistry) -> bool {
    (0..reg.types.len() as u32).all(|i| {
        let mut b1 = 20_000usize;
        let mut b2 = 20_000usize;
        copy_walk_finite(reg, i, &mut b1) && path_walk_finite(reg, i, &mut b2)
    })
}

/// upper bound of the words the run on (id, seed) consumes; None = traversal too large (skipped)
fn words_needed(reg: &PortableRegistry, id: u32, seed: u64) -> Option<usize> {
    let mut k = 256usize;
    loop {
        let ws = rngwords::words(seed, k);
        let mut s = Sim { reg, words: &ws, pos: 0, inprog: HashSet::new(), short: false, steps: 0, depth: 0, too_big: false };
        let _ = s.resolve(id);
        if s.too_big {
            return None;
        }
        if !s.short {
            return Some(s.pos);
        }
        k *= 4;
        if k > (1 << 20) {
            return None;
        }
    }
}

// ---------------------------------------------------------------------------
// hand-built registries (scale-info JSON)

fn entry(id: usize, path: &[&str], params: J, def: J) -> J {
    json!({"id": id, "type": {"path": path, "params": params, "def": def, "docs": []}})
}
fn prim(p: &str) -> J {
    json!({"primitive": p})
}
fn nf(name: &str, ty: usize) -> J {
    json!({"name": name, "type": ty, "docs": []})
}
fn nft(name: &str, ty: usize, tn: &str) -> J {
    json!({"name": name, "type": ty, "typeName": tn, "docs": []})
}
fn uf(ty: usize) -> J {
    json!({"type": ty, "docs": []})
}
fn uft(ty: usize, tn: &str) -> J {
    json!({"type": ty, "typeName": tn, "docs": []})
}
fn comp(fs: Vec<J>) -> J {
    json!({"composite": {"fields": fs}})
}
fn var(name: &str, index: usize, fs: Vec<J>) -> J {
    json!({"name": name, "index": index, "fields": fs, "docs": []})
}
fn variants(vs: Vec<J>) -> J {
    json!({"variant": {"variants": vs}})
}
fn seq(t: usize) -> J {
    json!({"sequence": {"type": t}})
}
fn arr(len: usize, t: usize) -> J {
    json!({"array": {"len": len, "type": t}})
}
fn tup(ts: &[usize]) -> J {
    json!({"tuple": ts})
}
fn compact(t: usize) -> J {
    json!({"compact": {"type": t}})
}
fn tp(name: &str, ty: Option<usize>) -> J {
    match ty {
        Some(t) => json!({"name": name, "type": t}),
        None => json!({"name": name}),
    }
}

struct B(Vec<J>);
impl B {
    fn add(&mut self, path: &[&str], def: J) -> usize {
        self.addp(path, json!([]), def)
    }
    fn addp(&mut self, path: &[&str], params: J, def: J) -> usize {
        let id = self.0.len();
        self.0.push(entry(id, path, params, def));
        id
    }
    fn reg(self) -> J {
        json!({"types": self.0})
    }
}

const PRIMS13: [&str; 13] = ["bool", "char", "str", "u8", "u16", "u32", "u64", "u128", "i8", "i16", "i32", "i64", "i128"];

/// every type-def arm and every primitive width (no 256-bit ints, no bit sequences)
fn arms_registry(with_256_bits: bool) -> J {
    let mut b = B(vec![]);
    let mut p = BTreeMap::new();
    for n in PRIMS13 {
        p.insert(n, b.add(&[], prim(n)));
    }
    // compact of every unsigned width, explicit and as attribute
    let mut cs = BTreeMap::new();
    for n in ["u8", "u16", "u32", "u64", "u128"] {
        cs.insert(n, b.add(&[], compact(p[n])));
    }
    b.add(&["c", "Explicit"], comp(vec![
        nft("a", cs["u8"], "Compact<u8>"), nft("b", cs["u16"], "Compact<u16>"),
        nft("c", cs["u32"], "u32"), nft("d", cs["u128"], "Compact<u128>"), nf("e", cs["u64"])]));
    b.add(&["c", "ExplicitT"], comp(vec![uft(cs["u8"], "Compact<u8>"), uft(cs["u64"], "u64"), uft(p["u8"], "Compact<Fake>")]));
    b.add(&["c", "En"], variants(vec![var("A", 0, vec![uft(cs["u32"], "Compact<u32>")]), var("B", 1, vec![nft("x", cs["u16"], "Compact<u16>"), nft("y", cs["u16"], "u16")])]));
    // sequences, arrays (copy / non-copy / long / nested / empty), tuples
    let seq_u8 = b.add(&[], seq(p["u8"]));
    b.add(&[], seq(seq_u8));
    b.add(&[], seq(p["str"]));
    b.add(&[], arr(0, p["u8"]));
    b.add(&[], arr(0, p["str"]));
    b.add(&[], arr(1, p["i16"]));
    let arr4 = b.add(&[], arr(4, p["u8"]));
    let arr3 = b.add(&[], arr(3, arr4));
    b.add(&[], arr(2, arr3));
    b.add(&[], arr(40, p["bool"]));
    let arr33 = b.add(&[], arr(33, p["u8"]));
    b.add(&[], arr(2, arr33)); // element is an array longer than 32: not "copy"
    b.add(&[], arr(32, p["i8"]));
    b.add(&[], arr(3, p["str"]));
    b.add(&[], arr(2, seq_u8));
    let unit = b.add(&[], tup(&[]));
    let t1 = b.add(&[], tup(&[p["u16"]]));
    let t11 = b.add(&[], tup(&[t1]));
    let t3 = b.add(&[], tup(&[p["u8"], p["char"], unit]));
    b.add(&[], tup(&[p["i128"], p["u128"], p["i64"], p["u64"], p["str"]]));
    b.add(&[], arr(2, t3)); // tuple of copy types
    b.add(&[], arr(2, t11));
    let tstr = b.add(&[], tup(&[p["u8"], p["str"]]));
    b.add(&[], arr(2, tstr)); // tuple with a String: not copy
    b.add(&[], arr(3, cs["u32"])); // compact of copy
    b.add(&[], arr(2, unit));
    // composites
    b.add(&["s", "Unit"], comp(vec![]));
    let pt = b.add(&["s", "Point"], comp(vec![nf("x", p["i32"]), nf("y", p["i32"])]));
    b.add(&["s", "Pair"], comp(vec![uf(p["u8"]), uf(pt)]));
    b.add(&["s", "One"], comp(vec![uf(p["i8"])]));
    b.add(&[], arr(2, pt)); // struct: not copy
    // generic types: used, unused, skipped params; unit / tuple / named bodies
    b.addp(&["g", "Used"], json!([tp("T", Some(p["u16"]))]), comp(vec![nft("v", p["u16"], "T")]));
    b.addp(&["g", "Unused"], json!([tp("T", Some(p["u16"]))]), comp(vec![nft("v", p["u8"], "u8")]));
    b.addp(&["g", "UnusedT"], json!([tp("T", Some(p["u16"])), tp("U", Some(p["i8"]))]), comp(vec![uft(p["i8"], "U")]));
    b.addp(&["g", "UnusedUnit"], json!([tp("T", Some(p["u32"]))]), comp(vec![]));
    b.addp(&["g", "UnusedUnit2"], json!([tp("T", Some(p["u32"])), tp("U", Some(p["bool"]))]), comp(vec![]));
    b.addp(&["g", "Skipped"], json!([tp("T", None)]), comp(vec![nft("v", p["u8"], "u8")]));
    b.addp(&["g", "SkippedUnit"], json!([tp("T", None), tp("U", None)]), comp(vec![]));
    b.addp(&["g", "EnUnused"], json!([tp("T", Some(p["u16"])), tp("U", Some(p["i64"]))]),
           variants(vec![var("A", 0, vec![uft(p["i64"], "U")]), var("B", 1, vec![]), var("C", 5, vec![nft("k", p["bool"], "bool")])]));
    // enums
    b.add(&["e", "One"], variants(vec![var("Only", 0, vec![])]));
    let color = b.add(&["e", "Color"], variants(vec![var("Black", 0, vec![]), var("White", 1, vec![]), var("Green", 7, vec![uf(p["i32"])])]));
    b.add(&["e", "Shape"], variants(vec![
        var("Dot", 0, vec![]),
        var("Line", 1, vec![nf("from", pt), nf("to", pt)]),
        var("Tagged", 2, vec![uf(color), uf(p["str"])]),
        var("Wide", 3, vec![uf(p["u128"])]),
        var("Flag", 4, vec![nf("on", p["bool"])]),
    ]));
    b.add(&["e", "Nine"], variants((0..9).map(|i| var(&format!("V{i}"), i, vec![])).collect()));
    // prelude types
    let opt = b.addp(&["Option"], json!([tp("T", Some(p["u32"]))]), variants(vec![var("None", 0, vec![]), var("Some", 1, vec![uf(p["u32"])])]));
    b.addp(&["Option"], json!([tp("T", Some(pt))]), variants(vec![var("None", 0, vec![]), var("Some", 1, vec![uf(pt)])]));
    b.addp(&["Result"], json!([tp("T", Some(p["u8"])), tp("E", Some(p["str"]))]), variants(vec![var("Ok", 0, vec![uf(p["u8"])]), var("Err", 1, vec![uf(p["str"])])]));
    b.addp(&["Range"], json!([tp("Idx", Some(p["u32"]))]), comp(vec![nft("start", p["u32"], "Idx"), nft("end", p["u32"], "Idx")]));
    b.addp(&["BTreeSet"], json!([tp("T", Some(p["u8"]))]), comp(vec![uf(seq_u8)]));
    b.addp(&["Cow"], json!([tp("T", Some(seq_u8))]), comp(vec![uf(seq_u8)]));
    let tvec = b.add(&[], tup(&[seq_u8, p["u16"]]));
    b.addp(&["Cow"], json!([tp("T", Some(tvec))]), comp(vec![uf(tvec)]));
    b.add(&[], seq(opt));
    b.add(&["s", "HasOpt"], comp(vec![nf("o", opt), nf("p", opt), nf("q", opt)]));
    if with_256_bits {
        let u256 = b.add(&[], prim("u256"));
        let i256 = b.add(&[], prim("i256"));
        b.add(&[], arr(2, u256));
        b.add(&["s", "Big"], comp(vec![nf("a", u256), nf("b", i256)]));
        let lsb = b.add(&["bitvec", "order", "Lsb0"], comp(vec![]));
        let bits = b.add(&[], json!({"bitsequence": {"bit_store_type": p["u8"], "bit_order_type": lsb}}));
        b.add(&["s", "HasBits"], comp(vec![nf("b", bits), nf("n", p["u8"])]));
        b.add(&[], seq(bits));
        b.addp(&["g", "Gen256"], json!([tp("T", Some(u256))]), comp(vec![nft("v", u256, "T")]));
    }
    b.reg()
}

/// recursion, empty enums, mixed fields, dangling ids, panics
fn fault_registries() -> Vec<(&'static str, J)> {
    let e = |id: usize, path: &[&str], def: J| entry(id, path, json!([]), def);
    let mut out = vec![];
    // direct recursion through Box (transparent in the registry)
    out.push(("cycle_box", json!({"types": [e(0, &["a", "Human"], comp(vec![nft("name", 1, "String"), nft("mom", 0, "Box<Human>")])), e(1, &[], prim("str"))]})));
    out.push(("cycle_mutual", json!({"types": [
        e(0, &["a", "A"], comp(vec![nf("b", 1)])), e(1, &["a", "B"], comp(vec![uf(2), uf(0)])), e(2, &[], prim("u8"))]})));
    // through Vec: the sequence arm bypasses the marker, the recursion is caught when the FIELD (the Vec id) is revisited
    out.push(("cycle_vec", json!({"types": [
        e(0, &["a", "Tree"], comp(vec![nft("v", 2, "u16"), nft("children", 1, "Vec<Tree>")])), e(1, &[], seq(0)), e(2, &[], prim("u16"))]})));
    out.push(("cycle_vec_vec", json!({"types": [
        e(0, &["a", "T"], comp(vec![nf("c", 1)])), e(1, &[], seq(2)), e(2, &[], seq(0)), e(3, &[], arr(2, 1))]})));
    out.push(("cycle_array_enum", json!({"types": [
        e(0, &["a", "L"], variants(vec![var("Nil", 0, vec![]), var("Cons", 1, vec![uf(1), uf(2)])])),
        e(1, &[], prim("char")), e(2, &[], arr(2, 0)), e(3, &[], seq(2))]})));
    out.push(("cycle_option", json!({"types": [
        e(0, &["a", "Node"], comp(vec![nf("v", 2), nf("next", 1)])),
        entry(1, &["Option"], json!([tp("T", Some(0))]), variants(vec![var("None", 0, vec![]), var("Some", 1, vec![uf(0)])])),
        e(2, &[], prim("u8"))]})));
    out.push(("cycle_tuple_compact", json!({"types": [
        e(0, &["a", "T"], comp(vec![uf(1)])), e(1, &[], tup(&[2, 3])), e(2, &[], prim("bool")), e(3, &[], compact(0)),
        e(4, &["a", "Zero"], comp(vec![nf("none", 5), nf("k", 2)])), e(5, &[], arr(0, 4))]})));
    // a diamond: the Computed entry is hit and the example recomputed with fresh randomness
    out.push(("diamond", json!({"types": [
        e(0, &["a", "D"], comp(vec![nf("l", 1), nf("r", 1), nf("s", 2), nf("t", 4)])),
        e(1, &["a", "Leaf"], comp(vec![uf(3), uf(3)])), e(2, &[], seq(1)), e(3, &[], prim("u64")), e(4, &[], tup(&[1, 3, 1]))]})));
    out.push(("empty_enum", json!({"types": [
        e(0, &["a", "Void"], variants(vec![])),
        e(1, &["a", "HasVoid"], comp(vec![nf("x", 2), nf("v", 0)])),
        e(2, &[], prim("u8")),
        entry(3, &["Option"], json!([tp("T", Some(0))]), variants(vec![var("None", 0, vec![]), var("Some", 1, vec![uf(0)])])),
        e(4, &[], arr(0, 0)), e(5, &[], seq(3))]})));
    out.push(("mixed", json!({"types": [
        e(0, &["a", "Mixed"], comp(vec![nf("x", 2), uf(2)])),
        e(1, &["a", "E"], variants(vec![var("Good", 0, vec![uf(2)]), var("Bad", 1, vec![uf(2), nf("y", 2)])])),
        e(2, &[], prim("u8")), e(3, &[], tup(&[2, 0])), e(4, &[], seq(1))]})));
    out.push(("dangling", json!({"types": [
        e(0, &["a", "Dangling"], comp(vec![nf("x", 1), nf("y", 9)])), e(1, &[], prim("u8")),
        e(2, &[], seq(7)), e(3, &[], compact(44)), e(4, &[], arr(2, 8)), e(5, &[], tup(&[1, 6])),
        entry(6, &["a", "P"], json!([tp("T", Some(12))]), comp(vec![nf("x", 1)]))]})));
    // panics: names that are not identifiers, unknown prelude type, path-less composite
    out.push(("bad_names", json!({"types": [
        e(0, &["a", "S"], comp(vec![nf("x", 5), nf("1x", 5)])),
        e(1, &["a", "E"], variants(vec![var("Ok", 0, vec![]), var("not an ident", 1, vec![]), var("", 2, vec![])])),
        e(2, &["Duration"], comp(vec![nf("secs", 5)])),
        e(3, &[], comp(vec![nf("x", 5)])),
        e(4, &["a", "K"], comp(vec![nf("type", 5), nf("_", 5), nf("self", 5)])),
        e(5, &[], prim("u8")),
        e(6, &["a", "bad seg", "X"], comp(vec![])),
        e(7, &["a", "V"], variants(vec![var("struct", 0, vec![uf(5)])])),
        e(8, &[], seq(2)), e(9, &[], tup(&[0])), e(10, &["a", "Err1"], comp(vec![nf("ok", 5), nf("bad", 0)]))]})));
    out
}

/// random closed type graphs: cycles through fields, empty enums, mixed field lists; sequence / array
/// element edges always point to larger ids (the implementation has no protection on those)
fn soup(rng: &mut Rng) -> J {
    let n = rng.range(1, 9);
    let prims = PRIMS13;
    let fnames = ["x", "y", "z", "w"];
    let mut types = vec![];
    for id in 0..n {
        let last = id + 1 == n;
        let up = |rng: &mut Rng| if id + 1 < n { rng.range(id + 1, n - 1) } else { id };
        let fwd = |rng: &mut Rng| if rng.chance(3, 4) && id + 1 < n { rng.range(id + 1, n - 1) } else { rng.below(n) };
        let fields = |rng: &mut Rng| -> Vec<J> {
            let k = rng.below(4);
            let style = rng.below(10); // 0..=4 named, 5..=8 unnamed, 9 mixed
            (0..k)
                .map(|i| {
                    let t = fwd(rng);
                    let named = match style { 0..=4 => true, 5..=8 => false, _ => rng.chance(1, 2) };
                    let tn = match rng.below(5) { 0 => Some("Compact<X>"), 1 => Some("Box<X>"), 2 => Some("X"), _ => None };
                    match (named, tn) {
                        (true, Some(tn)) => nft(fnames[i], t, tn),
                        (true, None) => nf(fnames[i], t),
                        (false, Some(tn)) => uft(t, tn),
                        (false, None) => uf(t),
                    }
                })
                .collect()
        };
        let def = match if last { 5 } else { rng.below(11) } {
            0 | 1 => comp(fields(rng)),
            2 | 3 => {
                let nv = if rng.chance(1, 8) { 0 } else { rng.range(1, 4) };
                variants((0..nv).map(|i| var(&format!("V{i}"), i, fields(rng))).collect())
            }
            4 => seq(up(rng)),
            5 | 6 | 7 => prim(*rng.pick(&prims)),
            8 => arr(rng.below(5), up(rng)),
            9 => json!({"tuple": (0..rng.below(4)).map(|_| up(rng)).collect::<Vec<_>>()}),
            _ => compact(up(rng)),
        };
        let is_named = matches!(def.as_object().unwrap().keys().next().unwrap().as_str(), "composite" | "variant");
        let name = format!("T{id}");
        let path: Vec<&str> = if is_named { vec!["m", &name] } else { vec![] };
        // a type parameter pointing upwards (used or not is decided by the ids of the fields)
        let params = if is_named && id + 1 < n && rng.chance(1, 3) { json!([tp("P", Some(up(rng)))]) } else { json!([]) };
        types.push(entry(id, &path, params, def));
    }
    json!({"types": types})
}

fn strip_docs(v: &mut J) {
    match v {
        J::Object(m) => {
            if let Some(d) = m.get_mut("docs") {
                *d = json!([]);
            }
            for (_, x) in m.iter_mut() {
                strip_docs(x);
            }
        }
        J::Array(a) => a.iter_mut().for_each(strip_docs),
        _ => {}
    }
}

fn has_bits_or_256(reg: &PortableRegistry) -> bool {
    reg.types.iter().any(|t| {
        matches!(&t.ty.type_def, TypeDef::BitSequence(_) | TypeDef::Primitive(TypeDefPrimitive::U256) | TypeDef::Primitive(TypeDefPrimitive::I256))
    })
}

// ---------------------------------------------------------------------------

struct Gen {
    shards: Shards,
    meta: Meta,
    seen: HashSet<String>,
    nontrivial: usize,
    outcome_hist: BTreeMap<String, usize>,
    syn_rejected: Vec<J>,
    nondeterministic: usize,
    skipped_large: usize,
    skipped_unsafe_registries: usize,
    max_words: usize,
    nobs: usize,
}

impl Gen {
    /// one case per chunk of ids; every chunk carries all seeds
    fn push_registry(&mut self, stream: &str, name: &str, rj: &J, spec: &SettingsSpec, ids: &[u32], seeds: &[u64], chunk: usize, print_registry_json: bool) {
        let reg = reggen::to_registry(rj);
        if !safe_to_call(&reg) {
            // a cycle of unprotected edges: the implementation overflows its stack (outside the property's class)
            self.skipped_unsafe_registries += 1;
            return;
        }
        crate::util::inflight_ctx(&serde_json::json!({"registry": rj, "settings": spec}));
        let (settings, outs) = sets::build(spec);
        let rcoq = regprint::registry(&reg);
        let gen: Obs<Vec<String>> = observe(|| {
            let g = TypeGenerator::new(&reg, &settings);
            let m = g.generate_types_mod()?;
            Ok(flatten(m.to_token_stream(&settings)))
        });
        let paths: Vec<Obs<Vec<String>>> = (0..reg.types.len() as u32)
            .map(|i| {
                observe(|| {
                    let g = TypeGenerator::new(&reg, &settings);
                    let p = g.resolve_type_path(i)?;
                    Ok(flatten(p.to_token_stream(&settings)))
                })
            })
            .collect();
        let gen_coq = gen.coq(|t| ctokens_big(t));
        let paths_coq = clist_big(paths.iter().map(|p| p.coq(|t| ctokens(t))).collect());
        for ch in ids.chunks(chunk.max(1)) {
            let mut runs_coq = vec![];
            let mut runs_json = vec![];
            for &seed in seeds {
                let mut need = 0usize;
                let mut obs = vec![];
                for &id in ch {
                    match words_needed(&reg, id, seed) {
                        None => {
                            self.skipped_large += 1;
                            continue;
                        }
                        Some(k) => need = need.max(k),
                    }
                    let out = call(&reg, &settings, id, seed);
                    let again = call(&reg, &settings, id, seed);
                    let o = EObs { id, det: out == again, out };
                    *self.outcome_hist.entry(o.kind()).or_insert(0) += 1;
                    if let Out::Ok(_, false) = &o.out {
                        if self.syn_rejected.len() < 5 {
                            self.syn_rejected.push(json!({"registry": name, "id": id, "seed": seed, "obs": o.json()}));
                        }
                    }
                    if !o.det {
                        self.nondeterministic += 1;
                    }
                    let bare_prim = matches!(reg.resolve(id).map(|t| &t.type_def), Some(TypeDef::Primitive(_)));
                    if self.seen.insert(format!("{}|{}|{}|{}", rcoq.len(), spec.root, id, seed)) && !bare_prim {
                        self.nontrivial += 1;
                    }
                    self.nobs += 1;
                    self.meta.count(stream);
                    if self.meta.samples.len() < 5 && (self.nobs % 97 == 11) {
                        self.meta.samples.push(json!({"stream": stream, "registry": name, "seed": seed, "obs": o.json()}));
                    }
                    obs.push(o);
                }
                if obs.is_empty() {
                    continue;
                }
                self.max_words = self.max_words.max(need);
                let ws = rngwords::words(seed, need);
                runs_coq.push(format!("(mk_erun {} {} {})", cn(seed as u128), rngwords::coq_words(&ws), clist(obs.iter().map(|o| o.coq()))));
                runs_json.push(json!({"seed": seed, "nwords": need, "obs": obs.iter().map(|o| o.json()).collect::<Vec<_>>()}));
            }
            if runs_coq.is_empty() {
                continue;
            }
            let term = format!(
                "(mk_case {} {} {} {} {} {} {})",
                cstr(stream),
                rcoq,
                sets::cspec(spec),
                sets::coutcomes(&outs),
                gen_coq,
                paths_coq,
                clist(runs_coq)
            );
            let input = json!({"registry": if print_registry_json { rj.clone() } else { json!(name) }, "settings": spec, "ids": ch, "seeds": seeds});
            let j = json!({"stream": stream, "name": name, "input": input, "generate_kind": gen.kind(), "runs": runs_json});
            self.shards.push(term, j);
        }
    }
}

fn seeds(rng: &mut Rng, n: usize) -> Vec<u64> {
    let fixed = [42u64, 0, 1, 2, 3, 20, 30, u64::MAX];
    let mut v = vec![];
    for i in 0..n {
        if i == 0 {
            v.push(*rng.pick(&fixed));
        } else {
            v.push(rng.next_u64() >> rng.below(64));
        }
    }
    v.dedup();
    v
}

/// settings exercising the path resolver: root name, alloc path, a substitute that renames an item path
fn settings_variants(reg: &PortableRegistry) -> Vec<SettingsSpec> {
    let mut v = vec![SettingsSpec::default()];
    let mut s1 = SettingsSpec::default();
    s1.root = "runtime_types".into();
    s1.alloc = Some("::my_crate::alloc_crate".into());
    s1.codec = false;
    v.push(s1);
    let paths: Vec<Vec<String>> = crate::tg::item_paths(reg)
        .into_iter()
        .filter(|p| p.iter().all(|seg| syn::parse_str::<syn::Ident>(seg).is_ok()))
        .collect();
    let mut s2 = SettingsSpec::default();
    s2.root = "t".into();
    s2.alloc = Some("::alloc".into());
    for (k, p) in paths.iter().enumerate() {
        if k % 3 == 0 {
            s2.ops.push(OpSpec::SubInsert(p.join("::"), format!("::ext::renamed::{}", p.last().unwrap())));
        } else if k % 7 == 1 {
            s2.ops.push(OpSpec::SubInsert(p.join("::"), "crate::other::Thing".into()));
        }
    }
    v.push(s2);
    let mut s3 = SettingsSpec::default();
    s3.compact = None;
    s3.bits = None;
    v.push(s3);
    v
}

pub fn generate(tier: &str, seed: u64, out: &Path, nshards: usize, replay: Option<&Path>) -> Meta {
    let mut rng = Rng::new(seed ^ 0xC14);
    let thorough = tier == "thorough";
    let mut g = Gen {
        shards: Shards::new(out, nshards, HEADER, "case", &EVALS),
        meta: Meta::new("C14"),
        seen: HashSet::new(),
        nontrivial: 0,
        outcome_hist: BTreeMap::new(),
        syn_rejected: vec![],
        nondeterministic: 0,
        skipped_large: 0,
        skipped_unsafe_registries: 0,
        max_words: 0,
        nobs: 0,
    };

    let from_file = |g: &mut Gen, stream: &str, p: &Path| {
        let v: J = serde_json::from_str(&std::fs::read_to_string(p).unwrap()).unwrap();
        let c = if v.get("case").is_some() { &v["case"] } else { &v };
        let inp = if c.get("input").is_some() { &c["input"] } else { c };
        let ids: Vec<u32> = inp["ids"].as_array().map(|a| a.iter().map(|x| x.as_u64().unwrap() as u32).collect()).unwrap_or_default();
        let sds: Vec<u64> = inp["seeds"].as_array().map(|a| a.iter().map(|x| x.as_u64().unwrap()).collect()).unwrap_or_default();
        let spec: SettingsSpec = serde_json::from_value(inp["settings"].clone()).unwrap_or_default();
        let name = p.file_name().unwrap().to_string_lossy().to_string();
        if inp["registry"].is_string() && inp["registry"].as_str() == Some("polkadot") {
            let mut pj = serde_json::to_value(polkadot_registry()).unwrap();
            strip_docs(&mut pj);
            g.push_registry(stream, "polkadot", &pj, &spec, &ids, &sds, 400, false);
        } else if inp["registry"].is_object() {
            g.push_registry(stream, &name, &inp["registry"], &spec, &ids, &sds, 64, true);
        }
    };

    if let Some(p) = replay {
        from_file(&mut g, "replay", p);
    } else {
        let dir = verif_dir().join("corpus").join("C14");
        if let Ok(rd) = std::fs::read_dir(dir) {
            let mut ps: Vec<_> = rd.filter_map(|e| e.ok()).map(|e| e.path()).collect();
            ps.sort();
            for p in ps {
                if p.extension().map(|e| e == "json").unwrap_or(false) {
                    from_file(&mut g, "corpus", &p);
                }
            }
        }
        let scale = if thorough { 5 } else { 1 };
        // 1. every arm, every width, every settings variant
        for with in [false, true] {
            let arms = arms_registry(with);
            let areg = reggen::to_registry(&arms);
            let n = arms["types"].as_array().unwrap().len() as u32;
            let ids: Vec<u32> = (0..n).chain([n, n + 7, u32::MAX]).collect();
            for (k, spec) in settings_variants(&areg).iter().enumerate() {
                if !thorough && with && k > 0 && k < 3 {
                    continue;
                }
                let sd = seeds(&mut rng, if thorough { 8 } else { 3 });
                g.push_registry(if with { "arms_256_bits" } else { "arms" }, "arms", &arms, spec, &ids, &sd, 40, true);
            }
        }
        // 2. recursion, empty enums, mixed fields, dangling ids, panics
        for (name, rj) in fault_registries() {
            let n = rj["types"].as_array().unwrap().len() as u32;
            let ids: Vec<u32> = (0..=n).collect();
            let sd = seeds(&mut rng, if thorough { 12 } else { 5 });
            let reg = reggen::to_registry(&rj);
            let specs = settings_variants(&reg);
            g.push_registry("faults", name, &rj, &specs[0], &ids, &sd, 16, true);
            if thorough {
                g.push_registry("faults", name, &rj, &specs[2], &ids, &sd, 16, true);
            }
        }
        // 3. the arm-coverage corpus of the type generator (programs), split by bit sequences
        for (name, p) in crate::corpus::programs() {
            let (rj, _) = reggen::build(&p);
            let reg = reggen::to_registry(&rj);
            let n = reg.types.len() as u32;
            let ids: Vec<u32> = (0..n).collect();
            let sd = seeds(&mut rng, 2);
            let stream = if has_bits_or_256(&reg) { "tg_corpus_bits" } else { "tg_corpus" };
            let specs = settings_variants(&reg);
            let which = if thorough { vec![0, 1, 2] } else { vec![rng.below(3)] };
            for w in which {
                let mut spec = specs[w].clone();
                spec.ops.extend(crate::tg::bit_order_subs(&reg));
                g.push_registry(stream, &name, &rj, &spec, &ids, &sd, 48, true);
            }
        }
        // 4. registries of random programs with random path settings
        for k in 0..(36 * scale) {
            let bits = k % 4 == 3;
            let cfg = GenCfg { max_defs: if thorough { 8 } else { 6 }, docs: false, allow_bits: bits, ..Default::default() };
            let p = reggen::rand_program(&mut rng, &cfg);
            let (rj, _roots) = reggen::build(&p);
            let reg = reggen::to_registry(&rj);
            let n = reg.types.len() as u32;
            let ids: Vec<u32> = (0..n).collect();
            let sd = seeds(&mut rng, 3);
            let spec = rand_settings(&mut rng, &reg, &SetCfg { derives: false, substitutes: k % 3 == 0, switches: true, missing_paths: k % 9 == 8 });
            g.push_registry(if bits { "program_bits" } else { "program" }, &format!("program{k}"), &rj, &spec, &ids, &sd, 40, true);
        }
        // 5. random type graphs
        for k in 0..(50 * scale) {
            let rj = soup(&mut rng);
            let n = rj["types"].as_array().unwrap().len() as u32;
            let ids: Vec<u32> = (0..n).collect();
            let sd = seeds(&mut rng, 3);
            g.push_registry("soup", &format!("soup{k}"), &rj, &SettingsSpec::default(), &ids, &sd, 16, true);
        }
        // 6. Polkadot (918 types): a sample of ids in quick, all ids in thorough
        let mut pj = serde_json::to_value(polkadot_registry()).unwrap();
        strip_docs(&mut pj);
        let n = pj["types"].as_array().unwrap().len() as u32;
        let ids: Vec<u32> = if thorough { (0..n).collect() } else { (0..40).map(|_| rng.below(n as usize) as u32).collect() };
        let sd = seeds(&mut rng, 2);
        let mut spec = SettingsSpec::default();
        spec.root = "runtime_types".into();
        spec.docs = false;
        let preg = reggen::to_registry(&pj);
        spec.ops.extend(crate::tg::bit_order_subs(&preg));
        g.push_registry("polkadot", "polkadot", &pj, &spec, &ids, &sd, if thorough { 60 } else { 40 }, false);
    }

    g.meta.evaluations = g.nobs;
    g.meta.distinct_nontrivial = g.nontrivial;
    g.meta.rule = "evaluation = one (registry, settings, type id, seed) observation of rust_value::example_from_seed (outcome tokens / error class / panic, syn::Expr acceptance, in-process repeat); streams: corpus, arms / arms_256_bits (every type-def arm, widths, generics with unused / skipped params, prelude types, x4 settings), faults (recursion via Box / Vec / Option, empty enums, mixed fields, dangling ids, non-identifiers), tg_corpus(_bits) (arm-coverage programs), program(_bits) (reggen programs with random path settings and substitutes), soup (random closed type graphs), polkadot; non-trivial = distinct (registry, settings, id, seed) whose type is not a bare primitive".into();
    g.meta.extra = json!({
        "cases": g.shards.len(),
        "outcomes": g.outcome_hist,
        "syn_expr_rejected_samples": g.syn_rejected,
        "nondeterministic": g.nondeterministic,
        "skipped_too_large": g.skipped_large,
        "skipped_registries_with_unprotected_cycles": g.skipped_unsafe_registries,
        "max_words_per_run": g.max_words,
    });
    g.shards.finish();
    g.meta
}
