#!/bin/sh
# Build the framework from files on disk only (offline).
set -e
cd "$(dirname "$0")"
export CARGO_NET_OFFLINE=true
( cd coq && coq_makefile -f _CoqProject -o Makefile && timeout 3000 make -j16 >/dev/null )
( cd harness && cp -f /repo/Cargo.lock Cargo.lock.repo 2>/dev/null; timeout 3000 cargo build --release --offline --quiet )
echo setup ok
