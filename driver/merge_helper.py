#!/usr/bin/env python3
"""merge helper: resolve the usual conflicts when merging an agent branch.
   - MANIFEST.json: keep ours, add check entries that only the branch has
   - harness/src/main.rs, coq/_CoqProject: keep both sides of every conflict hunk"""
import json, subprocess, sys, re
branch = sys.argv[1]
def show(ref, path):
    return subprocess.run(["git", "show", "%s:%s" % (ref, path)], capture_output=True, text=True).stdout
ours = json.loads(show("HEAD", "MANIFEST.json")); theirs = json.loads(show(branch, "MANIFEST.json"))
have = {c["property_id"] for c in ours["checks"]}
for c in theirs["checks"]:
    if c["property_id"] not in have:
        ours["checks"].append(c)
    else:
        base = json.loads(show(subprocess.run(["git","merge-base","HEAD",branch],capture_output=True,text=True).stdout.strip(), "MANIFEST.json"))
        b = {x["property_id"]: x for x in base["checks"]}.get(c["property_id"])
        o = {x["property_id"]: x for x in ours["checks"]}[c["property_id"]]
        if b is not None and o == b and c != b:     # only the branch changed it
            ours["checks"] = [c if x["property_id"] == c["property_id"] else x for x in ours["checks"]]
ours["checks"].sort(key=lambda c: c["property_id"])
json.dump(ours, open("MANIFEST.json", "w"), indent=1)
for path in ["harness/src/main.rs", "coq/_CoqProject"]:
    s = open(path).read()
    if "<<<<<<<" in s:
        s = re.sub(r"<<<<<<< [^\n]*\n(.*?)=======\n(.*?)>>>>>>> [^\n]*\n", lambda m: m.group(1) + m.group(2), s, flags=re.S)
        open(path, "w").write(s)
print("merged helper done")
