#!/usr/bin/env python3
"""Per-property orchestration (see DESIGN.md sections 1 and 5.3).

  check.py <Cxx> quick|thorough [--replay file]

 1. cargo build the harness against /repo's working tree
 2. make the Coq targets of the property (proof obligations), re-compile
    Properties/<Cxx>.v to capture fresh `Print Assumptions` output
 3. gate: no Admitted / Axiom / ... anywhere, assumptions within the allow-list
 4. run the harness -> sharded cases_*.v, evaluate them with coqc (vm_compute)
 5. decide: property checker false on an observed output  -> VIOLATION with replay
            correspondence broken, no checker false        -> VIOLATION ... no-failing-input-found
            failure attributed to a listed known finding   -> KNOWN-FINDING line
            derive tier (C05 thorough): interner != scale-info's derive -> HARNESS-VALIDATION-FAILED (a defect of the harness)
 6. write evidence/<Cxx>.json
"""
import json, os, re, subprocess, sys, time, glob, shutil, tempfile
from concurrent.futures import ThreadPoolExecutor

ROOT = os.path.dirname(os.path.dirname(os.path.abspath(__file__)))
COQ = os.path.join(ROOT, "coq")
HARNESS = os.path.join(ROOT, "harness")
NSHARDS = 16

FORBIDDEN = re.compile(
    r"\b(Admitted|admit|Axiom|Axioms|Parameter|Parameters|Conjecture|Conjectures|Admit Obligations|"
    r"Unset Guard Checking|Unset Positivity Checking|Unset Universe Checking|bypass_check|"
    r"type-in-type|impredicative-set)\b")
# standard-library axioms a proof may depend on (named in DESIGN.md section 8); empty = closed proofs only
ALLOWED_AXIOMS = set()

ASSUMPTIONS_COMMON = [
    "the hand-written Gallina model is tied to /repo only by the behavioural correspondence on the generated inputs of this run (sampled, not exhaustive)",
    "external crates (syn, quote, proc-macro2, scale-info, scale-value, rand, rand_chacha) behave as on this image; they are not modelled beyond the interface named in DESIGN.md section 8",
    "identity / sort key of a syn::Path or syn::Attribute = its token string",
]
ASSUMPTIONS = {
    "C01": ["the meaning rustc and parity-scale-codec's derive give to an emitted item is the shape semantics shape_rust of Model/Shape.v (not validated by compilation)"],
    "C02": ["rustc acceptance is not checked; syn::parse2::<File> is run on every observed module"],
    "C05": ["the harness interner (harness/src/reggen.rs) produces what scale-info's derive would produce for the program "
            "(quick tier: not re-validated in this run; the thorough tier compiles the programs and compares with the real derive); "
            "its entries are checked against the specification RegistryOf on every case (corr_registry_of)"],
    "C06": ["std HashMap / HashSet iteration order is an arbitrary permutation and nothing else leaks (probed on every run by comparing the case files of two harness processes byte for byte)"],
    "C12": ["the ChaCha8 word stream is an oracle supplied by the harness (rand_chacha); encode/decode round trips are executed with scale-value, not proved"],
    "C14": ["the ChaCha8 word stream is an oracle supplied by the harness (rand_chacha); syn::parse2::<Expr> is run on every observed example"],
    "C17": ["scale-info's PortableRegistry::retain is used as is for the restriction pairs (its id map names the retained ids)",
            "the ChaCha8 word stream is an oracle supplied by the harness (rand_chacha); encode/decode round trips are executed with scale-value, not proved"],
    "C18": ["encoding equality with the variant payload relies on the unvalidated derive semantics (see C01)"],
}

# thorough tier: what the compile tier (DESIGN.md 5.4) validates instead of the assumption above
ASSUMPTIONS_THOROUGH = {
    "C01": ["the meaning rustc and parity-scale-codec's derive give to an emitted item is the shape semantics shape_rust of Model/Shape.v; "
            "validated in this run by the compile tier (coverage.compile_tier): the generated modules are compiled with Encode/Decode derives and "
            "byte strings from scale-value's encode_as_type are decoded with the generated type of every id, must consume all input and re-encode "
            "to the same bytes - on the sampled registries and vectors only; the Coq decode function itself is not run against these bytes"],
    "C02": ["rustc acceptance is validated on the compile tier's registries (coverage.compile_tier: arm corpus, random programs, Polkadot) with "
            "Encode/Decode/CompactAs derives, not on every case of the run; syn::parse2::<File> is run on every observed module"],
    "C18": ["encoding equality with the variant payload is validated by the compile tier (coverage.compile_tier): the standalone struct is compiled "
            "next to the generated module, built from the decoded variant's own fields, and must encode to the item's bytes minus the index byte - "
            "on the sampled registries and vectors only"],
}
ASSUMPTIONS_THOROUGH["C05"] = [
    "the harness interner (harness/src/reggen.rs) produces what scale-info's derive produces for the program: validated in this run by the "
    "derive tier (coverage.derive_tier): the arm corpus, the identity corpus and the first programs of this run's random stream are printed "
    "as Rust source with #[derive(scale_info::TypeInfo)], compiled offline against scale-info 2.11.5, registered in a scale_info::Registry and "
    "compared with the interner's registry (exact JSON equality after the normalisation stated in coverage.derive_tier.normalisation) - on the "
    "compared programs only; programs that are not expressible as compiling Rust are skipped and counted"]
COMPILE_TIER_PARTS = {"C02": "a", "C01": "ab", "C18": "ac"}
DERIVE_TIER_RANDOM = 300

# extra Coq targets a property needs besides Properties/<id>.vo and Corr/Run<id>.vo
# Corr/RunC17.v: case type of the C17 run (pair + retained artefacts)
# Corr/CheckerControls.v: positive / negative controls of the run-time checkers sizedb, attr_sort_key
# Corr/RunC05.v, Corr/RunC05Emit.v: case type and checkers of the C05 run (imported by its shards, not by Corr/CheckTG.v)
EXTRA_TARGETS = {"C17": ["Corr/RunC17.vo"], "C14": ["Proofs/ConformsCase.vo"], "C05": ["Corr/RunC05.vo", "Corr/RunC05Emit.vo"],
                 "C02": ["Corr/CheckerControls.vo"], "C06": ["Corr/CheckerControls.vo"], "C09": ["Corr/CheckerControls.vo"]}
# properties sharing the type-generator case family use Corr/CheckTG.v
TG_PROPS = {"C01", "C02", "C05", "C06", "C07", "C08", "C09", "C10", "C17", "C18"}


def sh(cmd, cwd=None, timeout=None, env=None, preexec_fn=None):
    p = subprocess.run(cmd, cwd=cwd, shell=isinstance(cmd, str), stdout=subprocess.PIPE,
                       stderr=subprocess.STDOUT, timeout=timeout, env=env, preexec_fn=preexec_fn)
    return p.returncode, p.stdout.decode("utf-8", "replace")


def _raise_stack():
    """coqc reads the 2 MB term of the Polkadot case (thorough tier) recursively: the default 8 MB stack overflows"""
    import resource
    try:
        soft, hard = resource.getrlimit(resource.RLIMIT_STACK)
        resource.setrlimit(resource.RLIMIT_STACK, (hard, hard))
    except Exception:
        pass


def strip_comments(src):
    out, depth, i = [], 0, 0
    while i < len(src):
        if src.startswith("(*", i):
            depth += 1; i += 2
        elif src.startswith("*)", i) and depth > 0:
            depth -= 1; i += 2
        else:
            if depth == 0:
                out.append(src[i])
            i += 1
    return "".join(out)


def strip_strings(src):
    return re.sub(r'"(?:[^"]|"")*"', '""', src)


def grep_gate():
    bad = []
    for f in glob.glob(os.path.join(COQ, "**", "*.v"), recursive=True):
        if os.sep + "gen" + os.sep in f:
            pass
        txt = strip_strings(strip_comments(open(f, encoding="utf-8").read()))
        for m in FORBIDDEN.finditer(txt):
            line = txt.count("\n", 0, m.start()) + 1
            bad.append("%s:%d:%s" % (os.path.relpath(f, ROOT), line, m.group(0)))
    # Variable / Hypothesis outside a section
    return bad


def ensure_makefile():
    mk = os.path.join(COQ, "Makefile")
    proj = os.path.join(COQ, "_CoqProject")
    if not os.path.exists(mk) or os.path.getmtime(mk) < os.path.getmtime(proj):
        rc, out = sh("coq_makefile -f _CoqProject -o Makefile", cwd=COQ, timeout=120)
        if rc != 0:
            raise RuntimeError("coq_makefile failed:\n" + out)


def build_coq(prop):
    """returns (ok, log, assumptions: dict theorem -> text)"""
    ensure_makefile()
    corr = "Corr/CheckTG.vo" if prop in TG_PROPS else ("Corr/RunDD.vo" if prop in ("C03", "C04") else "Corr/Run%s.vo" % prop)
    targets = ["Properties/%s.vo" % prop, corr] + EXTRA_TARGETS.get(prop, [])
    # always recompile the small property file so that Print Assumptions is fresh evidence
    pf = os.path.join(COQ, "Properties", prop + ".vo")
    if os.path.exists(pf):
        os.remove(pf)
    rc, out = sh(["timeout", "1800", "make", "-j16"] + targets, cwd=COQ, timeout=2000)
    return rc == 0, out


def parse_assumptions(log, prop):
    """Split the output of Properties/<prop>.v into {theorem: assumption text}.
    The file prints, for every pinned theorem, `Check` output followed by Print Assumptions output."""
    src = open(os.path.join(COQ, "Properties", prop + ".v"), encoding="utf-8").read()
    src_nc = strip_comments(src)
    theorems = re.findall(r"^\s*(?:Theorem|Lemma|Corollary)\s+([A-Za-z0-9_']+)", src_nc, re.M)
    printed = re.findall(r"Print Assumptions\s+([A-Za-z0-9_']+)\s*\.", src_nc)
    res = {}
    # Coq prints either "Closed under the global context" or "Axioms:\n name : type ..."
    blocks = re.split(r"(?=Closed under the global context|Axioms:)", log)
    blocks = [b for b in blocks if b.startswith("Closed under") or b.startswith("Axioms:")]
    for name, b in zip(printed, blocks):
        if b.startswith("Closed under"):
            res[name] = []
        else:
            body = b[len("Axioms:"):]
            # stop at the next Coq message that is not an indented continuation
            names = re.findall(r"^([A-Za-z0-9_'.]+)\s*:", body, re.M)
            res[name] = names
    return theorems, printed, res, len(blocks)


def build_harness():
    env = dict(os.environ)
    env["CARGO_NET_OFFLINE"] = "true"
    lock = os.path.join(HARNESS, "Cargo.lock")
    if not os.path.exists(lock):
        shutil.copy("/repo/Cargo.lock", lock)
    rc, out = sh(["timeout", "1800", "cargo", "build", "--release", "--offline", "--quiet"], cwd=HARNESS,
                 timeout=2000, env=env)
    return rc == 0, out


def run_harness(prop, tier, seed, work, replay):
    exe = os.path.join(HARNESS, "target", "release", "vharness")
    cmd = [exe, prop, tier, str(seed), work, "--shards", str(NSHARDS)]
    if replay:
        cmd += ["--replay", replay]
    env = dict(os.environ)
    env["VERIF_DIR"] = ROOT
    rc, out = sh(cmd, cwd=ROOT, timeout=3600, env=env)
    return rc == 0, out


CROSS_PROCESS = {"C06", "C12", "C14"}


def cross_process(prop, tier, seed, work, cases):
    """Run the harness a second time in a fresh process into <work>_p2 and compare all case files.
    Returns None when identical, else a replay object naming the first differing case."""
    import shutil, filecmp
    w2 = work + "_p2"
    shutil.rmtree(w2, ignore_errors=True)
    ok, log = run_harness(prop, tier, seed, w2, None)
    try:
        if not ok:
            return {"kind": "property-checker-false", "checker": "cross_process", "property": prop,
                    "what": "the second harness process failed", "log_tail": log[-2000:]}
        names = sorted(n for n in os.listdir(work) if n.startswith("shard_") and n.endswith(".v")) + ["cases.jsonl"]
        for n in names:
            a, b = os.path.join(work, n), os.path.join(w2, n)
            if os.path.exists(b) and filecmp.cmp(a, b, shallow=False):
                continue
            la = open(a, encoding="utf-8").read().split("\n")
            lb = open(b, encoding="utf-8").read().split("\n") if os.path.exists(b) else []
            j = next((i for i, (x, y) in enumerate(zip(la, lb)) if x != y), min(len(la), len(lb)))
            idx = j
            if n.startswith("shard_"):
                k = int(re.search(r"shard_(\d+)\.v$", n).group(1))
                m = re.match(r"Definition c(\d+) ", la[j] if j < len(la) else "")
                idx = (int(m.group(1)) * NSHARDS + k) if m else 0
            c = {}
            try:
                c = json.loads(cases[idx])
            except Exception:
                pass
            return {"kind": "property-checker-false", "checker": "cross_process", "property": prop,
                    "what": "two harness processes observed different outputs on the same inputs (seed %d)" % seed,
                    "file": n, "line": j, "case_index": idx, "case": c, "input": c.get("input"),
                    "first": (la[j] if j < len(la) else "")[:2000], "second": (lb[j] if j < len(lb) else "")[:2000]}
        return None
    finally:
        shutil.rmtree(w2, ignore_errors=True)


def compile_tier(prop, seed, work=None, replay=None):
    """Thorough tier of C01 / C02 / C18 (DESIGN.md 5.4): the harness writes a cargo project with the generated
    modules into a scratch directory outside /repo and /verif, builds it offline, runs the byte vectors and
    removes everything again (here as well, in case the harness is killed).
    Returns (report or None, log)."""
    work = work or os.path.join(ROOT, "work", prop)
    exe = os.path.join(HARNESS, "target", "release", "vharness")
    scratch = tempfile.mkdtemp(prefix="ct_%s_%d_" % (prop, os.getpid()))
    rep_path = os.path.join(work, "compile_tier.json")
    if os.path.exists(rep_path):
        os.remove(rep_path)
    env = dict(os.environ)
    env["VERIF_DIR"] = ROOT
    env["CARGO_NET_OFFLINE"] = "true"
    cmd = [exe, "compile-tier", str(seed), work, "--parts", COMPILE_TIER_PARTS[prop], "--scratch", os.path.join(scratch, "p")]
    cmd += ["--replay", replay] if replay else ["--polkadot", "--random", "100"]
    try:
        rc, out = sh(cmd, cwd=ROOT, timeout=2400, env=env)
    except subprocess.TimeoutExpired:
        rc, out = 124, "compile tier timed out"
    finally:
        shutil.rmtree(scratch, ignore_errors=True)
    try:
        return json.load(open(rep_path)), out
    except Exception:
        return None, out


def derive_tier(seed, work, replay=None):
    """Thorough tier of C05 (DESIGN.md 5.5): the harness prints programs as Rust source with scale-info's derive into a
    scratch cargo project outside /repo and the verification tree, builds it offline, runs it, compares the derived
    registries with the interner's and removes everything again (here as well, in case the harness is killed).
    Returns (report or None, log)."""
    exe = os.path.join(HARNESS, "target", "release", "vharness")
    scratch = tempfile.mkdtemp(prefix="dt_C05_%d_" % os.getpid())
    rep_path = os.path.join(work, "derive_tier.json")
    if os.path.exists(rep_path):
        os.remove(rep_path)
    env = dict(os.environ)
    env["VERIF_DIR"] = ROOT
    env["CARGO_NET_OFFLINE"] = "true"
    cmd = [exe, "derive-tier", str(seed), work, "--random", str(DERIVE_TIER_RANDOM), "--scratch", os.path.join(scratch, "p")]
    if replay:
        cmd += ["--replay", replay]
    try:
        rc, out = sh(cmd, cwd=ROOT, timeout=2400, env=env)
    except subprocess.TimeoutExpired:
        rc, out = 124, "derive tier timed out"
    finally:
        shutil.rmtree(scratch, ignore_errors=True)
    try:
        return json.load(open(rep_path)), out
    except Exception:
        return None, out


TAG_RE = re.compile(r'\(\s*"([A-Za-z0-9_]+)"\s*,\s*(\[[^\]]*\]|nil)', re.S)


def run_shard(path):
    t = 3600
    rc, out = sh(["timeout", str(t), "coqc", "-noglob", "-Q", COQ, "V", "-w", "-notation-overridden", path],
                 cwd=os.path.dirname(path), timeout=t + 60, preexec_fn=_raise_stack)
    open(path + ".out", "w").write(out)
    if rc != 0:
        return path, None, out
    res = {}
    for m in TAG_RE.finditer(out):
        tag, lst = m.group(1), m.group(2)
        idx = [int(x) for x in re.findall(r"\d+", lst)] if lst != "nil" else []
        res[tag] = idx
    return path, res, out


def main():
    t0 = time.time()
    args = sys.argv[1:]
    if len(args) < 2:
        print("usage: check.py <Cxx> quick|thorough [--replay file]"); sys.exit(2)
    prop = args[0]
    replay = None
    tier = os.environ.get("VERIF_TIER") or "quick"
    if args[1] == "--replay":
        replay = os.path.abspath(args[2])
    else:
        tier = args[1]
        if len(args) >= 4 and args[2] == "--replay":
            replay = os.path.abspath(args[3])
    if tier not in ("quick", "thorough"):
        tier = "quick"
    try:
        seed = int(os.environ.get("VERIF_SEED", "1"))
    except ValueError:
        seed = 1
    work = os.path.join(ROOT, "work", prop)
    os.makedirs(work, exist_ok=True)
    for f in glob.glob(os.path.join(work, "replay_*.json")):
        if not (replay and os.path.abspath(f) == replay):
            os.remove(f)
    os.makedirs(os.path.join(ROOT, "evidence"), exist_ok=True)
    evidence_path = os.path.join(ROOT, "evidence", prop + ".json")

    findings = json.load(open(os.path.join(ROOT, "known_findings.json")))["findings"]
    known = [f for f in findings if f["property"] == prop and f["status"] == "known"]

    violations = []      # (replay path, suffix)
    notes = []
    # a replay file written by the compile tier is re-run by the compile tier (any tier)
    ct_replay = False
    if replay and prop in COMPILE_TIER_PARTS:
        try:
            ct_replay = json.load(open(replay)).get("kind") == "compile-tier"
        except Exception:
            ct_replay = False

    # a replay file written by the derive tier (C05) is re-run by the derive tier (any tier)
    dt_replay = False
    if replay and prop == "C05":
        try:
            rj = json.load(open(replay))
            dt_replay = rj.get("kind") == "derive-tier"
            if dt_replay and "seed" in rj and "VERIF_SEED" not in os.environ:
                seed = int(rj["seed"])
        except Exception:
            dt_replay = False

    def write_replay(name, obj):
        p = os.path.join(work, "replay_%s.json" % name)
        json.dump(obj, open(p, "w"), indent=1, ensure_ascii=False)
        return p

    # ---- 1. proof obligations -------------------------------------------------
    ok_coq, coq_log = build_coq(prop)
    theorems, printed, assumptions, nblocks = ([], [], {}, 0)
    obligations_proof = 0
    discharged_proof = 0
    if ok_coq:
        theorems, printed, assumptions, nblocks = parse_assumptions(coq_log, prop)
        obligations_proof = len(theorems)
        bad_ax = {t: [a for a in ax if a.split(".")[-1] not in ALLOWED_AXIOMS] for t, ax in assumptions.items()}
        bad_ax = {t: a for t, a in bad_ax.items() if a}
        unprinted = [t for t in theorems if t not in assumptions]
        discharged_proof = len([t for t in theorems if t in assumptions and t not in bad_ax])
        if bad_ax or unprinted:
            p = write_replay("assumptions", {"kind": "proof-gate", "axioms_outside_allow_list": bad_ax,
                                             "theorems_without_print_assumptions": unprinted})
            violations.append((p, "no-failing-input-found"))
    else:
        p = write_replay("coq_build", {"kind": "proof-obligation-broken",
                                       "obligation": "make Properties/%s.vo Corr/Run%s.vo" % (prop, prop),
                                       "log_tail": coq_log[-4000:]})
        violations.append((p, "no-failing-input-found"))
    gate = grep_gate()
    if gate:
        p = write_replay("gate", {"kind": "forbidden-construct", "hits": gate})
        violations.append((p, "no-failing-input-found"))

    # ---- 2. correspondence ----------------------------------------------------
    ok_h, hlog = build_harness()
    meta = {}
    tags = {}
    cross_done = False
    cases = []
    shard_errors = []
    coqc_wall = 0.0
    if not ok_h:
        p = write_replay("harness_build", {"kind": "correspondence-broken",
                                           "obligation": "the harness (public API of /repo) no longer builds",
                                           "log_tail": hlog[-4000:]})
        violations.append((p, "no-failing-input-found"))
    elif ok_coq and not ct_replay and not dt_replay:
        ok_r, rlog = run_harness(prop, tier, seed, work, replay)
        if not ok_r:
            # the harness records the input it is observing (inflight_ctx.json + inflight.json): when the
            # implementation kills the process (stack overflow, abort) that input is the failing input
            inflight = {}
            for n in ("inflight_ctx.json", "inflight.json"):
                try:
                    inflight.update(json.load(open(os.path.join(work, n))))
                except Exception:
                    pass
            if inflight.get("registry") is not None:
                p = write_replay("crash", {"kind": "crash", "property": prop,
                                           "what": "the implementation under test killed the harness process (stack overflow / "
                                                   "abort: not a panic) while this input was being observed",
                                           "case": inflight, "input": inflight, "log_tail": rlog[-2000:]})
                violations.append((p, ""))
            else:
                p = write_replay("harness_run", {"kind": "correspondence-broken",
                                                 "obligation": "harness run (implementation under test crashed the runner)",
                                                 "log_tail": rlog[-4000:]})
                violations.append((p, "no-failing-input-found"))
        else:
            meta = json.load(open(os.path.join(work, "meta.json")))
            cases = [l for l in open(os.path.join(work, "cases.jsonl"), encoding="utf-8")]
            shards = sorted(glob.glob(os.path.join(work, "shard_*.v")))
            # determinism across processes (C06 "in another process", C12 / C14 "the same seed gives the same
            # example"): a SECOND harness process (fresh std RandomState, fresh allocator state) must observe
            # exactly the same outputs on the same inputs; every case file is compared byte for byte
            if prop in CROSS_PROCESS and not replay:
                cross = cross_process(prop, tier, seed, work, cases)
                if cross is not None:
                    p = write_replay("cross_process_%d" % cross.get("case_index", 0), cross)
                    violations.append((p, ""))
                cross_done = True
            tc = time.time()
            with ThreadPoolExecutor(max_workers=16) as ex:
                results = list(ex.map(run_shard, shards))
            coqc_wall = time.time() - tc
            for path, res, out in results:
                k = int(re.search(r"shard_(\d+)\.v$", path).group(1))
                if res is None:
                    shard_errors.append((path, out[-3000:]))
                    continue
                for tag, idx in res.items():
                    tags.setdefault(tag, []).extend(sorted(i * NSHARDS + k for i in idx))
            for t in tags:
                tags[t].sort()
            # C06 "... and for validation results compared as sets": both sides of every pair of kind "same"
            # (equal inputs, permuted registration histories) carry the validation result of their settings,
            # canonicalised as a set by the harness (sorted entries, sorted derive / attribute lists); the two
            # observed results must be equal.  Like the cross-process comparison this compares two OBSERVED
            # outputs with each other, no model is involved; a difference is a failing input (tag prop_*)
            if prop == "C06":
                bad, nontrivial = [], []
                for i, l in enumerate(cases):
                    try:
                        c = json.loads(l)
                    except Exception:
                        continue
                    v = c.get("validation")
                    if (c.get("input") or {}).get("pair_kind") == "same" and isinstance(v, list) and len(v) == 2:
                        if v[0] != v[1]:
                            bad.append(i)
                        if str(v[0]).startswith("Err"):
                            nontrivial.append(i)
                tags["prop_validation_same"] = bad
                tags["hyp_validation_errors_compared"] = nontrivial
            if shard_errors:
                p = write_replay("shard_error", {"kind": "correspondence-broken",
                                                 "obligation": "coqc evaluation of generated case file failed",
                                                 "shard": shard_errors[0][0], "log_tail": shard_errors[0][1]})
                violations.append((p, "no-failing-input-found"))

    def case(i):
        try:
            return json.loads(cases[i])
        except Exception:
            return {"index": i}

    # tags: corr_* / prop_* list FAILING indices; hyp_* / known_* list HOLDING indices
    corr_fail = {t: v for t, v in tags.items() if t.startswith("corr_") and v}
    prop_fail = {t: v for t, v in tags.items() if t.startswith("prop_") and v}
    known_lines = []
    if prop_fail:
        unexplained = []
        for t, idxs in prop_fail.items():
            for i in idxs:
                who = None
                for f in known:
                    # attributed iff the classifier holds on this case, the finding lists this checker,
                    # and the model reproduces the implementation on it (all corr_* hold)
                    if t in f.get("checkers", [t]) and i in tags.get(f["classifier"], []) \
                            and not any(i in v for v in corr_fail.values()):
                        who = f; break
                if who is None:
                    unexplained.append((t, i))
                else:
                    known_lines.append(who)
        for t, i in unexplained[:1]:
            c = case(i)
            p = write_replay("%s_%d" % (t, i), {"kind": "property-checker-false", "checker": t, "case_index": i,
                                                "property": prop, "case": c, "input": c.get("input")})
            violations.append((p, ""))
        if len(unexplained) > 1:
            notes.append("%d further failing (checker, case) pairs" % (len(unexplained) - 1))
    if corr_fail and not any(s == "" for _, s in violations):
        t, idxs = sorted(corr_fail.items())[0]
        c = case(idxs[0])
        p = write_replay("%s_%d" % (t, idxs[0]),
                         {"kind": "correspondence-broken", "obligation": t, "property": prop,
                          "failing_cases": {k: v[:20] for k, v in corr_fail.items()},
                          "case_index": idxs[0], "case": c, "input": c.get("input"),
                          "note": "the model no longer reproduces the implementation on this input; every property "
                                  "checker evaluated to true on all %d observed outputs" % len(cases)})
        violations.append((p, "no-failing-input-found"))

    # ---- 2b. compile tier (thorough, C01 / C02 / C18) --------------------------------
    ct = None
    ct_known = []
    if prop in COMPILE_TIER_PARTS and ok_h and ((tier == "thorough" and not replay) or ct_replay):
        ct, ct_log = compile_tier(prop, seed, work, replay if ct_replay else None)
        if ct is None:
            p = write_replay("compile_tier", {"kind": "correspondence-broken",
                                              "obligation": "compile tier (vharness compile-tier) did not produce a report",
                                              "log_tail": ct_log[-4000:]})
            violations.append((p, "no-failing-input-found"))
        else:
            fl = ct.get("failures", [])
            with_replay = [f for f in fl if f.get("replay")]
            if with_replay:
                # a concrete failing input: registry + settings + (type id, bytes | rustc diagnostics)
                violations.append((with_replay[0]["replay"], ""))
                if len(fl) > 1:
                    notes.append("compile tier: %d further failures (see work/%s/compile_tier.json)" % (len(fl) - 1, prop))
            elif fl:
                p = write_replay("compile_tier", {"kind": "correspondence-broken",
                                                  "obligation": "the compile tier's scratch project does not build for a reason not tied to a registry",
                                                  "failures": fl[:3]})
                violations.append((p, "no-failing-input-found"))
            for fid in sorted(ct.get("known_findings_reproduced", {})):
                for f in findings:
                    if f["id"] == fid and f["status"] == "known" and prop in ([f["property"]] + f.get("properties", [])):
                        ct_known.append(f)
            if ct.get("known_findings_not_reproduced"):
                notes.append("compile tier: witnesses of %s no longer fail to compile - the exclusion of such registries should be lifted"
                             % ", ".join(ct["known_findings_not_reproduced"]))

    # ---- 2c. derive tier (thorough, C05): validation of the HARNESS (the interner), not of scale-typegen ----
    dt = None
    harness_validation = []
    if prop == "C05" and ok_h and ((tier == "thorough" and not replay) or dt_replay):
        dt, dt_log = derive_tier(seed, work, replay if dt_replay else None)
        if dt is None:
            harness_validation.append("derive tier (vharness derive-tier) did not produce a report: %s" % dt_log[-600:].replace("\n", " | "))
        elif dt.get("failures"):
            first = (dt.get("mismatches") or [{}])[0]
            harness_validation.append(
                "derive-tier: %d failure(s) on %d compared programs (%d equal, %d rejected by rustc, %d not compared): the harness interner "
                "(harness/src/reggen.rs) does not produce what scale-info's derive produces - a defect of the verification harness, not of "
                "scale-typegen; first: %s %s replay=%s"
                % (dt["failures"], dt.get("compared", 0), dt.get("equal", 0), dt.get("rustc_rejected", 0), dt.get("not_compared", 0),
                   first.get("name", "?"), (first.get("what") or (dt.get("build_errors") or ["?"])[0])[:300], first.get("replay", "-")))

    # ---- 3. report --------------------------------------------------------------
    seen = set()
    known_lines = known_lines + ct_known
    for f in known_lines:
        if f["id"] not in seen:
            seen.add(f["id"])
            print("KNOWN-FINDING: property=%s %s %s" % (prop, f["id"], f["what"]))
    for p, suffix in violations:
        print(("VIOLATION property=%s replay=%s %s" % (prop, p, suffix)).rstrip())
    for h in harness_validation:
        print("HARNESS-VALIDATION-FAILED property=%s %s" % (prop, h))

    corr_tags = sorted(t for t in tags if t.startswith("corr_"))
    prop_tags = sorted(t for t in tags if t.startswith("prop_"))
    hyp = {t: len(v) for t, v in tags.items() if t.startswith("hyp_") or t.startswith("known_")}
    obligations = obligations_proof + len(corr_tags)
    discharged = discharged_proof + len([t for t in corr_tags if not tags[t]])
    if prop in COMPILE_TIER_PARTS and ((tier == "thorough" and not replay) or ct_replay):
        obligations += 1
        if ct is not None and not ct.get("failures"):
            discharged += 1
    if prop == "C05" and ((tier == "thorough" and not replay) or dt_replay):
        obligations += 1
        if dt is not None and not dt.get("failures"):
            discharged += 1
    ax_text = {t: ("Closed under the global context" if not a else "Axioms: " + ", ".join(a))
               for t, a in assumptions.items()}
    ev = {
        "property_id": prop,
        "tier": tier,
        "seed": seed,
        "level": "proof",
        "coverage": {
            "obligations": max(obligations, 1),
            "discharged": discharged,
            "checker_cmd": "make -C coq Properties/%s.vo Corr/Run%s.vo (coqc 8.16.1, full .vo) ; "
                           "coqc -Q coq V work/%s/shard_<k>.v (vm_compute of model and checkers on the observed outputs)"
                           % (prop, prop, prop),
            "trusted_base": [
                "Coq 8.16.1 kernel incl. vm_compute (no native_compute)",
                "Print Assumptions: " + json.dumps(ax_text, sort_keys=True),
                "hand-written Gallina model; tie to /repo = behavioural correspondence on the generated inputs below "
                "(harness: Rust generators, Gallina printer, token flattener; driver: this script)",
                "no Admitted/Axiom/Parameter in coq/ (grep gate: %s)" % ("clean" if not gate else "HITS"),
            ],
            "theorems": theorems,
            "correspondence_obligations": {t: len(tags[t]) for t in corr_tags},
            "property_checkers_failing": {t: len(tags[t]) for t in prop_tags},
            "hypothesis_hit_counts": hyp,
            "evaluations": max(int(meta.get("evaluations", 0)), 1 if not ok_h or not ok_coq else 0),
            "distinct_nontrivial": int(meta.get("distinct_nontrivial", 0)),
            "rule": meta.get("rule", ""),
            "samples": meta.get("samples", [])[:5] or [{"note": "no cases were run"}],
            "streams": meta.get("streams", {}),
            "extra": meta.get("extra", {}),
            "known_findings_reported": sorted(seen),
            "cross_process_determinism": ("all case files of a second harness process compared byte for byte"
                                          if cross_done else "not part of this property's check"),
            "coqc_eval_wall_s": round(coqc_wall, 1),
        },
        "assumptions": ASSUMPTIONS_COMMON + ((ASSUMPTIONS_THOROUGH if (ct is not None or dt is not None) else ASSUMPTIONS).get(prop)
                                             or ASSUMPTIONS.get(prop, [])) + notes,
        "wall_s": round(time.time() - t0, 1),
        "violations": len(violations),
    }
    if ct is not None:
        ev["coverage"]["compile_tier"] = {
            "registries": ct.get("registries_compiled"), "items": ct.get("items"),
            "vectors_run": ct.get("vectors_run"), "vectors_passed": ct.get("vectors_passed"),
            "vectors_skipped": ct.get("vectors_skipped"), "rustc_ok": ct.get("rustc_ok"), "wall_s": ct.get("wall_s"),
            "parts": ct.get("parts"), "polkadot": ct.get("polkadot"),
            "registries_generated": ct.get("registries"), "registries_skipped": ct.get("registries_skipped"),
            "module_source_bytes": ct.get("module_source_bytes"),
            "type_ids_considered": ct.get("type_ids_considered"), "field_lists_considered": ct.get("field_lists_considered"),
            "vectors_b": ct.get("vectors_b"), "vectors_c": ct.get("vectors_c"),
            "vectors_canonicalised": ct.get("vectors_canonicalised"), "vectors_failed": ct.get("vectors_failed"),
            "known_findings_reproduced": sorted(ct.get("known_findings_reproduced", {})),
            "rustc_errors": ct.get("rustc_errors", [])[:20],
            "build_s": ct.get("build_s"), "scratch_removed": ct.get("scratch_removed"),
            "cmd": "harness/target/release/vharness compile-tier <seed> work/%s --parts %s --polkadot (cargo build --offline in a scratch "
                   "directory under $TMPDIR, removed afterwards)" % (prop, COMPILE_TIER_PARTS[prop]),
        }
    if dt is not None:
        ev["coverage"]["derive_tier"] = {
            "programs": dt.get("programs"), "compared": dt.get("compared"), "equal": dt.get("equal"),
            "skipped": dt.get("skipped"), "mismatches": dt.get("mismatches", [])[:10],
            "rustc_rejected": dt.get("rustc_rejected"), "not_compared": dt.get("not_compared"), "build_errors": dt.get("build_errors", [])[:5],
            "equal_with_identity_duplicates": dt.get("equal_with_identity_duplicates"),
            "programs_with_wrapped_type_names": dt.get("programs_with_wrapped_type_names"),
            "differ_from_the_interner_with_canon_identity": dt.get("differ_from_the_interner_with_canon_identity"),
            "normalisation": dt.get("normalisation"), "random": dt.get("random"), "seed": dt.get("seed"),
            "build_s": dt.get("build_s"), "wall_s": dt.get("wall_s"), "scratch_removed": dt.get("scratch_removed"),
            "cmd": "harness/target/release/vharness derive-tier <seed> work/C05 --random %d (cargo build --offline in a scratch directory "
                   "under $TMPDIR, removed afterwards; scale-info 2.11.5 with derive, bit-vec, docs, serde)" % DERIVE_TIER_RANDOM,
        }
    if harness_validation:
        ev["harness_validation_failed"] = harness_validation
    json.dump(ev, open(evidence_path, "w"), indent=1, ensure_ascii=False)
    sys.exit(1 if violations or harness_validation else 0)


if __name__ == "__main__":
    main()
