#!/usr/bin/env python3
"""Keeps MANIFEST.json's not_applicable list = all properties without a check (reason kept if present)."""
import json
m = json.load(open('MANIFEST.json'))
ids = [json.loads(l)['id'] for l in open('properties.jsonl')]
claimed = {c['property_id'] for c in m['checks']}
old = {e['property_id']: e['reason'] for e in m.get('not_applicable', [])}
m['not_applicable'] = [{'property_id': i, 'reason': old.get(i, 'not claimed yet: model, theorems and correspondence for this property are still under construction (the technique applies; see DESIGN.md section 6)')} for i in ids if i not in claimed]
for e in m.get('engines', []):
    e['serves_properties'] = sorted(claimed)
json.dump(m, open('MANIFEST.json', 'w'), indent=1)
print('claimed', sorted(claimed))
