#!/usr/bin/env python3
"""dev helper: evaluate Coq expressions on one generated case.  dev_case.py <prop> <global index> '<expr using c>' ..."""
import sys, os, re, subprocess
sys.path.insert(0, os.path.dirname(__file__))
import check
prop, idx = sys.argv[1], int(sys.argv[2])
work = os.path.join(check.ROOT, "work", prop)
k, j = idx % check.NSHARDS, idx // check.NSHARDS
src = open(os.path.join(work, "shard_%d.v" % k), encoding="utf-8").read()
head = src[:src.index("Definition c0 ")]
m = re.search(r"^Definition c%d : .*?$" % j, src, re.M)
out = head + "From V Require Import Checkers.Parse Checkers.Sem Model.TypePath Model.Generate Model.Emit Model.Equal Model.Derives.\n" + m.group(0) + "\nDefinition c := c%d.\n" % j
for e in sys.argv[3:]:
    out += "Eval vm_compute in (%s).\n" % e
p = os.path.join(work, "one.v")
open(p, "w", encoding="utf-8").write(out)
rc, o = check.sh(["coqc", "-noglob", "-Q", check.COQ, "V", "-w", "-notation-overridden", p], cwd=work)
print(o[-6000:])
