#!/usr/bin/env python3
"""dev helper: run harness for a (pseudo) property, evaluate shards, print failing tags + first cases"""
import sys, os, json, glob, re, subprocess, time
sys.path.insert(0, os.path.dirname(__file__))
import check
prop, tier, seed = sys.argv[1], (sys.argv[2] if len(sys.argv) > 2 else "quick"), (sys.argv[3] if len(sys.argv) > 3 else "1")
work = os.path.join(check.ROOT, "work", prop)
os.makedirs(work, exist_ok=True)
ok, log = check.build_harness(); assert ok, log
rc, out = check.sh(["make", "-j16"], cwd=check.COQ); assert rc == 0, out[-3000:]
t=time.time()
ok, log = check.run_harness(prop, tier, int(seed), work, None); assert ok, log
print("harness", round(time.time()-t,1), log.strip())
from concurrent.futures import ThreadPoolExecutor
t=time.time()
with ThreadPoolExecutor(16) as ex:
    res = list(ex.map(check.run_shard, sorted(glob.glob(work + "/shard_*.v"))))
print("coqc", round(time.time()-t,1))
tags = {}
for path, r, out in res:
    k = int(re.search(r"shard_(\d+)\.v$", path).group(1))
    if r is None:
        if not globals().get("_shown"):
            print("SHARD ERROR", path, out[-1500:]); _shown = True
        continue
    for tag, idx in r.items():
        tags.setdefault(tag, []).extend(i * check.NSHARDS + k for i in idx)
cases = open(work + "/cases.jsonl").read().splitlines()
for tag in sorted(tags):
    v = sorted(tags[tag]); print(tag, len(v), v[:10] if not os.environ.get("DEV_FULL") else v)
show = [t for t in tags if not t.startswith("hyp_") and tags[t]]
if show:
    i = sorted(tags[show[0]])[0]
    print("first failing case of", show[0], i)
    print(cases[i][:3000])
