#!/bin/sh
# run every registered quick check with the given seed; prints one line per property
SEED=${1:-1}; TIER=${2:-quick}
cd "$(dirname "$0")/.." || exit 2
mkdir -p work
for p in C01 C02 C03 C04 C05 C06 C07 C08 C09 C10 C11 C12 C13 C14 C15 C16 C17 C18; do
  s=$(date +%s)
  VERIF_SEED=$SEED timeout 3000 ./check.sh $p $TIER > work/all_$p.out 2>&1; rc=$?
  e=$(date +%s)
  echo "$p seed=$SEED rc=$rc $((e-s))s $(grep -c '^KNOWN-FINDING' work/all_$p.out) known $(grep '^VIOLATION' work/all_$p.out | head -2 | cut -c1-150)"
done
