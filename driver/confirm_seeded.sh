#!/bin/sh
# Final confirmation of the seeded changes against /repo itself:
#   git -C /repo apply seeded/<id>/patch.diff ; ./check.sh <prop> quick ; git -C /repo checkout -- .
# Must only be run when nothing else builds against /repo.  Appends the outcome to seeded/<id>/confirmed_on_repo.txt
cd "$(dirname "$0")/.." || exit 2
if [ -n "$(git -C /repo status --porcelain)" ]; then echo "/repo is not clean"; exit 2; fi
for d in seeded/*/; do
  id=$(basename $d)
  prop=$(python3 -c "import json;print(json.load(open('$d/meta.json'))['property'])")
  if ! git -C /repo apply --check "$PWD/$d/patch.diff" 2>/dev/null; then echo "$id: patch does not apply to current HEAD"; continue; fi
  git -C /repo apply "$PWD/$d/patch.diff"
  timeout 1800 ./check.sh $prop quick > work/confirm_$id.out 2>&1; rc=$?
  git -C /repo checkout -- .
  v=$(grep '^VIOLATION' work/confirm_$id.out | head -1 | cut -c1-160)
  echo "$id: ./check.sh $prop quick -> rc=$rc $v"
  echo "$(date -u +%FT%TZ) repo=$(git -C /repo rev-parse --short HEAD) verif=$(git rev-parse --short HEAD) ./check.sh $prop quick -> rc=$rc $v" > $d/confirmed_on_repo.txt
done
git -C /repo status --porcelain
