From Coq Require Import List NArith String.
From V Require Import Base.Util Corr.RunC15.
Import ListNotations. Open Scope string_scope.
Definition c0 : case := ("(", "(
    ").
Definition c1 : case := ("}{", "
} {
").
Definition c2 : case := ("(a", "(
    a").
Definition c3 : case := ("<>", "<>").
Definition c4 : case := (",)", ",
)").
Definition c5 : case := (" }", " 
}").
Definition c6 : case := ("{{ ", " {
     {
         ").
Definition c7 : case := ("{(,", " {
    (
        ,
        ").
Definition c8 : case := ("{<<", " {
    <
        <
            ").
Definition c9 : case := ("{,(", " {
    ,
    (
        ").
Definition c10 : case := ("{ {", " {
      {
        ").
Definition c11 : case := ("}{a", "
} {
a").
Definition c12 : case := ("}(>", "
}(
>").
Definition c13 : case := ("}<)", "
}<
)").
Definition c14 : case := ("},}", "
},

}").
Definition c15 : case := ("}a ", "
}a ").
Definition c16 : case := ("({,", "(
     {
        ,
        ").
Definition c17 : case := ("((<", "(
    (
        <
            ").
Definition c18 : case := ("(<(", "(
    <
        (
            ").
Definition c19 : case := ("(,{", "(
    ,
     {
        ").
Definition c20 : case := ("(aa", "(
    aa").
Definition c21 : case := ("){>", ") {
    >").
Definition c22 : case := (")()", ")()").
Definition c23 : case := (")<}", ")<
    
}").
Definition c24 : case := (")> ", ")> ").
Definition c25 : case := (")a,", ")a,
").
Definition c26 : case := ("<{<", "<
     {
        <
            ").
Definition c27 : case := ("<((", "<
    (
        (
            ").
Definition c28 : case := ("<<{", "<
    <
         {
            ").
Definition c29 : case := ("<>a", "<>a").
Definition c30 : case := ("<a>", "<a>").
Definition c31 : case := (">{)", "> {
    )").
Definition c32 : case := (">(}", ">(
    
}").
Definition c33 : case := (">) ", ">) ").
Definition c34 : case := (">>,", ">>,
").
Definition c35 : case := (">a<", ">a<
    ").
Definition c36 : case := (",{(", ",
 {
    (
        ").
Definition c37 : case := (",({", ",
(
     {
        ").
Definition c38 : case := (",)a", ",
)a").
Definition c39 : case := (",>>", ",
>>").
Definition c40 : case := (",a)", ",
a)").
Definition c41 : case := ("a{}", "a {
    
}").
Definition c42 : case := ("a} ", "a
} ").
Definition c43 : case := ("a),", "a),
").
Definition c44 : case := ("a><", "a><
    ").
Definition c45 : case := ("aa(", "aa(
    ").
Definition c46 : case := (" {{", "  {
     {
        ").
Definition c47 : case := (" }a", " 
}a").
Definition c48 : case := (" )>", " )>").
Definition c49 : case := (" >)", " >)").
Definition c50 : case := (" a}", " a
}").
Definition c51 : case := ("   ", "   ").
Definition c52 : case := ("{{},", " {
     {
        
    },
    ").
Definition c53 : case := ("{{)<", " {
     {
        )<
            ").
Definition c54 : case := ("{{>(", " {
     {
        >(
            ").
Definition c55 : case := ("{{a{", " {
     {
        a {
            ").
Definition c56 : case := ("{{ a", " {
     {
         a").
Definition c57 : case := ("{}}>", " {
    
}
}>").
Definition c58 : case := ("{}))", " {
    
}))").
Definition c59 : case := ("{}>}", " {
    
}>
}").
Definition c60 : case := ("{}, ", " {
    
},
 ").
Definition c61 : case := ("{} ,", " {
    
} ,
").
Definition c62 : case := ("{(}<", " {
    (
        
    }<
        ").
Definition c63 : case := ("{()(", " {
    ()(
        ").
Definition c64 : case := ("{(>{", " {
    (
        > {
            ").
Definition c65 : case := ("{(,a", " {
    (
        ,
        a").
Definition c66 : case := ("{( >", " {
    (
         >").
Definition c67 : case := ("{)})", " {
    )
})").
Definition c68 : case := ("{))}", " {
    ))
}").
Definition c69 : case := ("{)< ", " {
    )<
         ").
Definition c70 : case := ("{),,", " {
    ),
    ,
    ").
Definition c71 : case := ("{) <", " {
    ) <
        ").
Definition c72 : case := ("{<}(", " {
    <
        
    }(
        ").
Definition c73 : case := ("{<){", " {
    <
        ) {
            ").
Definition c74 : case := ("{<<a", " {
    <
        <
            a").
Definition c75 : case := ("{<,>", " {
    <,
    >").
Definition c76 : case := ("{< )", " {
    <
         )").
Definition c77 : case := ("{>}}", " {
    >
}
}").
Definition c78 : case := ("{>( ", " {
    >(
         ").
Definition c79 : case := ("{><,", " {
    ><
        ,
        ").
Definition c80 : case := ("{>,<", " {
    >,
    <
        ").
Definition c81 : case := ("{> (", " {
    > (
        ").
Definition c82 : case := ("{,}{", " {
    ,
    
} {
    ").
Definition c83 : case := ("{,(a", " {
    ,
    (
        a").
Definition c84 : case := ("{,<>", " {
    ,
    <>").
Definition c85 : case := ("{,,)", " {
    ,
    ,
    )").
Definition c86 : case := ("{, }", " {
    ,
     
}").
Definition c87 : case := ("{a{ ", " {
    a {
         ").
Definition c88 : case := ("{a(,", " {
    a(
        ,
        ").
Definition c89 : case := ("{a<<", " {
    a<
        <
            ").
Definition c90 : case := ("{a,(", " {
    a,
    (
        ").
Definition c91 : case := ("{a {", " {
    a  {
        ").
Definition c92 : case := ("{ {a", " {
      {
        a").
Definition c93 : case := ("{ (>", " {
     (
        >").
Definition c94 : case := ("{ <)", " {
     <
        )").
Definition c95 : case := ("{ ,}", " {
     ,
    
}").
Definition c96 : case := ("{ a ", " {
     a ").
Definition c97 : case := ("}{{,", "
} {
 {
    ,
    ").
Definition c98 : case := ("}{(<", "
} {
(
    <
        ").
Definition c99 : case := ("}{<(", "
} {
<
    (
        ").
Definition c100 : case := ("}{,{", "
} {
,
 {
    ").
Definition c101 : case := ("}{aa", "
} {
aa").
Definition c102 : case := ("}}{>", "
}
} {
>").
Definition c103 : case := ("}}()", "
}
}()").
Definition c104 : case := ("}}<}", "
}
}<

}").
Definition c105 : case := ("}}> ", "
}
}> ").
Definition c106 : case := ("}}a,", "
}
}a,
").
Definition c107 : case := ("}({<", "
}(
 {
    <
        ").
Definition c108 : case := ("}(((", "
}(
(
    (
        ").
Definition c109 : case := ("}(<{", "
}(
<
     {
        ").
Definition c110 : case := ("}(>a", "
}(
>a").
Definition c111 : case := ("}(a>", "
}(
a>").
Definition c112 : case := ("}){)", "
}) {
)").
Definition c113 : case := ("})(}", "
})(

}").
Definition c114 : case := ("})) ", "
})) ").
Definition c115 : case := ("})>,", "
})>,
").
Definition c116 : case := ("})a<", "
})a<
").
Definition c117 : case := ("}<{(", "
}<
 {
    (
        ").
Definition c118 : case := ("}<({", "
}<
(
     {
        ").
Definition c119 : case := ("}<)a", "
}<
)a").
Definition c120 : case := ("}<>>", "
}<>>").
Definition c121 : case := ("}<a)", "
}<
a)").
Definition c122 : case := ("}>{}", "
}> {

}").
Definition c123 : case := ("}>} ", "
}>
} ").
Definition c124 : case := ("}>),", "
}>),
").
Definition c125 : case := ("}>><", "
}>><
").
Definition c126 : case := ("}>a(", "
}>a(
").
Definition c127 : case := ("},{{", "
},
 {
 {
    ").
Definition c128 : case := ("},}a", "
},

}a").
Definition c129 : case := ("},)>", "
},
)>").
Definition c130 : case := ("},>)", "
},
>)").
Definition c131 : case := ("},a}", "
},
a
}").
Definition c132 : case := ("},  ", "
},
  ").
Definition c133 : case := ("}a},", "
}a
},
").
Definition c134 : case := ("}a)<", "
}a)<
").
Definition c135 : case := ("}a>(", "
}a>(
").
Definition c136 : case := ("}aa{", "
}aa {
").
Definition c137 : case := ("}a a", "
}a a").
Definition c138 : case := ("} }>", "
} 
}>").
Definition c139 : case := ("} ))", "
} ))").
Definition c140 : case := ("} >}", "
} >
}").
Definition c141 : case := ("} , ", "
} ,
 ").
Definition c142 : case := ("}  ,", "
}  ,
").
Definition c143 : case := ("({}<", "(
     {
        
    }<
        ").
Definition c144 : case := ("({)(", "(
     {
        
    )(
        ").
Definition c145 : case := ("({>{", "(
     {
        > {
            ").
Definition c146 : case := ("({,a", "(
     {
        ,
        a").
Definition c147 : case := ("({ >", "(
     {
         >").
Definition c148 : case := ("(}})", "(
}
})").
Definition c149 : case := ("(})}", "(
})
}").
Definition c150 : case := ("(}< ", "(
    
}<
     ").
Definition c151 : case := ("(},,", "(
    
},
,
").
Definition c152 : case := ("(} <", "(
    
} <
    ").
Definition c153 : case := ("((}(", "(
    (
        
    }(
        ").
Definition c154 : case := ("((){", "(
    () {
        ").
Definition c155 : case := ("((<a", "(
    (
        <
            a").
Definition c156 : case := ("((,>", "(
    (
        ,
        >").
Definition c157 : case := ("(( )", "(
    ( )").
Definition c158 : case := ("()}}", "()
}
}").
Definition c159 : case := ("()( ", "()(
     ").
Definition c160 : case := ("()<,", "()<
    ,
    ").
Definition c161 : case := ("(),<", "(),
<
    ").
Definition c162 : case := ("() (", "() (
    ").
Definition c163 : case := ("(<}{", "(
    <
        
    } {
        ").
Definition c164 : case := ("(<(a", "(
    <
        (
            a").
Definition c165 : case := ("(<<>", "(
    <
        <>").
Definition c166 : case := ("(<,)", "(<
    , )").
Definition c167 : case := ("(< }", "(
    <
         
    }").
Definition c168 : case := ("(>{ ", "(
    > {
         ").
Definition c169 : case := ("(>(,", "(
    >(
        ,
        ").
Definition c170 : case := ("(><<", "(
    ><
        <
            ").
Definition c171 : case := ("(>,(", "(
    >,
    (
        ").
Definition c172 : case := ("(> {", "(
    >  {
        ").
Definition c173 : case := ("(,{a", "(
    ,
     {
        a").
Definition c174 : case := ("(,(>", "(
    ,
    (
        >").
Definition c175 : case := ("(,<)", "(, <
    )").
Definition c176 : case := ("(,,}", "(
    ,
    ,
    
}").
Definition c177 : case := ("(,a ", "(
    ,
    a ").
Definition c178 : case := ("(a{,", "(
    a {
        ,
        ").
Definition c179 : case := ("(a(<", "(
    a(
        <
            ").
Definition c180 : case := ("(a<(", "(
    a<
        (
            ").
Definition c181 : case := ("(a,{", "(
    a,
     {
        ").
Definition c182 : case := ("(aaa", "(
    aaa").
Definition c183 : case := ("( {>", "(
      {
        >").
Definition c184 : case := ("( ()", "(
     ()").
Definition c185 : case := ("( <}", "(
     <
        
    }").
Definition c186 : case := ("( > ", "(
     > ").
Definition c187 : case := ("( a,", "(
     a,
    ").
Definition c188 : case := ("){{<", ") {
     {
        <
            ").
Definition c189 : case := ("){((", ") {
    (
        (
            ").
Definition c190 : case := ("){<{", ") {
    <
         {
            ").
Definition c191 : case := ("){>a", ") {
    >a").
Definition c192 : case := ("){a>", ") {
    a>").
Definition c193 : case := (")}{)", ")
} {
)").
Definition c194 : case := (")}(}", ")
}(

}").
Definition c195 : case := (")}) ", ")
}) ").
Definition c196 : case := (")}>,", ")
}>,
").
Definition c197 : case := (")}a<", ")
}a<
").
Definition c198 : case := (")({(", ")(
     {
        (
            ").
Definition c199 : case := (")(({", ")(
    (
         {
            ").
Definition c200 : case := (")()a", ")()a").
Definition c201 : case := (")(>>", ")(
    >>").
Definition c202 : case := (")(a)", ")(a)").
Definition c203 : case := (")){}", ")) {
    
}").
Definition c204 : case := ("))} ", "))
} ").
Definition c205 : case := ("))),", "))),
").
Definition c206 : case := ("))><", "))><
    ").
Definition c207 : case := ("))a(", "))a(
    ").
Definition c208 : case := (")<{{", ")<
     {
         {
            ").
Definition c209 : case := (")<}a", ")<
    
}a").
Definition c210 : case := (")<)>", ")<)>").
Definition c211 : case := (")<>)", ")<>)").
Definition c212 : case := (")<a}", ")<
    a
}").
Definition c213 : case := (")<  ", ")<
      ").
Definition c214 : case := (")>},", ")>
},
").
Definition c215 : case := (")>)<", ")>)<
    ").
Definition c216 : case := (")>>(", ")>>(
    ").
Definition c217 : case := (")>a{", ")>a {
    ").
Definition c218 : case := (")> a", ")> a").
Definition c219 : case := ("),}>", "),

}>").
Definition c220 : case := ("),))", "),
))").
Definition c221 : case := ("),>}", "),
>
}").
Definition c222 : case := ("),, ", "),
,
 ").
Definition c223 : case := ("), ,", "),
 ,
").
Definition c224 : case := (")a}<", ")a
}<
").
Definition c225 : case := (")a)(", ")a)(
    ").
Definition c226 : case := (")a>{", ")a> {
    ").
Definition c227 : case := (")a,a", ")a,
a").
Definition c228 : case := (")a >", ")a >").
Definition c229 : case := (") })", ") 
})").
Definition c230 : case := (") )}", ") )
}").
Definition c231 : case := (") < ", ") <
     ").
Definition c232 : case := (") ,,", ") ,
,
").
Definition c233 : case := (")  <", ")  <
    ").
Definition c234 : case := ("<{}(", "<
     {
        
    }(
        ").
Definition c235 : case := ("<{){", "<
     {
        ) {
            ").
Definition c236 : case := ("<{<a", "<
     {
        <
            a").
Definition c237 : case := ("<{,>", "<
     {
        ,
        
    >").
Definition c238 : case := ("<{ )", "<
     {
         )").
Definition c239 : case := ("<}}}", "<
    
}
}
}").
Definition c240 : case := ("<}( ", "<
    
}(
     ").
Definition c241 : case := ("<}<,", "<
    
}<
    ,
    ").
Definition c242 : case := ("<},<", "<
    
},
<
    ").
Definition c243 : case := ("<} (", "<
    
} (
    ").
Definition c244 : case := ("<(}{", "<
    (
        
    } {
        ").
Definition c245 : case := ("<((a", "<
    (
        (
            a").
Definition c246 : case := ("<(<>", "<
    (
        <>").
Definition c247 : case := ("<(,)", "<
    (, )").
Definition c248 : case := ("<( }", "<
    (
         
    }").
Definition c249 : case := ("<){ ", "<
    ) {
         ").
Definition c250 : case := ("<)(,", "<
    )(
        ,
        ").
Definition c251 : case := ("<)<<", "<
    )<
        <
            ").
Definition c252 : case := ("<),(", "<
    ),
    (
        ").
Definition c253 : case := ("<) {", "<
    )  {
        ").
Definition c254 : case := ("<<{a", "<
    <
         {
            a").
Definition c255 : case := ("<<(>", "<
    <(
        >").
Definition c256 : case := ("<<<)", "<
    <
        <
            )").
Definition c257 : case := ("<<,}", "<
    <
        ,
        
    }").
Definition c258 : case := ("<<a ", "<
    <
        a ").
Definition c259 : case := ("<>{,", "<> {
    ,
    ").
Definition c260 : case := ("<>(<", "<>(
    <
        ").
Definition c261 : case := ("<><(", "<><
    (
        ").
Definition c262 : case := ("<>,{", "<>,
 {
    ").
Definition c263 : case := ("<>aa", "<>aa").
Definition c264 : case := ("<,{>", "<
    ,
     {
        
    >").
Definition c265 : case := ("<,()", "<
    ,
    ()").
Definition c266 : case := ("<,<}", "<
    ,
    <
        
    }").
Definition c267 : case := ("<,> ", "<,
> ").
Definition c268 : case := ("<,a,", "<
    ,
    a,
    ").
Definition c269 : case := ("<a{<", "<
    a {
        <
            ").
Definition c270 : case := ("<a((", "<
    a(
        (
            ").
Definition c271 : case := ("<a<{", "<
    a<
         {
            ").
Definition c272 : case := ("<a>a", "<a>a").
Definition c273 : case := ("<aa>", "<aa>").
Definition c274 : case := ("< {)", "<
      {
        )").
Definition c275 : case := ("< (}", "<
     (
        
    }").
Definition c276 : case := ("< ) ", "<
     ) ").
Definition c277 : case := ("< >,", "< >,
").
Definition c278 : case := ("< a<", "<
     a<
        ").
Definition c279 : case := (">{{(", "> {
     {
        (
            ").
Definition c280 : case := (">{({", "> {
    (
         {
            ").
Definition c281 : case := (">{)a", "> {
    )a").
Definition c282 : case := (">{>>", "> {
    >>").
Definition c283 : case := (">{a)", "> {
    a)").
Definition c284 : case := (">}{}", ">
} {

}").
Definition c285 : case := (">}} ", ">
}
} ").
Definition c286 : case := (">}),", ">
}),
").
Definition c287 : case := (">}><", ">
}><
").
Definition c288 : case := (">}a(", ">
}a(
").
Definition c289 : case := (">({{", ">(
     {
         {
            ").
Definition c290 : case := (">(}a", ">(
    
}a").
Definition c291 : case := (">()>", ">()>").
Definition c292 : case := (">(>)", ">(>)").
Definition c293 : case := (">(a}", ">(
    a
}").
Definition c294 : case := (">(  ", ">(
      ").
Definition c295 : case := (">)},", ">)
},
").
Definition c296 : case := (">))<", ">))<
    ").
Definition c297 : case := (">)>(", ">)>(
    ").
Definition c298 : case := (">)a{", ">)a {
    ").
Definition c299 : case := (">) a", ">) a").
Definition c300 : case := ("><}>", "><
}>").
Definition c301 : case := ("><))", "><
    ))").
Definition c302 : case := ("><>}", "><>
}").
Definition c303 : case := ("><, ", "><
    ,
     ").
Definition c304 : case := (">< ,", "><
     ,
    ").
Definition c305 : case := (">>}<", ">>
}<
").
Definition c306 : case := (">>)(", ">>)(
    ").
Definition c307 : case := (">>>{", ">>> {
    ").
Definition c308 : case := (">>,a", ">>,
a").
Definition c309 : case := (">> >", ">> >").
Definition c310 : case := (">,})", ">,

})").
Definition c311 : case := (">,)}", ">,
)
}").
Definition c312 : case := (">,< ", ">,
<
     ").
Definition c313 : case := (">,,,", ">,
,
,
").
Definition c314 : case := (">, <", ">,
 <
    ").
Definition c315 : case := (">a}(", ">a
}(
").
Definition c316 : case := (">a){", ">a) {
    ").
Definition c317 : case := (">a<a", ">a<
    a").
Definition c318 : case := (">a,>", ">a,
>").
Definition c319 : case := (">a )", ">a )").
Definition c320 : case := ("> }}", "> 
}
}").
Definition c321 : case := ("> ( ", "> (
     ").
Definition c322 : case := ("> <,", "> <
    ,
    ").
Definition c323 : case := ("> ,<", "> ,
<
    ").
Definition c324 : case := (">  (", ">  (
    ").
Definition c325 : case := (",{}{", ",
 {
    
} {
    ").
Definition c326 : case := (",{(a", ",
 {
    (
        a").
Definition c327 : case := (",{<>", ",
 {
    <>").
Definition c328 : case := (",{,)", ",
 {
    ,
    )").
Definition c329 : case := (",{ }", ",
 {
     
}").
Definition c330 : case := (",}{ ", ",

} {
 ").
Definition c331 : case := (",}(,", ",

}(
,
").
Definition c332 : case := (",}<<", ",

}<
<
    ").
Definition c333 : case := (",},(", ",

},
(
").
Definition c334 : case := (",} {", ",

}  {
").
Definition c335 : case := (",({a", ",
(
     {
        a").
Definition c336 : case := (",((>", ",
(
    (
        >").
Definition c337 : case := (",(<)", ",
(<
    )").
Definition c338 : case := (",(,}", ",
(
    ,
    
}").
Definition c339 : case := (",(a ", ",
(
    a ").
Definition c340 : case := (",){,", ",
) {
    ,
    ").
Definition c341 : case := (",)(<", ",
)(
    <
        ").
Definition c342 : case := (",)<(", ",
)<
    (
        ").
Definition c343 : case := (",),{", ",
),
 {
    ").
Definition c344 : case := (",)aa", ",
)aa").
Definition c345 : case := (",<{>", ",
<
     {
        
    >").
Definition c346 : case := (",<()", ",
<
    ()").
Definition c347 : case := (",<<}", ",
<
    <
        
    }").
Definition c348 : case := (",<> ", ",
<> ").
Definition c349 : case := (",<a,", ",
<
    a,
    ").
Definition c350 : case := (",>{<", ",
> {
    <
        ").
Definition c351 : case := (",>((", ",
>(
    (
        ").
Definition c352 : case := (",><{", ",
><
     {
        ").
Definition c353 : case := (",>>a", ",
>>a").
Definition c354 : case := (",>a>", ",
>a>").
Definition c355 : case := (",,{)", ",
,
 {
    )").
Definition c356 : case := (",,(}", ",
,
(
    
}").
Definition c357 : case := (",,) ", ",
,
) ").
Definition c358 : case := (",,>,", ",
,
>,
").
Definition c359 : case := (",,a<", ",
,
a<
    ").
Definition c360 : case := (",a{(", ",
a {
    (
        ").
Definition c361 : case := (",a({", ",
a(
     {
        ").
Definition c362 : case := (",a)a", ",
a)a").
Definition c363 : case := (",a>>", ",
a>>").
Definition c364 : case := (",aa)", ",
aa)").
Definition c365 : case := (", {}", ",
  {
    
}").
Definition c366 : case := (", } ", ",
 
} ").
Definition c367 : case := (", ),", ",
 ),
").
Definition c368 : case := (", ><", ",
 ><
    ").
Definition c369 : case := (", a(", ",
 a(
    ").
Definition c370 : case := ("a{{{", "a {
     {
         {
            ").
Definition c371 : case := ("a{}a", "a {
    
}a").
Definition c372 : case := ("a{)>", "a {
    )>").
Definition c373 : case := ("a{>)", "a {
    >)").
Definition c374 : case := ("a{a}", "a {
    a
}").
Definition c375 : case := ("a{  ", "a {
      ").
Definition c376 : case := ("a}},", "a
}
},
").
Definition c377 : case := ("a})<", "a
})<
").
Definition c378 : case := ("a}>(", "a
}>(
").
Definition c379 : case := ("a}a{", "a
}a {
").
Definition c380 : case := ("a} a", "a
} a").
Definition c381 : case := ("a(}>", "a(
    
}>").
Definition c382 : case := ("a())", "a())").
Definition c383 : case := ("a(>}", "a(
    >
}").
Definition c384 : case := ("a(, ", "a(
    ,
     ").
Definition c385 : case := ("a( ,", "a(
     ,
    ").
Definition c386 : case := ("a)}<", "a)
}<
").
Definition c387 : case := ("a))(", "a))(
    ").
Definition c388 : case := ("a)>{", "a)> {
    ").
Definition c389 : case := ("a),a", "a),
a").
Definition c390 : case := ("a) >", "a) >").
Definition c391 : case := ("a<})", "a<
    
})").
Definition c392 : case := ("a<)}", "a<
    )
}").
Definition c393 : case := ("a<< ", "a<
    <
         ").
Definition c394 : case := ("a<,,", "a<
    ,
    ,
    ").
Definition c395 : case := ("a< <", "a<
     <
        ").
Definition c396 : case := ("a>}(", "a>
}(
").
Definition c397 : case := ("a>){", "a>) {
    ").
Definition c398 : case := ("a><a", "a><
    a").
Definition c399 : case := ("a>,>", "a>,
>").
Definition c400 : case := ("a> )", "a> )").
Definition c401 : case := ("a,}}", "a,

}
}").
Definition c402 : case := ("a,( ", "a,
(
     ").
Definition c403 : case := ("a,<,", "a,
<
    ,
    ").
Definition c404 : case := ("a,,<", "a,
,
<
    ").
Definition c405 : case := ("a, (", "a,
 (
    ").
Definition c406 : case := ("aa}{", "aa
} {
").
Definition c407 : case := ("aa(a", "aa(
    a").
Definition c408 : case := ("aa<>", "aa<>").
Definition c409 : case := ("aa,)", "aa,
)").
Definition c410 : case := ("aa }", "aa 
}").
Definition c411 : case := ("a { ", "a  {
     ").
Definition c412 : case := ("a (,", "a (
    ,
    ").
Definition c413 : case := ("a <<", "a <
    <
        ").
Definition c414 : case := ("a ,(", "a ,
(
    ").
Definition c415 : case := ("a  {", "a   {
    ").
Definition c416 : case := (" {{a", "  {
     {
        a").
Definition c417 : case := (" {(>", "  {
    (
        >").
Definition c418 : case := (" {<)", "  {
    <
        )").
Definition c419 : case := (" {,}", "  {
    ,
    
}").
Definition c420 : case := (" {a ", "  {
    a ").
Definition c421 : case := (" }{,", " 
} {
,
").
Definition c422 : case := (" }(<", " 
}(
<
    ").
Definition c423 : case := (" }<(", " 
}<
(
    ").
Definition c424 : case := (" },{", " 
},
 {
").
Definition c425 : case := (" }aa", " 
}aa").
Definition c426 : case := (" ({>", " (
     {
        >").
Definition c427 : case := (" (()", " (
    ()").
Definition c428 : case := (" (<}", " (
    <
        
    }").
Definition c429 : case := (" (> ", " (
    > ").
Definition c430 : case := (" (a,", " (
    a,
    ").
Definition c431 : case := (" ){<", " ) {
    <
        ").
Definition c432 : case := (" )((", " )(
    (
        ").
Definition c433 : case := (" )<{", " )<
     {
        ").
Definition c434 : case := (" )>a", " )>a").
Definition c435 : case := (" )a>", " )a>").
Definition c436 : case := (" <{)", " <
     {
        )").
Definition c437 : case := (" <(}", " <
    (
        
    }").
Definition c438 : case := (" <) ", " <
    ) ").
Definition c439 : case := (" <>,", " <>,
").
Definition c440 : case := (" <a<", " <
    a<
        ").
Definition c441 : case := (" >{(", " > {
    (
        ").
Definition c442 : case := (" >({", " >(
     {
        ").
Definition c443 : case := (" >)a", " >)a").
Definition c444 : case := (" >>>", " >>>").
Definition c445 : case := (" >a)", " >a)").
Definition c446 : case := (" ,{}", " ,
 {
    
}").
Definition c447 : case := (" ,} ", " ,

} ").
Definition c448 : case := (" ,),", " ,
),
").
Definition c449 : case := (" ,><", " ,
><
    ").
Definition c450 : case := (" ,a(", " ,
a(
    ").
Definition c451 : case := (" a{{", " a {
     {
        ").
Definition c452 : case := (" a}a", " a
}a").
Definition c453 : case := (" a)>", " a)>").
Definition c454 : case := (" a>)", " a>)").
Definition c455 : case := (" aa}", " aa
}").
Definition c456 : case := (" a  ", " a  ").
Definition c457 : case := ("  },", "  
},
").
Definition c458 : case := ("  )<", "  )<
    ").
Definition c459 : case := ("  >(", "  >(
    ").
Definition c460 : case := ("  a{", "  a {
    ").
Definition c461 : case := ("   a", "   a").
Definition c462 : case := ("<(,,aaéa,baé,éaba,éb,,,ébaa,é,baaéé)", "<
    (
        ,
        ,
        aaéa,
        baé,
        éaba,
        éb,
        ,
        ,
        ébaa,
        é,
        baaéé
    )").
Definition c463 : case := ("x{(aéééb,baa,éaéaaé,,,,,a,)", "x {
    (aéééb, baa, éaéaaé, , , , , a, )").
Definition c464 : case := ("<(éé,,aa,ééaaaééééa,,aéébbba,bbéébéab,bab),a", "<
    (
        éé,
        ,
        aa,
        ééaaaééééa,
        ,
        aéébbba,
        bbéébéab,
        bab
    ),
    a").
Definition c465 : case := ("a(aabb,bééaébé{a,,,aéaéaééaééaa)}", "a(
    aabb,
    bééaébé {
        a,
        ,
        ,
        aéaéaééaééaa
    )
}").
Definition c466 : case := ("(<;:xb:a[b[xbb,[x:]]b:x[ba>),((:;x,]:;x;8xa:x;,((<:::bx,<ax]>>))))", "(<;:xb:a[b[xbb, [x:]]b:x[ba>),
(
    (
        :;x,
        ]:;x;8xa:x;,
        ((<:::bx, <ax]>>))
    )
)").
Definition c467 : case := ("{<{{b8ab[b[8:b,{{b[a:,;;8b:;;b]a,:8:[a:a8];x},b]8[;:8abx},(),<<a]]x]8a,u,u,u,u>,a]xa8x[,]8[[a[>},:ba:baxx]]:,8bx::]88x:8,<(<],u,[;x[8ax:>,b]x[[[;x[b),::>}>}", " {
    <
         {
             {
                b8ab[b[8:b,
                 {
                     {
                        b[a:,
                        ;;8b:;;b]a,
                        :8:[a:a8];x
                    },
                    b]8[;:8abx
                },
                (),
                <
                    <a]]x]8a,
                    u,
                    u,
                    u,
                    u>,
                    a]xa8x[,
                    ]8[[a[
                >
            },
            :ba:baxx]]:,
            8bx::]88x:8,
            <(<], u, [;x[8ax:>, b]x[[[;x[b),
            ::>
        }
    >
}").
Definition c468 : case := ("{::b:ab8a[[x,{}},{{<][8[]8,<<<u,u,u,u>,{u,;8:][,u,;]x8baa,b[[b]:[]:}>,({u})>,:aa,<({u,8]:b;;;:xx]},{];x][x[8;b})>>}}", " {
    ::b:ab8a[[x,
     {
        
    }
},
 {
     {
        <
            ][8[]8,
            <
                <
                    <u,
                    u,
                    u,
                    u>,
                     {
                        u,
                        ;8:][,
                        u,
                        ;]x8baa,
                        b[[b]:[]:
                    }
                >,
                (
                     {
                        u
                    }
                )
            >,
            :aa,
            <
                (
                     {
                        u,
                        8]:b;;;:xx]
                    },
                     {
                        ];x][x[8;b
                    }
                )
            >
        >
    }
}").
Definition c469 : case := ("[ba[[,{[8:b,[],]b;bbb:a[,]x][8:],[[[]xx8;},(b;:]x;)", "[ba[[,
 {
    [8:b,
    [],
    ]b;bbb:a[,
    ]x][8:],
    [[[]xx8;
},
(b;:]x;)").
Definition c470 : case := ("{:,{;a][x;},{[bb88x:,<(xx]b;8b,]:]x[]a,]:[xb;;8:x;,(ax]a8]88;b,8bx;x::,<b[]x;:::b8:>))>}}", " {
    :,
     {
        ;a][x;
    },
     {
        [bb88x:,
        <
            (
                xx]b;8b,
                ]:]x[]a,
                ]:[xb;;8:x;,
                (
                    ax]a8]88;b,
                    8bx;x::,
                    <b[]x;:::b8:>
                )
            )
        >
    }
}").
Definition c471 : case := ("<(:;8:x,a8[8x8,{[x8;;x[;,<{aa,{u,u,:[;},bbb;[axb:[[},{;,<u,u>},{{;8ax]x88:88,u},<u,u,u,u>,(u,u,:[[bba,8]xb]8aa;;:[),a][x[:},{(u,u),xab[;,(),a]x:]8a:xx;b},x]b;;b]8:]x>,;]8:8:,<(ba]];[[)>},{a8b,[]]ax,(<{u,u,:x]x8aa,u,]bba:8:b},[;>)})>", "<
    (
        :;8:x,
        a8[8x8,
         {
            [x8;;x[;,
            <
                 {
                    aa,
                     {
                        u,
                        u,
                        :[;
                    },
                    bbb;[axb:[[
                },
                 {
                    ;,
                    <u,
                    u>
                },
                 {
                     {
                        ;8ax]x88:88,
                        u
                    },
                    <u,
                    u,
                    u,
                    u>,
                    (u, u, :[[bba, 8]xb]8aa;;:[),
                    a][x[:
                },
                 {
                    (u, u),
                    xab[;,
                    (),
                    a]x:]8a:xx;b
                },
                x]b;;b]8:]x
            >,
            ;]8:8:,
            <(ba]];[[)>
        },
         {
            a8b,
            []]ax,
            (
                <
                     {
                        u,
                        u,
                        :x]x8aa,
                        u,
                        ]bba:8:b
                    },
                    [;
                >
            )
        }
    )
>").
Definition c472 : case := ("x:a:,(<(),[]8[[]][:>)", "x:a:,
(<(), []8[[]][:>)").
Definition c473 : case := ("a]a:[88b:8],<xabx,(::bx[;,[:a8]b[xxbx,<b[]aa88[a,{{[]]:a;,[aba,(u,u,[8:b]]]8;),<8aa;b,]8axb]b;x:,u,u,u>}}>,{8;a[b8bb:;,8:[8b;x,]8;8:]a8][xa,;xx:[x[]bba,<xbx,:b[>},x];:[:88;),<x8bb,]a8[x;[8:>,;a>", "a]a:[88b:8],
<
    xabx,
    (
        ::bx[;,
        [:a8]b[xxbx,
        <
            b[]aa88[a,
             {
                 {
                    []]:a;,
                    [aba,
                    (u, u, [8:b]]]8;),
                    <8aa;b,
                    ]8axb]b;x:,
                    u,
                    u,
                    u>
                }
            }
        >,
         {
            8;a[b8bb:;,
            8:[8b;x,
            ]8;8:]a8][xa,
            ;xx:[x[]bba,
            <xbx,
            :b[>
        },
        x];:[:88;
    ),
    <x8bb,
    ]a8[x;[8:>,
    ;a
>").
Definition c474 : case := ("{},{[[]8];:8][;[}", " {
    
},
 {
    [[]8];:8][;[
}").
Definition c475 : case := ("8]8x:ax[", "8]8x:ax[").
Definition c476 : case := (":;a;[xb],<<8,(<{::8ab:]ab:8},({aa:,ab;8:x:;xb,u,u,u},()),[8axa[[;:>,(:;::]88),{((u,u,u),{:::,;]8;xa:b[,u,u,ab;;a;88x},{xb:8b[;:;[x,[[:[},a8[bbx:x),[8ab8];8},<][[[b8[]a;>,{{{u,aaaa,u},8xb:;]]::,;ba[[x:x8[a,<>},(<u,]][:[8[x[b>)})>>", ":;a;[xb],
<
    <
        8,
        (
            <
                 {
                    ::8ab:]ab:8
                },
                (
                     {
                        aa:,
                        ab;8:x:;xb,
                        u,
                        u,
                        u
                    },
                    ()
                ),
                [8axa[[;:
            >,
            (:;::]88),
             {
                (
                    (u, u, u),
                     {
                        :::,
                        ;]8;xa:b[,
                        u,
                        u,
                        ab;;a;88x
                    },
                     {
                        xb:8b[;:;[x,
                        [[:[
                    },
                    a8[bbx:x
                ),
                [8ab8];8
            },
            <][[[b8[]a;>,
             {
                 {
                     {
                        u,
                        aaaa,
                        u
                    },
                    8xb:;]]::,
                    ;ba[[x:x8[a,
                    <>
                },
                (<u, ]][:[8[x[b>)
            }
        )
    >
>").
Definition c477 : case := ("((b8a[;x,{},{{{(u,8;]]8,u,u,8aa:]xb]b),(),:[a[[a]][8b,<;:[;;x],u,u>},;a}}))", "(
    (
        b8a[;x,
         {
            
        },
         {
             {
                 {
                    (u, 8;]]8, u, u, 8aa:]xb]b),
                    (),
                    :[a[[a]][8b,
                    <;:[;;x],
                    u,
                    u>
                },
                ;a
            }
        }
    )
)").
Definition c478 : case := ("<>,<{[8x]8[[:xa],{<;xx;;]x;,8;,(xbx,<u>,(8:ba))>}}>", "<>,
<
     {
        [8x]8[[:xa],
         {
            <;xx;;]x;,
            8;,
            (xbx, <u>, (8:ba))>
        }
    }
>").
Definition c479 : case := ("a", "a").
Definition c480 : case := ("(<8[8,(x]][xb]b;[;,(((u,;][8xa[:a::,u),<a;:babb:a]x,u,u,[[a]8:a]>,8x;]88,{u,u,u,][8]:8]:;b}),axa;;];[xaab),<;];b:[]:,;b:],b]>),8][[;;:a;a[x,]:x[;b>,xb;;;),<<:::b8[;[,[a[]:x[8,{({{a];a::}})}>>", "(
    <
        8[8,
        (
            x]][xb]b;[;,
            (
                (
                    (u, ;][8xa[:a::, u),
                    <a;:babb:a]x,
                    u,
                    u,
                    [[a]8:a]>,
                    8x;]88,
                     {
                        u,
                        u,
                        u,
                        ][8]:8]:;b
                    }
                ),
                axa;;];[xaab
            ),
            <;];b:[]:,
            ;b:],
            b]>
        ),
        8][[;;:a;a[x,
        ]:x[;b
    >,
    xb;;;
),
<
    <
        :::b8[;[,
        [a[]:x[8,
         {
            (
                 {
                     {
                        a];a::
                    }
                }
            )
        }
    >
>").
Definition c481 : case := ("<;b[b[8bb;:,(:],<<]ab:,a8x;8:]b;]>>,a8a]:[,[])>,<bx;:88b:b[]8,b8[]:];8],8a;8:8x;;],];88[[ax[x]8,(;a]x[8:b:]:)>", "<
    ;b[b[8bb;:,
    (
        :],
        <<]ab:,
        a8x;8:]b;]>>,
        a8a]:[,
        []
    )
>,
<
    bx;:88b:b[]8,
    b8[]:];8],
    8a;8:8x;;],
    ];88[[ax[x]8,
    (;a]x[8:b:]:)
>").
Definition c482 : case := ("((b;]]8b8:ax::,b[b,]xbxb,({},<<>,b8aabx]>,{{x[8:[x[,{8[];a8b8b:}},(<8::;ax,u,u>,<>)})))", "(
    (
        b;]]8b8:ax::,
        b[b,
        ]xbxb,
        (
             {
                
            },
            <<>,
            b8aabx]>,
             {
                 {
                    x[8:[x[,
                     {
                        8[];a8b8b:
                    }
                },
                (<8::;ax, u, u>, <>)
            }
        )
    )
)").
Definition c483 : case := ("([][xab][aa,8]88b8a:),({]a[[]8[b[;:,<<{{xa;,u,axa],u,u},<>,{:,u,u,u,u}},<>>,(bab,([a[bb),<{u,::[8a:,:b;x;]:[8}>,()),(((u),x,(u,u,u),{},]a]xx),]aa]8b[[baa:,8ab][xb]xx),{}>})", "([][xab][aa, 8]88b8a:),
(
     {
        ]a[[]8[b[;:,
        <
            <
                 {
                     {
                        xa;,
                        u,
                        axa],
                        u,
                        u
                    },
                    <>,
                     {
                        :,
                        u,
                        u,
                        u,
                        u
                    }
                },
                <>
            >,
            (
                bab,
                ([a[bb),
                <
                     {
                        u,
                        ::[8a:,
                        :b;x;]:[8
                    }
                >,
                ()
            ),
            (
                (
                    (u),
                    x,
                    (u, u, u),
                     {
                        
                    },
                    ]a]xx
                ),
                ]aa]8b[[baa:,
                8ab][xb]xx
            ),
             {
                
            }
        >
    }
)").
Definition c484 : case := ("<(:]8:,{(b;;],:xba]ax,::;,<aabb>),({:]a;8[x]]},({u,u,a:]8]8a]aa}),{(u,ba;)},{8x88bx;,x8[,(8a;;b8:[8,u,u,u)},{b]bxx;88x;,{]:;b8[::xax,u,u,b[x:aabxa;b,]ab8;][888a},<u,u,8;8:,u,u>,]bxb]})})>", "<
    (
        :]8:,
         {
            (b;;], :xba]ax, ::;, <aabb>),
            (
                 {
                    :]a;8[x]]
                },
                (
                     {
                        u,
                        u,
                        a:]8]8a]aa
                    }
                ),
                 {
                    (u, ba;)
                },
                 {
                    8x88bx;,
                    x8[,
                    (8a;;b8:[8, u, u, u)
                },
                 {
                    b]bxx;88x;,
                     {
                        ]:;b8[::xax,
                        u,
                        u,
                        b[x:aabxa;b,
                        ]ab8;][888a
                    },
                    <u,
                    u,
                    8;8:,
                    u,
                    u>,
                    ]bxb]
                }
            )
        }
    )
>").
Definition c485 : case := ("(;a]8b[:;:,;;[8;];;:;:,<8xx8b,][:a;;;a,]:;:ab],{8xx[:;a[b]bx,;;]:;}>),][aab;;a8a:,<>,(]x]b:;;[[8,<<(x8x:8,x8[[,<(u,u)>,xba)>>)", "(
    ;a]8b[:;:,
    ;;[8;];;:;:,
    <
        8xx8b,
        ][:a;;;a,
        ]:;:ab],
         {
            8xx[:;a[b]bx,
            ;;]:;
        }
    >
),
][aab;;a8a:,
<>,
(
    ]x]b:;;[[8,
    <<(x8x:8, x8[[, <(u, u)>, xba)>>
)").
Definition c486 : case := ("<{8x]b,]8,(x;x[xba,bb,{x]a;8;[[[a,{xb]8;]xb,;:8b},{<[8[]b]:]8ax,u>,x8a8b:;[b:,8x8[ba];:x},bba:;[]a,[bbx;b:;;8x},(]xx:aa;;[,(<u,u,u>),<(),<u,[,u,aax][[a:a8,u>,b;:8x[xb>,<{}>))}>", "<
     {
        8x]b,
        ]8,
        (
            x;x[xba,
            bb,
             {
                x]a;8;[[[a,
                 {
                    xb]8;]xb,
                    ;:8b
                },
                 {
                    <[8[]b]:]8ax,
                    u>,
                    x8a8b:;[b:,
                    8x8[ba];:x
                },
                bba:;[]a,
                [bbx;b:;;8x
            },
            (
                ]xx:aa;;[,
                (<u, u, u>),
                <
                    (),
                    <u,
                    [,
                    u,
                    aax][[a:a8,
                    u>,
                    b;:8x[xb
                >,
                <
                     {
                        
                    }
                >
            )
        )
    }
>").
Definition c487 : case := ("<[]:::,{},(xb],xab)>,[x8;xa:,][,];][;x8,88b:", "<
    []:::,
     {
        
    },
    (xb], xab)
>,
[x8;xa:,
][,
];][;x8,
88b:").
Definition c488 : case := ("a::;]];]bxb8,],xx8[:a,x,<b[[xx,{x];;8a;b,a[xxb]8;;b,(),xa},a[]:8a[[[[8;,<{]88x],axx[8b,{},{{88]a},<(a;,u,u),8:a];,<u>>}}>>", "a::;]];]bxb8,
],
xx8[:a,
x,
<
    b[[xx,
     {
        x];;8a;b,
        a[xxb]8;;b,
        (),
        xa
    },
    a[]:8a[[[[8;,
    <
         {
            ]88x],
            axx[8b,
             {
                
            },
             {
                 {
                    88]a
                },
                <(a;, u, u),
                8:a];,
                <u>>
            }
        }
    >
>").
Definition c489 : case := ("b[[a;a:;:", "b[[a;a:;:").
Definition c490 : case := ("(<({xaa,a:b:x[8]]:x;,([;:x];;x[[x,bx8;a;:];[;;),ba8bxb,x];xb},(<;,([[:[b8;8x;ab,u,u,[b[]8,bbbb),(u,bbaa:]8bb:8),{a,u,u,]a;8:xa]b[[}>,bax8::[;b]b;,(8ax8ba;8a[[,8;]:a,aa[x;8a:,(),<u>))),<::bb8a:x88xb,(ab]8[][b:b])>>)", "(
    <
        (
             {
                xaa,
                a:b:x[8]]:x;,
                ([;:x];;x[[x, bx8;a;:];[;;),
                ba8bxb,
                x];xb
            },
            (
                <
                    ;,
                    ([[:[b8;8x;ab, u, u, [b[]8, bbbb),
                    (u, bbaa:]8bb:8),
                     {
                        a,
                        u,
                        u,
                        ]a;8:xa]b[[
                    }
                >,
                bax8::[;b]b;,
                (
                    8ax8ba;8a[[,
                    8;]:a,
                    aa[x;8a:,
                    (),
                    <u>
                )
            )
        ),
        <::bb8a:x88xb,
        (ab]8[][b:b])>
    >
)").
Definition c491 : case := (">[>b[:é:b;𝄞>:€€<é 
<,	{]bé:	:);{𝄞:<,€[	;b
	),a}{;<>;(Z([,b{b;<):a(;éa})}{<{;(<é:b}b(𝄞:	)𝄞é[b
<] :éZZ€(𝄞:Z€> > [é]:a(€<((Z:
b{>{;:}𝄞 >(

>𝄞{]:éb]))b(bZ(	é𝄞]𝄞]ZZ(b)]𝄞:
a	(€
éZ,,€;𝄞
>{: 𝄞: >[}Z;{{>(,Z[€[{a𝄞{a]	;, ;", ">[>b[:é:b;𝄞>:€€<
    é 
<
        ,
        	 {
            ]bé:	:); {
                𝄞:<
                    ,
                    €[	;b
	),
                    a
                } {
                    ;<>;(
                        Z(
                            [,
                            b {
                                b;<
                                    
                                ):a(;éa
                            })
                        } {
                            <
                                 {
                                    ;(
                                        <é:b
                                    }b(𝄞:	)𝄞é[b
<] :éZZ€(
                                        𝄞:Z€> > [é]:a(
                                            €<
                                                (
                                                    (
                                                        Z:
b {
                                                            
                                                        > {
                                                            ;:
                                                        }𝄞 
                                                    >(
                                                        


                                                    >𝄞 {
                                                        ]:éb]
                                                    )
                                                )b(
                                                    bZ(
                                                        	é𝄞]𝄞]ZZ(b)]𝄞:
a	(
                                                            €
éZ,
                                                            ,
                                                            €;𝄞

                                                        > {
                                                            : 𝄞: 
                                                        >[
                                                    }Z; {
                                                         {
                                                            
                                                        >(
                                                            ,
                                                            Z[€[ {
                                                                a𝄞 {
                                                                    a]	;,
                                                                     ;").
Definition c492 : case := ("(", "(
    ").
Definition c493 : case := ("b, }	 é)é]>éaa);€	,𝄞;)ab{€		€,[;{><;
:b𝄞<		;𝄞b}é)𝄞b}:<b:)Z
ZZ Z€éZé€[)Z}<	)b𝄞, <[
{ {>Z< 𝄞)
Z[{[},Za€ ]}<;<{€;<([,<	 >>)Z>a(a:b:(€ba}}[>€ bb<a({éb}€€;>}Z[
 <b(a, ,
€a );}€>;{

𝄞):𝄞Z>Z}Z}b;:Z:a	({;{}é)a(;,
	b){
Z(}Z))𝄞][>", "b,
 
}	 é)é]>éaa);€	,
𝄞;)ab {
€		€,
[; {
    ><
        ;
:b𝄞<
            		;𝄞b
        }é)𝄞b
    }:<
        b:)Z
ZZ Z€éZé€[)Z
    }<
        	)b𝄞,
         <
            [
 {
                  {
                    
                >Z<
                     𝄞)
Z[ {
                        [
                    },
                    Za€ ]
                }<
                    ;<
                         {
                            €;<([, <	 >>)Z
                        >a(
                            a:b:(
                                €ba
                            }
                        }[
                    >€ bb<
                        a(
                             {
                                éb
                            }€€;
                        >
                    }Z[
 <b(a,  , 
€a );
                }€>; {
                    

𝄞
                ):𝄞Z
            >Z
        }Z
    }b;:Z:a	(
         {
            ; {
                
            }é
        )a(;, 
	b) {
            
Z(
        }Z)
    )𝄞][
>").
Definition c494 : case := ("a𝄞},,;,(]a€)(>	a}, [>>  }]
([[,a€b	<
;]:)a,[€é[) }:é:[>{b€)a
bb𝄞))a,bb 
Z{a)a;a};]	<,}b€{
 ,a,{	:;[; :[
Z}((Z
€}<]	é<<>é𝄞bébé>>:€
](>é𝄞;]]b,<b((:€Z€):{}<[,}[,𝄞}é€<;[,[;𝄞<;
:<]}>
;, ] {)}:
𝄞éZ;,)(é>>:

a,	<	Z,	{𝄞;,b€[{]>b:
:);)𝄞€;}b,<;é];é)(€b:é	;€([", "a𝄞
},
,
;,
(]a€)(
>	a
},
 [>>  
}]
([[, a€b	<
;]:)a,
[€é[
) 
}:é:[> {
b€)a
bb𝄞))a,
bb 
Z {
a)a;a
};]	<
,

}b€ {

 ,
a,
 {
	:;[; :[
Z
}(
(
Z
€
}<]	é<<>é𝄞bébé>>:€
](

>é𝄞;]]b,
<
b(
    (:€Z€): {
        
    }<
        [,
        
    }[,
    𝄞
}é€<
    ;[,
    [;𝄞<
        ;
:<]
    }>
;,
     ]  {
        
    )
}:
𝄞éZ;,

)(
é
>
>:

a,
	<
	Z,
	 {
𝄞;,
b€[ {
    ]
>b:
:
);
)𝄞€;
}b,
<
;é];é
)(
€b:é	;€(
[").
Definition c495 : case := (";[{:()][a]b)b
{{ }𝄞a;b: 𝄞	{) :){€	b})	𝄞:)],€;a[{}a>}Z	:) ba;):);(ba :(€a[b:	b,<<>		<(a>:	>  é)<]([b{Z:b,
[éZ[𝄞 )[[}€<{
	
(
𝄞(}€€é(>((
(
é
 €éa>)[(,aab	𝄞b𝄞<Z,<<>€}
,:b(
})]{Z[a)> ", ";[ {
    :()][a]b)b
 {
         {
             
        }𝄞a;b: 𝄞	 {
            ) :) {
                €	b
            })	𝄞:)],
            €;a[ {
                
            }a>
        }Z	:) ba;):);(
            ba :(
                €a[b:	b,
                <<>		<(a>:	>  é)<
                    ](
                        [b {
                            Z:b,
                            
[éZ[𝄞 
                        )[[
                    }€<
                         {
                            
	
(
                                
𝄞(
                                    
                                }€€é(
                                    
                                >(
                                    (
                                        
(
é
 €éa
                                    >)[(
                                        ,
                                        aab	𝄞b𝄞<
                                            Z,
                                            <
                                                <>€
                                            }
,
                                            :b(

                                        })] {
                                            Z[a
                                        )
                                    > ").
Definition c496 : case := (";;>
ab>a{
[
;]a{,é
[ ", ";;>
ab>a {
    
[
;]a {
        ,
        é
[ ").
Definition c497 : case := ("€
é,aZ:{]{	][;b))b,]
>Zb} ,]<>}}<>;a[{}(é {(;,
𝄞:aé})])[[ );]𝄞]é :	b] (}𝄞} 𝄞		>{( é 	 	<,[:, ]€<€b()
;	𝄞 (€a{:𝄞Z)
𝄞;](𝄞]],	>{;>éé𝄞:éa)}é:;
(:(}é
a;)€𝄞<€ {;
)>{[	>,a :(b
é[[;]{,
	b< ]Z>Z,;é<];€]	<(>€;>[€}é>[
€Zb<>}	Z:Z  a<éa[<b	ZZ}b;é€
é>a,>(,){[[;(<Z })b;;((,>:𝄞)<é><𝄞ba]é<][:;(	>", "€
é,
aZ: {
    ] {
        	][;b))b,
        ]
>Zb
    } ,
    ]<>
}
}<>;a[ {

}(
é  {
    (;, 
𝄞:aé
})]
)[[ );]𝄞]é :	b] (

}𝄞
} 𝄞		> {
(
 é 	 	<
    ,
    [:,
     ]€<
        €b()
;	𝄞 (
            €a {
                :𝄞Z
            )
𝄞;](
                𝄞]],
                	
            > {
                ;
            >éé𝄞:éa
        )
    }é:;
(
        :(
    }é
a;)€𝄞<
        €  {
            ;

        )
    > {
        [	>,
        a :(
            b
é[[;] {
                ,
                
	b< ]Z>Z,
                ;é<];€]	<(
                    >€;>[€
                }é>[
€Zb<>
            }	Z:Z  a<éa[<b	ZZ
        }b;é€
é>a,
        >(, ) {
            [[;(<Z 
        })b;;(
            (, >:𝄞)<é><
                𝄞ba]é<][:;(
                    	>").
Definition c498 : case := (";éb€,,}a)([	€a;[:>𝄞[Z);
{€", ";éb€,
,

}a)([	€a;[:>𝄞[Z);
 {
€").
Definition c499 : case := ("[>𝄞)𝄞>€a}[[€	é>𝄞>é}é𝄞]é]{
€)𝄞;[Z>>,<()))
;a,)bé€𝄞}a𝄞Z	)<bb]])}
 (	>[aé;€a:[𝄞[€Z(];	<𝄞>],𝄞€a::Z}	 ]abé]", "[>𝄞)𝄞>€a
}[[€	é>𝄞>é
}é𝄞]é] {

€)𝄞;[Z>>,
<
()))
;a,
)bé€𝄞
}a𝄞Z	)<bb]])
}
 (
	>[aé;€a:[𝄞[€Z(
];	<𝄞>],
𝄞€a::Z
}	 ]abé]").
Definition c500 : case := (">;𝄞()€;:{;<é	}}
)éabé)};{,
<,𝄞𝄞𝄞]})
,>abé)𝄞a;>€()<bé𝄞b}>)𝄞	)a(<	𝄞bb}}Z);,}]Z<€;{é 𝄞{bbbé,<𝄞Z;é𝄞𝄞(	})Z:<
(]ab [b>a[(;;€>[}>:	  }} >)a]𝄞b;>𝄞b:Z€;([(é( Z[ [;€ ;é𝄞[€ €a
Z<[€)Z( a;}]a]>€[; b;[([𝄞éb}[
é𝄞{	aZba}é
)a𝄞)<;][
 Z
) > ]}a,>{{;b𝄞a{[,{{,[€}€[,a (é{a;}Za]	(€	>{>éZa€);
 ( Z(	b{ b", ">;𝄞()€;: {
    ;<
        é	
    }
}
)éabé)
}; {
,

<,
𝄞𝄞𝄞]
})
,
>abé)𝄞a;
>€()<bé𝄞b
}>)𝄞	)a(<
	𝄞bb
}
}Z);,

}]Z<
€; {
é 𝄞 {
bbbé,
<𝄞Z;é𝄞𝄞(	
})Z:<
(
]ab [b>a[(;;€>[
}
>:	  
}
} 
>)a]𝄞b;>𝄞b:Z€;(
[(
é( Z[ [;€ ;é𝄞[€ €a
Z<[€)Z(
 a;
}]a]>€[; b;[(
[𝄞éb
}[
é𝄞 {
	aZba
}é

)a𝄞
)<;][
 Z

) > ]
}a,
> {
 {
;b𝄞a {
[,
 {
 {
,
[€
}€[,
a (
é {
a;
}Za]	(
€	> {
>éZa€
);
 (
 Z(
	b {
 b").
Definition c501 : case := ("Z)[€	€é<€,é}𝄞Za:€ [ 𝄞{>>a€)<	[ (]:Z<}éZ:𝄞éZ
a{}{a{€Z[]];[	[		 é);
{)a>
:[]éZ}})€<Z [,{	(}]a 𝄞a>: :<:)	,
 ;,[;>[{:]{ 
])	>€[a<([𝄞b>𝄞{𝄞:Z	é>Z]𝄞;a;	:é
b}é[𝄞,;
]] ;𝄞
)𝄞€	€{	(éa b	€;€:
		[
 é}
<𝄞<b𝄞b]{b}", "Z)[€	€é<
    €,
    é
}𝄞Za:€ [ 𝄞 {
    
>>a€)<
    	[ (
        ]:Z<
            
        }éZ:𝄞éZ
a {
            
        } {
            a {
                €Z[]];[	[		 é
            );
 {
                )a
            >
:[]éZ
        }
    })€<
        Z [,
         {
            	(
        }]a 𝄞a
    >: :<:)	,
    
 ;,
    [;>[ {
        :] {
             
])	
        >€[a<(
            [𝄞b>𝄞 {
                𝄞:Z	é>Z]𝄞;a;	:é
b
            }é[𝄞,
            ;
]] ;𝄞

        )𝄞€	€ {
            	(
                éa b	€;€:
		[
 é
            }
<
                𝄞<
                    b𝄞b] {
                        b
                    }").
Definition c502 : case := ("bb>; ]<é𝄞Z;[[}::[ba;;[𝄞>))Zb[<é{		<[aé}
;ZZb
é€𝄞:b(,}𝄞Z]b	[(<()
)", "bb>; ]<é𝄞Z;[[
}::[ba;;[𝄞>))Zb[<
é {
    		<
        [aé
    }
;ZZb
é€𝄞:b(
        ,
        
    }𝄞Z]b	[(<
        ()
)").
Definition c503 : case := ("€𝄞b]:(
>{ ;<𝄞
}éé<>)  a é);]é;Z;>a	]>{	}", "€𝄞b]:(
    
> {
         ;<𝄞

    }éé<>
)  a é);]é;Z;>a	]> {
    	
}").
Definition c504 : case := ("] ;]]){[ab]{ }a€	𝄞{,[,;	 a	<{({>b}{(
][,€é€)
}, ;a;:aaa  [}€a𝄞Zb€)< €𝄞;€𝄞}𝄞
>;}};;a	Z]€ ;>é<€[,}<,𝄞
]é
:[}:[𝄞b>a𝄞é>𝄞>é;	b}€é{	:𝄞b;[]:
a,Z	é;{][	:(𝄞
 𝄞Z )a𝄞€Zé<𝄞𝄞€
Z)]){,

} ;
,{Z}𝄞é: : {
é}€b,)(Z  ;,:)	(}<<(}€ ))é(Z:	bé}a Z:,><", "] ;]]) {
    [ab] {
         
    }a€	𝄞 {
        ,
        [,
        ;	 a	<
             {
                (
                     {
                        
                    >b
                } {
                    (
][, €é€)

                },
                 ;a;:aaa  [
            }€a𝄞Zb€
        )< €𝄞;€𝄞
    }𝄞
>;
}
};;a	Z]€ ;>é<€[,

}<,
𝄞
]é
:[
}:[𝄞b>a𝄞é>𝄞>é;	b
}€é {
	:𝄞b;[]:
a,
Z	é; {
][	:(𝄞
 𝄞Z )a𝄞€Zé<
𝄞𝄞€
Z)]) {
,



} ;
,
 {
Z
}𝄞é: :  {

é
}€b,
)(Z  ;, :)	(
}<
<(
}€ ))é(
Z:	bé
}a Z:,
><
").
Definition c505 : case := (">(,((a>  Z}ba𝄞(é >", ">(
    ,
    (
        (
            a>  Z
        }ba𝄞(
            é >").
Definition c506 : case := ("{€b}
]{}]€ >}b::a(
:bb,	]ZZ>[]{[€(b[>a: aZ
é,)):])𝄞b<€
Z;b>]	[Za{<>é;€{]>>{
a:)a€ <	}a€[}{;a([],é ) a:	<{ZZ é>a€{]a:,}é{(a{)>{ }<[[{;[((	[é{𝄞,:€é,𝄞aZ
€b:,é
𝄞:	)))(;
aZ}", " {
    €b
}
] {
    
}]€ >
}b::a(

:bb,
	]ZZ>[] {
    [€(b[>a: aZ
é, )
):])𝄞b<€
Z;b>]	[Za {
    <>é;€ {
        ]>> {
            
a:)a€ <
                	
            }a€[
        } {
            ;a([], é ) a:	<
                 {
                    ZZ é
                >a€ {
                    ]a:,
                    
                }é {
                    (
                        a {
                            
                        )
                    > {
                         
                    }<
                        [[ {
                            ;[(
                                (
                                    	[é {
                                        𝄞,
                                        :€é,
                                        𝄞aZ
€b:,
                                        é
𝄞:	
                                    )
                                ))(
                                    ;
aZ
                                }").
Definition c507 : case := (":éaa)<€
𝄞;>	 ,€a€,é[[(,b<b(}é,éZ>é{:];:)>, >:{a:a)a,;	>< Z
	,(:
{a€{):é](Z(:€a>€(>( a{€[}{Za: {a{,é𝄞>;a):{
<:<<
{{(𝄞]a[<	}>𝄞;];,{	)éb{a,,", ":éaa)<€
𝄞;>	 ,
€a€,
é[[(
    ,
    b<b(
        
    }é,
    éZ>é {
        :];:
    )>,
     >: {
        a:a
    )a,
    ;	><
         Z
	,
        (
            :
 {
                a€ {
                    
                ):é](
                    Z(
                        :€a
                    >€(
                        >(
                             a {
                                €[
                            } {
                                Za:  {
                                    a {
                                        ,
                                        é𝄞>;a
                                    ): {
                                        
<
                                            :<
                                                <
                                                    
 {
                                                         {
                                                            (
                                                                𝄞]a[<	
                                                            }>𝄞;];,
                                                             {
                                                                	
                                                            )éb {
                                                                a,
                                                                ,
                                                                ").
Definition c508 : case := (">
 >]]ab [( €}[>{;;,{({>€𝄞[;;)[ ](]
>]a	é{(; ]b<b,{[é(<,  [>a[b(
éZ<é(€{{:}	a
)ab]<:<𝄞	é,,:a}Z	é:Z𝄞	,>éb}>€{})])	𝄞a€(>,Z]}:}[a€[:;Z<Z ,}[>a)}>:(
 
)
;
€>],€,,]é[)(:bé)b;b(
(]	}é[ ( ({ab <,é;][;,(		€;,
;(a)(:]𝄞;[ ", ">
 >]]ab [(
     €
}[> {
    ;;,
     {
        (
             {
                >€𝄞[;;
            )[ ](
                ]
>]a	é {
                    (
                        ; ]b<
                            b,
                             {
                                [é(
                                    <,
                                      [>a[b(
                                        
éZ<
                                            é(
                                                € {
                                                     {
                                                        :
                                                    }	a

                                                )ab]<:<𝄞	é,
                                                ,
                                                :a
                                            }Z	é:Z𝄞	,
                                            >éb
                                        }>€ {
                                            
                                        }
                                    )]
                                )	𝄞a€(
                            >, Z]
                        }:
                    }[a€[:;Z<Z , 
                }[>a)
            }
        >:(
 
)
;
€>],
        €,
        ,
        ]é[
    )(:bé)b;b(
        
(
            ]	
        }é[ (
             (
                 {
                    ab <
                        ,
                        é;][;,
                        (
                            		€;,
                            
;(a)(
                                :]𝄞;[ ").
Definition c509 : case := (";](Z	{(;b}€[b
€: €(;{b𝄞)>:€b}{};:;Z𝄞>>>{€

>,𝄞(€Z𝄞;:>(;	}{)Z
Z, €	[a< :(}a;:,;,)a>> },b a𝄞><),[é:𝄞;	𝄞€ ,[<a>éZ ;
 
]b  }  €Z<;}(
)𝄞
Z)ba
(<
b€€}];><;a𝄞:b[,
	a𝄞€ébZ[é>b,;:𝄞	[ 𝄞{,,;,bZ()é𝄞)a
b
[[
,:}é {a€<{{ 		{	b€bZ{
 a ,b;>a }𝄞({:],Z	 €
[}	>𝄞
,éZa(]	>Z €{aé{
<;[Z:]>>é
) [[a::<𝄞><;bb:€
>
< ,((b;>", ";](
    Z	 {
        (
            ;b
        }€[b
€: €(
            ; {
                b𝄞
            )>:€b
        } {
            
        };:;Z𝄞>>> {
            €

>,
            𝄞(
                €Z𝄞;:>(
                    ;	
                } {
                    
                )Z
Z,
                 €	[a< :(
            }a;:, ;, )a>> 
        },
        b a𝄞><
            
        ),
        [é:𝄞;	𝄞€ ,
        [<a>éZ ;
 
]b  
    }  €Z<
        ;
    }(
)𝄞
Z
)ba
(
    <
b€€
}];><;a𝄞:b[,

	a𝄞€ébZ[é>b,
;:𝄞	[ 𝄞 {
    ,
    ,
    ;,
    bZ()é𝄞
)a
b
[[
,
:
}é  {
a€<
     {
         {
             		 {
                	b€bZ {
                    
 a ,
                    b;
                >a 
            }𝄞(
                 {
                    :],
                    Z	 €
[
                }	
            >𝄞
,
            éZa(
                ]	
            >Z € {
                aé {
                    
<;[Z:]>>é

                ) [[a::<𝄞><;bb:€
>
< ,
                (
                    (
                        b;>").
Definition c510 : case := ("enum ArithmeticError{Underflow,Overflow,DivisionByZero}", "enum ArithmeticError {
    Underflow,
    Overflow,
    DivisionByZero
}").
Definition c511 : case := ("enum Option<AccountId32>{None,Some(struct AccountId32([u8; 32]))}", "enum Option<AccountId32> {
    None,
    Some(struct AccountId32([u8; 32]))
}").
Definition c512 : case := ("enum Call<_>{reap_page{message_origin: enum AggregateMessageOrigin{Ump(enum UmpQueueId{Para(struct Id(u32))})},page_index: u32},execute_overweight{message_origin: AggregateMessageOrigin,page: u32,index: u32,weight_limit: struct Weight{ref_time: Compact<u64>,proof_size: Compact<u64>}}}", "enum Call<_> {
    reap_page {
        message_origin: enum AggregateMessageOrigin {
            Ump(
                enum UmpQueueId {
                    Para(struct Id(u32))
                }
            )
        },
        page_index: u32
    },
    execute_overweight {
        message_origin: AggregateMessageOrigin,
        page: u32,
        index: u32,
        weight_limit: struct Weight {
            ref_time: Compact<u64>,
            proof_size: Compact<u64>
        }
    }
}").
Definition c513 : case := ("Vec<(enum VersionedMultiLocation{V2(struct MultiLocation{parents: u8,interior: enum Junctions{Here,X1(enum Junction{Parachain(Compact<u32>),AccountId32{network: enum NetworkId{Any,Named(struct WeakBoundedVec<u8,_>(Vec<u8>)),Polkadot,Kusama},id: [u8; 32]},AccountIndex64{network: NetworkId,index: Compact<u64>},AccountKey20{network: NetworkId,key: [u8; 20]},PalletInstance(u8),GeneralIndex(Compact<u128>),GeneralKey(WeakBoundedVec<u8,_>),OnlyChild,Plurality{id: enum BodyId{Unit,Named(WeakBoundedVec<u8,_>),Index(Compact<u32>),Executive,Technical,Legislative,Judicial,Defense,Administration,Treasury},part: enum BodyPart{Voice,Members{count: Compact<u32>},Fraction{nom: Compact<u32>,denom: Compact<u32>},AtLeastProportion{nom: Compact<u32>,denom: Compact<u32>},MoreThanProportion{nom: Compact<u32>,denom: Compact<u32>}}}}),X2(Junction,Junction),X3(Junction,Junction,Junction),X4(Junction,Junction,Junction,Junction),X5(Junction,Junction,Junction,Junction,Junction),X6(Junction,Junction,Junction,Junction,Junction,Junction),X7(Junction,Junction,Junction,Junction,Junction,Junction,Junction),X8(Junction,Junction,Junction,Junction,Junction,Junction,Junction,Junction)}}),V3(struct MultiLocation{parents: u8,interior: enum Junctions{Here,X1(enum Junction{Parachain(Compact<u32>),AccountId32{network: enum Option<NetworkId>{None,Some(enum NetworkId{ByGenesis([u8; 32]),ByFork{block_number: u64,block_hash: [u8; 32]},Polkadot,Kusama,Westend,Rococo,Wococo,Ethereum{chain_id: Compact<u64>},BitcoinCore,BitcoinCash})},id: [u8; 32]},AccountIndex64{network: Option<NetworkId>,index: Compact<u64>},AccountKey20{network: Option<NetworkId>,key: [u8; 20]},PalletInstance(u8),GeneralIndex(Compact<u128>),GeneralKey{length: u8,data: [u8; 32]},OnlyChild,Plurality{id: enum BodyId{Unit,Moniker([u8; 4]),Index(Compact<u32>),Executive,Technical,Legislative,Judicial,Defense,Administration,Treasury},part: enum BodyPart{Voice,Members{count: Compact<u32>},Fraction{nom: Compact<u32>,denom: Compact<u32>},AtLeastProportion{nom: Compact<u32>,denom: Compact<u32>},MoreThanProportion{nom: Compact<u32>,denom: Compact<u32>}}},GlobalConsensus(NetworkId)}),X2(Junction,Junction),X3(Junction,Junction,Junction),X4(Junction,Junction,Junction,Junction),X5(Junction,Junction,Junction,Junction,Junction),X6(Junction,Junction,Junction,Junction,Junction,Junction),X7(Junction,Junction,Junction,Junction,Junction,Junction,Junction),X8(Junction,Junction,Junction,Junction,Junction,Junction,Junction,Junction)}})},u32)>", "Vec<
    (
        enum VersionedMultiLocation {
            V2(
                struct MultiLocation {
                    parents: u8,
                    interior: enum Junctions {
                        Here,
                        X1(
                            enum Junction {
                                Parachain(Compact<u32>),
                                AccountId32 {
                                    network: enum NetworkId {
                                        Any,
                                        Named(
                                            struct WeakBoundedVec<u8,
                                            _>(Vec<u8>)
                                        ),
                                        Polkadot,
                                        Kusama
                                    },
                                    id: [u8; 32]
                                },
                                AccountIndex64 {
                                    network: NetworkId,
                                    index: Compact<u64>
                                },
                                AccountKey20 {
                                    network: NetworkId,
                                    key: [u8; 20]
                                },
                                PalletInstance(u8),
                                GeneralIndex(Compact<u128>),
                                GeneralKey(WeakBoundedVec<u8, _>),
                                OnlyChild,
                                Plurality {
                                    id: enum BodyId {
                                        Unit,
                                        Named(WeakBoundedVec<u8, _>),
                                        Index(Compact<u32>),
                                        Executive,
                                        Technical,
                                        Legislative,
                                        Judicial,
                                        Defense,
                                        Administration,
                                        Treasury
                                    },
                                    part: enum BodyPart {
                                        Voice,
                                        Members {
                                            count: Compact<u32>
                                        },
                                        Fraction {
                                            nom: Compact<u32>,
                                            denom: Compact<u32>
                                        },
                                        AtLeastProportion {
                                            nom: Compact<u32>,
                                            denom: Compact<u32>
                                        },
                                        MoreThanProportion {
                                            nom: Compact<u32>,
                                            denom: Compact<u32>
                                        }
                                    }
                                }
                            }
                        ),
                        X2(Junction, Junction),
                        X3(Junction, Junction, Junction),
                        X4(
                            Junction,
                            Junction,
                            Junction,
                            Junction
                        ),
                        X5(
                            Junction,
                            Junction,
                            Junction,
                            Junction,
                            Junction
                        ),
                        X6(
                            Junction,
                            Junction,
                            Junction,
                            Junction,
                            Junction,
                            Junction
                        ),
                        X7(
                            Junction,
                            Junction,
                            Junction,
                            Junction,
                            Junction,
                            Junction,
                            Junction
                        ),
                        X8(
                            Junction,
                            Junction,
                            Junction,
                            Junction,
                            Junction,
                            Junction,
                            Junction,
                            Junction
                        )
                    }
                }
            ),
            V3(
                struct MultiLocation {
                    parents: u8,
                    interior: enum Junctions {
                        Here,
                        X1(
                            enum Junction {
                                Parachain(Compact<u32>),
                                AccountId32 {
                                    network: enum Option<NetworkId> {
                                        None,
                                        Some(
                                            enum NetworkId {
                                                ByGenesis([u8; 32]),
                                                ByFork {
                                                    block_number: u64,
                                                    block_hash: [u8; 32]
                                                },
                                                Polkadot,
                                                Kusama,
                                                Westend,
                                                Rococo,
                                                Wococo,
                                                Ethereum {
                                                    chain_id: Compact<u64>
                                                },
                                                BitcoinCore,
                                                BitcoinCash
                                            }
                                        )
                                    },
                                    id: [u8; 32]
                                },
                                AccountIndex64 {
                                    network: Option<NetworkId>,
                                    index: Compact<u64>
                                },
                                AccountKey20 {
                                    network: Option<NetworkId>,
                                    key: [u8; 20]
                                },
                                PalletInstance(u8),
                                GeneralIndex(Compact<u128>),
                                GeneralKey {
                                    length: u8,
                                    data: [u8; 32]
                                },
                                OnlyChild,
                                Plurality {
                                    id: enum BodyId {
                                        Unit,
                                        Moniker([u8; 4]),
                                        Index(Compact<u32>),
                                        Executive,
                                        Technical,
                                        Legislative,
                                        Judicial,
                                        Defense,
                                        Administration,
                                        Treasury
                                    },
                                    part: enum BodyPart {
                                        Voice,
                                        Members {
                                            count: Compact<u32>
                                        },
                                        Fraction {
                                            nom: Compact<u32>,
                                            denom: Compact<u32>
                                        },
                                        AtLeastProportion {
                                            nom: Compact<u32>,
                                            denom: Compact<u32>
                                        },
                                        MoreThanProportion {
                                            nom: Compact<u32>,
                                            denom: Compact<u32>
                                        }
                                    }
                                },
                                GlobalConsensus(NetworkId)
                            }
                        ),
                        X2(Junction, Junction),
                        X3(Junction, Junction, Junction),
                        X4(
                            Junction,
                            Junction,
                            Junction,
                            Junction
                        ),
                        X5(
                            Junction,
                            Junction,
                            Junction,
                            Junction,
                            Junction
                        ),
                        X6(
                            Junction,
                            Junction,
                            Junction,
                            Junction,
                            Junction,
                            Junction
                        ),
                        X7(
                            Junction,
                            Junction,
                            Junction,
                            Junction,
                            Junction,
                            Junction,
                            Junction
                        ),
                        X8(
                            Junction,
                            Junction,
                            Junction,
                            Junction,
                            Junction,
                            Junction,
                            Junction,
                            Junction
                        )
                    }
                }
            )
        },
        u32
    )
>").
Definition cases : list (case) := [c0; c1; c2; c3; c4; c5; c6; c7; c8; c9; c10; c11; c12; c13; c14; c15; c16; c17; c18; c19; c20; c21; c22; c23; c24; c25; c26; c27; c28; c29; c30; c31; c32; c33; c34; c35; c36; c37; c38; c39; c40; c41; c42; c43; c44; c45; c46; c47; c48; c49; c50; c51; c52; c53; c54; c55; c56; c57; c58; c59; c60; c61; c62; c63; c64; c65; c66; c67; c68; c69; c70; c71; c72; c73; c74; c75; c76; c77; c78; c79; c80; c81; c82; c83; c84; c85; c86; c87; c88; c89; c90; c91; c92; c93; c94; c95; c96; c97; c98; c99; c100; c101; c102; c103; c104; c105; c106; c107; c108; c109; c110; c111; c112; c113; c114; c115; c116; c117; c118; c119; c120; c121; c122; c123; c124; c125; c126; c127; c128; c129; c130; c131; c132; c133; c134; c135; c136; c137; c138; c139; c140; c141; c142; c143; c144; c145; c146; c147; c148; c149; c150; c151; c152; c153; c154; c155; c156; c157; c158; c159; c160; c161; c162; c163; c164; c165; c166; c167; c168; c169; c170; c171; c172; c173; c174; c175; c176; c177; c178; c179; c180; c181; c182; c183; c184; c185; c186; c187; c188; c189; c190; c191; c192; c193; c194; c195; c196; c197; c198; c199; c200; c201; c202; c203; c204; c205; c206; c207; c208; c209; c210; c211; c212; c213; c214; c215; c216; c217; c218; c219; c220; c221; c222; c223; c224; c225; c226; c227; c228; c229; c230; c231; c232; c233; c234; c235; c236; c237; c238; c239; c240; c241; c242; c243; c244; c245; c246; c247; c248; c249; c250; c251; c252; c253; c254; c255; c256; c257; c258; c259; c260; c261; c262; c263; c264; c265; c266; c267; c268; c269; c270; c271; c272; c273; c274; c275; c276; c277; c278; c279; c280; c281; c282; c283; c284; c285; c286; c287; c288; c289; c290; c291; c292; c293; c294; c295; c296; c297; c298; c299; c300; c301; c302; c303; c304; c305; c306; c307; c308; c309; c310; c311; c312; c313; c314; c315; c316; c317; c318; c319; c320; c321; c322; c323; c324; c325; c326; c327; c328; c329; c330; c331; c332; c333; c334; c335; c336; c337; c338; c339; c340; c341; c342; c343; c344; c345; c346; c347; c348; c349; c350; c351; c352; c353; c354; c355; c356; c357; c358; c359; c360; c361; c362; c363; c364; c365; c366; c367; c368; c369; c370; c371; c372; c373; c374; c375; c376; c377; c378; c379; c380; c381; c382; c383; c384; c385; c386; c387; c388; c389; c390; c391; c392; c393; c394; c395; c396; c397; c398; c399; c400; c401; c402; c403; c404; c405; c406; c407; c408; c409; c410; c411; c412; c413; c414; c415; c416; c417; c418; c419; c420; c421; c422; c423; c424; c425; c426; c427; c428; c429; c430; c431; c432; c433; c434; c435; c436; c437; c438; c439; c440; c441; c442; c443; c444; c445; c446; c447; c448; c449; c450; c451; c452; c453; c454; c455; c456; c457; c458; c459; c460; c461; c462; c463; c464; c465; c466; c467; c468; c469; c470; c471; c472; c473; c474; c475; c476; c477; c478; c479; c480; c481; c482; c483; c484; c485; c486; c487; c488; c489; c490; c491; c492; c493; c494; c495; c496; c497; c498; c499; c500; c501; c502; c503; c504; c505; c506; c507; c508; c509; c510; c511; c512; c513].
Eval vm_compute in ("corr_exact"%string, failing (corr_exact) cases).
Eval vm_compute in ("corr_stream"%string, failing (corr_stream) cases).
Eval vm_compute in ("prop_ws"%string, failing (prop_ws) cases).
Eval vm_compute in ("prop_discipline"%string, failing (prop_discipline) cases).
