From Coq Require Import List NArith String.
From V Require Import Base.Util Corr.RunC15.
Import ListNotations. Open Scope string_scope.
Definition c0 : case := ("{<", " {
    <
        ").
Definition c1 : case := ("((", "(
    (
        ").
Definition c2 : case := ("<{", "<
     {
        ").
Definition c3 : case := (">a", ">a").
Definition c4 : case := ("a>", "a>").
Definition c5 : case := ("{{)", " {
     {
        )").
Definition c6 : case := ("{(}", " {
    (
        
    }").
Definition c7 : case := ("{) ", " {
    ) ").
Definition c8 : case := ("{>,", " {
    >,
    ").
Definition c9 : case := ("{a<", " {
    a<
        ").
Definition c10 : case := ("}{(", "
} {
(
    ").
Definition c11 : case := ("}({", "
}(
 {
    ").
Definition c12 : case := ("})a", "
})a").
Definition c13 : case := ("}>>", "
}>>").
Definition c14 : case := ("}a)", "
}a)").
Definition c15 : case := ("({}", "(
     {
        
    }").
Definition c16 : case := ("(} ", "(
    
} ").
Definition c17 : case := ("(),", "(),
").
Definition c18 : case := ("(><", "(
    ><
        ").
Definition c19 : case := ("(a(", "(
    a(
        ").
Definition c20 : case := ("){{", ") {
     {
        ").
Definition c21 : case := (")}a", ")
}a").
Definition c22 : case := ("))>", "))>").
Definition c23 : case := (")>)", ")>)").
Definition c24 : case := (")a}", ")a
}").
Definition c25 : case := (")  ", ")  ").
Definition c26 : case := ("<},", "<
    
},
").
Definition c27 : case := ("<)<", "<
    )<
        ").
Definition c28 : case := ("<>(", "<>(
    ").
Definition c29 : case := ("<a{", "<
    a {
        ").
Definition c30 : case := ("< a", "<
     a").
Definition c31 : case := (">}>", ">
}>").
Definition c32 : case := (">))", ">))").
Definition c33 : case := (">>}", ">>
}").
Definition c34 : case := (">, ", ">,
 ").
Definition c35 : case := ("> ,", "> ,
").
Definition c36 : case := (",}<", ",

}<
").
Definition c37 : case := (",)(", ",
)(
    ").
Definition c38 : case := (",>{", ",
> {
    ").
Definition c39 : case := (",,a", ",
,
a").
Definition c40 : case := (", >", ",
 >").
Definition c41 : case := ("a})", "a
})").
Definition c42 : case := ("a)}", "a)
}").
Definition c43 : case := ("a< ", "a<
     ").
Definition c44 : case := ("a,,", "a,
,
").
Definition c45 : case := ("a <", "a <
    ").
Definition c46 : case := (" }(", " 
}(
").
Definition c47 : case := (" ){", " ) {
    ").
Definition c48 : case := (" <a", " <
    a").
Definition c49 : case := (" ,>", " ,
>").
Definition c50 : case := ("  )", "  )").
Definition c51 : case := ("{{}}", " {
     {
        
    }
}").
Definition c52 : case := ("{{( ", " {
     {
        (
             ").
Definition c53 : case := ("{{<,", " {
     {
        <
            ,
            ").
Definition c54 : case := ("{{,<", " {
     {
        ,
        <
            ").
Definition c55 : case := ("{{ (", " {
     {
         (
            ").
Definition c56 : case := ("{}}{", " {
    
}
} {
").
Definition c57 : case := ("{}(a", " {
    
}(
    a").
Definition c58 : case := ("{}<>", " {
    
}<>").
Definition c59 : case := ("{},)", " {
    
},
)").
Definition c60 : case := ("{} }", " {
    
} 
}").
Definition c61 : case := ("{({ ", " {
    (
         {
             ").
Definition c62 : case := ("{((,", " {
    (
        (
            ,
            ").
Definition c63 : case := ("{(<<", " {
    (
        <
            <
                ").
Definition c64 : case := ("{(,(", " {
    (
        ,
        (
            ").
Definition c65 : case := ("{( {", " {
    (
          {
            ").
Definition c66 : case := ("{){a", " {
    ) {
        a").
Definition c67 : case := ("{)(>", " {
    )(
        >").
Definition c68 : case := ("{)<)", " {
    )<
        )").
Definition c69 : case := ("{),}", " {
    ),
    
}").
Definition c70 : case := ("{)a ", " {
    )a ").
Definition c71 : case := ("{<{,", " {
    <
         {
            ,
            ").
Definition c72 : case := ("{<(<", " {
    <
        (
            <
                ").
Definition c73 : case := ("{<<(", " {
    <
        <
            (
                ").
Definition c74 : case := ("{<,{", " {
    <
        ,
         {
            ").
Definition c75 : case := ("{<aa", " {
    <
        aa").
Definition c76 : case := ("{>{>", " {
    > {
        >").
Definition c77 : case := ("{>()", " {
    >()").
Definition c78 : case := ("{><}", " {
    ><
        
    }").
Definition c79 : case := ("{>> ", " {
    >> ").
Definition c80 : case := ("{>a,", " {
    >a,
    ").
Definition c81 : case := ("{,{<", " {
    ,
     {
        <
            ").
Definition c82 : case := ("{,((", " {
    ,
    (
        (
            ").
Definition c83 : case := ("{,<{", " {
    ,
    <
         {
            ").
Definition c84 : case := ("{,>a", " {
    ,
    >a").
Definition c85 : case := ("{,a>", " {
    ,
    a>").
Definition c86 : case := ("{a{)", " {
    a {
        )").
Definition c87 : case := ("{a(}", " {
    a(
        
    }").
Definition c88 : case := ("{a) ", " {
    a) ").
Definition c89 : case := ("{a>,", " {
    a>,
    ").
Definition c90 : case := ("{aa<", " {
    aa<
        ").
Definition c91 : case := ("{ {(", " {
      {
        (
            ").
Definition c92 : case := ("{ ({", " {
     (
         {
            ").
Definition c93 : case := ("{ )a", " {
     )a").
Definition c94 : case := ("{ >>", " {
     >>").
Definition c95 : case := ("{ a)", " {
     a)").
Definition c96 : case := ("}{{}", "
} {
 {
    
}").
Definition c97 : case := ("}{} ", "
} {

} ").
Definition c98 : case := ("}{),", "
} {
),
").
Definition c99 : case := ("}{><", "
} {
><
    ").
Definition c100 : case := ("}{a(", "
} {
a(
    ").
Definition c101 : case := ("}}{{", "
}
} {
 {
").
Definition c102 : case := ("}}}a", "
}
}
}a").
Definition c103 : case := ("}})>", "
}
})>").
Definition c104 : case := ("}}>)", "
}
}>)").
Definition c105 : case := ("}}a}", "
}
}a
}").
Definition c106 : case := ("}}  ", "
}
}  ").
Definition c107 : case := ("}(},", "
}(

},
").
Definition c108 : case := ("}()<", "
}()<
").
Definition c109 : case := ("}(>(", "
}(
>(
    ").
Definition c110 : case := ("}(a{", "
}(
a {
    ").
Definition c111 : case := ("}( a", "
}(
 a").
Definition c112 : case := ("})}>", "
})
}>").
Definition c113 : case := ("})))", "
})))").
Definition c114 : case := ("})>}", "
})>
}").
Definition c115 : case := ("}), ", "
}),
 ").
Definition c116 : case := ("}) ,", "
}) ,
").
Definition c117 : case := ("}<}<", "
}<

}<
").
Definition c118 : case := ("}<)(", "
}<
)(
    ").
Definition c119 : case := ("}<>{", "
}<> {
").
Definition c120 : case := ("}<,a", "
}<
,
a").
Definition c121 : case := ("}< >", "
}< >").
Definition c122 : case := ("}>})", "
}>
})").
Definition c123 : case := ("}>)}", "
}>)
}").
Definition c124 : case := ("}>< ", "
}><
 ").
Definition c125 : case := ("}>,,", "
}>,
,
").
Definition c126 : case := ("}> <", "
}> <
").
Definition c127 : case := ("},}(", "
},

}(
").
Definition c128 : case := ("},){", "
},
) {
").
Definition c129 : case := ("},<a", "
},
<
a").
Definition c130 : case := ("},,>", "
},
,
>").
Definition c131 : case := ("}, )", "
},
 )").
Definition c132 : case := ("}a}}", "
}a
}
}").
Definition c133 : case := ("}a( ", "
}a(
 ").
Definition c134 : case := ("}a<,", "
}a<
,
").
Definition c135 : case := ("}a,<", "
}a,
<
").
Definition c136 : case := ("}a (", "
}a (
").
Definition c137 : case := ("} }{", "
} 
} {
").
Definition c138 : case := ("} (a", "
} (
a").
Definition c139 : case := ("} <>", "
} <>").
Definition c140 : case := ("} ,)", "
} ,
)").
Definition c141 : case := ("}  }", "
}  
}").
Definition c142 : case := ("({{ ", "(
     {
         {
             ").
Definition c143 : case := ("({(,", "(
     {
        (
            ,
            ").
Definition c144 : case := ("({<<", "(
     {
        <
            <
                ").
Definition c145 : case := ("({,(", "(
     {
        ,
        (
            ").
Definition c146 : case := ("({ {", "(
     {
          {
            ").
Definition c147 : case := ("(}{a", "(
    
} {
    a").
Definition c148 : case := ("(}(>", "(
    
}(
    >").
Definition c149 : case := ("(}<)", "(
}<
)").
Definition c150 : case := ("(},}", "(
    
},

}").
Definition c151 : case := ("(}a ", "(
    
}a ").
Definition c152 : case := ("(({,", "(
    (
         {
            ,
            ").
Definition c153 : case := ("(((<", "(
    (
        (
            <
                ").
Definition c154 : case := ("((<(", "(
    (
        <
            (
                ").
Definition c155 : case := ("((,{", "(
    (
        ,
         {
            ").
Definition c156 : case := ("((aa", "(
    (
        aa").
Definition c157 : case := ("(){>", "() {
    >").
Definition c158 : case := ("()()", "()()").
Definition c159 : case := ("()<}", "()<
    
}").
Definition c160 : case := ("()> ", "()> ").
Definition c161 : case := ("()a,", "()a,
").
Definition c162 : case := ("(<{<", "(
    <
         {
            <
                ").
Definition c163 : case := ("(<((", "(
    <
        (
            (
                ").
Definition c164 : case := ("(<<{", "(
    <
        <
             {
                ").
Definition c165 : case := ("(<>a", "(
    <>a").
Definition c166 : case := ("(<a>", "(
    <a>").
Definition c167 : case := ("(>{)", "(
    > {
        
    )").
Definition c168 : case := ("(>(}", "(
    >(
        
    }").
Definition c169 : case := ("(>) ", "(>) ").
Definition c170 : case := ("(>>,", "(
    >>,
    ").
Definition c171 : case := ("(>a<", "(
    >a<
        ").
Definition c172 : case := ("(,{(", "(
    ,
     {
        (
            ").
Definition c173 : case := ("(,({", "(
    ,
    (
         {
            ").
Definition c174 : case := ("(,)a", "(, )a").
Definition c175 : case := ("(,>>", "(
    ,
    >>").
Definition c176 : case := ("(,a)", "(, a)").
Definition c177 : case := ("(a{}", "(
    a {
        
    }").
Definition c178 : case := ("(a} ", "(
    a
} ").
Definition c179 : case := ("(a),", "(a),
").
Definition c180 : case := ("(a><", "(
    a><
        ").
Definition c181 : case := ("(aa(", "(
    aa(
        ").
Definition c182 : case := ("( {{", "(
      {
         {
            ").
Definition c183 : case := ("( }a", "(
     
}a").
Definition c184 : case := ("( )>", "( )>").
Definition c185 : case := ("( >)", "( >)").
Definition c186 : case := ("( a}", "(
     a
}").
Definition c187 : case := ("(   ", "(
       ").
Definition c188 : case := ("){},", ") {
    
},
").
Definition c189 : case := ("){)<", ") {
    )<
        ").
Definition c190 : case := ("){>(", ") {
    >(
        ").
Definition c191 : case := ("){a{", ") {
    a {
        ").
Definition c192 : case := ("){ a", ") {
     a").
Definition c193 : case := (")}}>", ")
}
}>").
Definition c194 : case := (")}))", ")
}))").
Definition c195 : case := (")}>}", ")
}>
}").
Definition c196 : case := (")}, ", ")
},
 ").
Definition c197 : case := (")} ,", ")
} ,
").
Definition c198 : case := (")(}<", ")(
    
}<
    ").
Definition c199 : case := (")()(", ")()(
    ").
Definition c200 : case := (")(>{", ")(
    > {
        ").
Definition c201 : case := (")(,a", ")(
    ,
    a").
Definition c202 : case := (")( >", ")(
     >").
Definition c203 : case := ("))})", "))
})").
Definition c204 : case := (")))}", ")))
}").
Definition c205 : case := ("))< ", "))<
     ").
Definition c206 : case := (")),,", ")),
,
").
Definition c207 : case := (")) <", ")) <
    ").
Definition c208 : case := (")<}(", ")<
    
}(
    ").
Definition c209 : case := (")<){", ")<
    ) {
        ").
Definition c210 : case := (")<<a", ")<
    <
        a").
Definition c211 : case := (")<,>", ")<,
>").
Definition c212 : case := (")< )", ")<
     )").
Definition c213 : case := (")>}}", ")>
}
}").
Definition c214 : case := (")>( ", ")>(
     ").
Definition c215 : case := (")><,", ")><
    ,
    ").
Definition c216 : case := (")>,<", ")>,
<
    ").
Definition c217 : case := (")> (", ")> (
    ").
Definition c218 : case := ("),}{", "),

} {
").
Definition c219 : case := ("),(a", "),
(
    a").
Definition c220 : case := ("),<>", "),
<>").
Definition c221 : case := ("),,)", "),
,
)").
Definition c222 : case := ("), }", "),
 
}").
Definition c223 : case := (")a{ ", ")a {
     ").
Definition c224 : case := (")a(,", ")a(
    ,
    ").
Definition c225 : case := (")a<<", ")a<
    <
        ").
Definition c226 : case := (")a,(", ")a,
(
    ").
Definition c227 : case := (")a {", ")a  {
    ").
Definition c228 : case := (") {a", ")  {
    a").
Definition c229 : case := (") (>", ") (
    >").
Definition c230 : case := (") <)", ") <
    )").
Definition c231 : case := (") ,}", ") ,

}").
Definition c232 : case := (") a ", ") a ").
Definition c233 : case := ("<{{,", "<
     {
         {
            ,
            ").
Definition c234 : case := ("<{(<", "<
     {
        (
            <
                ").
Definition c235 : case := ("<{<(", "<
     {
        <
            (
                ").
Definition c236 : case := ("<{,{", "<
     {
        ,
         {
            ").
Definition c237 : case := ("<{aa", "<
     {
        aa").
Definition c238 : case := ("<}{>", "<
    
} {
    
>").
Definition c239 : case := ("<}()", "<
    
}()").
Definition c240 : case := ("<}<}", "<
    
}<
    
}").
Definition c241 : case := ("<}> ", "<
}> ").
Definition c242 : case := ("<}a,", "<
    
}a,
").
Definition c243 : case := ("<({<", "<
    (
         {
            <
                ").
Definition c244 : case := ("<(((", "<
    (
        (
            (
                ").
Definition c245 : case := ("<(<{", "<
    (
        <
             {
                ").
Definition c246 : case := ("<(>a", "<(
    >a").
Definition c247 : case := ("<(a>", "<(
    a>").
Definition c248 : case := ("<){)", "<
    ) {
        )").
Definition c249 : case := ("<)(}", "<
    )(
        
    }").
Definition c250 : case := ("<)) ", "<
    )) ").
Definition c251 : case := ("<)>,", "<)>,
").
Definition c252 : case := ("<)a<", "<
    )a<
        ").
Definition c253 : case := ("<<{(", "<
    <
         {
            (
                ").
Definition c254 : case := ("<<({", "<
    <
        (
             {
                ").
Definition c255 : case := ("<<)a", "<
    <
        )a").
Definition c256 : case := ("<<>>", "<<>>").
Definition c257 : case := ("<<a)", "<
    <
        a)").
Definition c258 : case := ("<>{}", "<> {
    
}").
Definition c259 : case := ("<>} ", "<>
} ").
Definition c260 : case := ("<>),", "<>),
").
Definition c261 : case := ("<>><", "<>><
    ").
Definition c262 : case := ("<>a(", "<>a(
    ").
Definition c263 : case := ("<,{{", "<
    ,
     {
         {
            ").
Definition c264 : case := ("<,}a", "<
    ,
    
}a").
Definition c265 : case := ("<,)>", "<,
)>").
Definition c266 : case := ("<,>)", "<,
>)").
Definition c267 : case := ("<,a}", "<
    ,
    a
}").
Definition c268 : case := ("<,  ", "<
    ,
      ").
Definition c269 : case := ("<a},", "<
    a
},
").
Definition c270 : case := ("<a)<", "<
    a)<
        ").
Definition c271 : case := ("<a>(", "<a>(
    ").
Definition c272 : case := ("<aa{", "<
    aa {
        ").
Definition c273 : case := ("<a a", "<
    a a").
Definition c274 : case := ("< }>", "< 
}>").
Definition c275 : case := ("< ))", "<
     ))").
Definition c276 : case := ("< >}", "< >
}").
Definition c277 : case := ("< , ", "<
     ,
     ").
Definition c278 : case := ("<  ,", "<
      ,
    ").
Definition c279 : case := (">{}<", "> {
    
}<
    ").
Definition c280 : case := (">{)(", "> {
    )(
        ").
Definition c281 : case := (">{>{", "> {
    > {
        ").
Definition c282 : case := (">{,a", "> {
    ,
    a").
Definition c283 : case := (">{ >", "> {
     >").
Definition c284 : case := (">}})", ">
}
})").
Definition c285 : case := (">})}", ">
})
}").
Definition c286 : case := (">}< ", ">
}<
 ").
Definition c287 : case := (">},,", ">
},
,
").
Definition c288 : case := (">} <", ">
} <
").
Definition c289 : case := (">(}(", ">(
    
}(
    ").
Definition c290 : case := (">(){", ">() {
    ").
Definition c291 : case := (">(<a", ">(
    <
        a").
Definition c292 : case := (">(,>", ">(
    ,
    >").
Definition c293 : case := (">( )", ">( )").
Definition c294 : case := (">)}}", ">)
}
}").
Definition c295 : case := (">)( ", ">)(
     ").
Definition c296 : case := (">)<,", ">)<
    ,
    ").
Definition c297 : case := (">),<", ">),
<
    ").
Definition c298 : case := (">) (", ">) (
    ").
Definition c299 : case := ("><}{", "><
    
} {
    ").
Definition c300 : case := ("><(a", "><
    (
        a").
Definition c301 : case := ("><<>", "><
    <>").
Definition c302 : case := ("><,)", "><
    ,
    )").
Definition c303 : case := (">< }", "><
     
}").
Definition c304 : case := (">>{ ", ">> {
     ").
Definition c305 : case := (">>(,", ">>(
    ,
    ").
Definition c306 : case := (">><<", ">><
    <
        ").
Definition c307 : case := (">>,(", ">>,
(
    ").
Definition c308 : case := (">> {", ">>  {
    ").
Definition c309 : case := (">,{a", ">,
 {
    a").
Definition c310 : case := (">,(>", ">,
(
    >").
Definition c311 : case := (">,<)", ">,
<
    )").
Definition c312 : case := (">,,}", ">,
,

}").
Definition c313 : case := (">,a ", ">,
a ").
Definition c314 : case := (">a{,", ">a {
    ,
    ").
Definition c315 : case := (">a(<", ">a(
    <
        ").
Definition c316 : case := (">a<(", ">a<
    (
        ").
Definition c317 : case := (">a,{", ">a,
 {
    ").
Definition c318 : case := (">aaa", ">aaa").
Definition c319 : case := ("> {>", ">  {
    >").
Definition c320 : case := ("> ()", "> ()").
Definition c321 : case := ("> <}", "> <
    
}").
Definition c322 : case := ("> > ", "> > ").
Definition c323 : case := ("> a,", "> a,
").
Definition c324 : case := (",{{<", ",
 {
     {
        <
            ").
Definition c325 : case := (",{((", ",
 {
    (
        (
            ").
Definition c326 : case := (",{<{", ",
 {
    <
         {
            ").
Definition c327 : case := (",{>a", ",
 {
    >a").
Definition c328 : case := (",{a>", ",
 {
    a>").
Definition c329 : case := (",}{)", ",

} {
)").
Definition c330 : case := (",}(}", ",

}(

}").
Definition c331 : case := (",}) ", ",

}) ").
Definition c332 : case := (",}>,", ",

}>,
").
Definition c333 : case := (",}a<", ",

}a<
").
Definition c334 : case := (",({(", ",
(
     {
        (
            ").
Definition c335 : case := (",(({", ",
(
    (
         {
            ").
Definition c336 : case := (",()a", ",
()a").
Definition c337 : case := (",(>>", ",
(
    >>").
Definition c338 : case := (",(a)", ",
(a)").
Definition c339 : case := (",){}", ",
) {
    
}").
Definition c340 : case := (",)} ", ",
)
} ").
Definition c341 : case := (",)),", ",
)),
").
Definition c342 : case := (",)><", ",
)><
    ").
Definition c343 : case := (",)a(", ",
)a(
    ").
Definition c344 : case := (",<{{", ",
<
     {
         {
            ").
Definition c345 : case := (",<}a", ",
<
    
}a").
Definition c346 : case := (",<)>", ",
<)>").
Definition c347 : case := (",<>)", ",
<>)").
Definition c348 : case := (",<a}", ",
<
    a
}").
Definition c349 : case := (",<  ", ",
<
      ").
Definition c350 : case := (",>},", ",
>
},
").
Definition c351 : case := (",>)<", ",
>)<
    ").
Definition c352 : case := (",>>(", ",
>>(
    ").
Definition c353 : case := (",>a{", ",
>a {
    ").
Definition c354 : case := (",> a", ",
> a").
Definition c355 : case := (",,}>", ",
,

}>").
Definition c356 : case := (",,))", ",
,
))").
Definition c357 : case := (",,>}", ",
,
>
}").
Definition c358 : case := (",,, ", ",
,
,
 ").
Definition c359 : case := (",, ,", ",
,
 ,
").
Definition c360 : case := (",a}<", ",
a
}<
").
Definition c361 : case := (",a)(", ",
a)(
    ").
Definition c362 : case := (",a>{", ",
a> {
    ").
Definition c363 : case := (",a,a", ",
a,
a").
Definition c364 : case := (",a >", ",
a >").
Definition c365 : case := (", })", ",
 
})").
Definition c366 : case := (", )}", ",
 )
}").
Definition c367 : case := (", < ", ",
 <
     ").
Definition c368 : case := (", ,,", ",
 ,
,
").
Definition c369 : case := (",  <", ",
  <
    ").
Definition c370 : case := ("a{}(", "a {
    
}(
    ").
Definition c371 : case := ("a{){", "a {
    ) {
        ").
Definition c372 : case := ("a{<a", "a {
    <
        a").
Definition c373 : case := ("a{,>", "a {
    ,
    >").
Definition c374 : case := ("a{ )", "a {
     )").
Definition c375 : case := ("a}}}", "a
}
}
}").
Definition c376 : case := ("a}( ", "a
}(
 ").
Definition c377 : case := ("a}<,", "a
}<
,
").
Definition c378 : case := ("a},<", "a
},
<
").
Definition c379 : case := ("a} (", "a
} (
").
Definition c380 : case := ("a(}{", "a(
    
} {
    ").
Definition c381 : case := ("a((a", "a(
    (
        a").
Definition c382 : case := ("a(<>", "a(
    <>").
Definition c383 : case := ("a(,)", "a(, )").
Definition c384 : case := ("a( }", "a(
     
}").
Definition c385 : case := ("a){ ", "a) {
     ").
Definition c386 : case := ("a)(,", "a)(
    ,
    ").
Definition c387 : case := ("a)<<", "a)<
    <
        ").
Definition c388 : case := ("a),(", "a),
(
    ").
Definition c389 : case := ("a) {", "a)  {
    ").
Definition c390 : case := ("a<{a", "a<
     {
        a").
Definition c391 : case := ("a<(>", "a<(
    >").
Definition c392 : case := ("a<<)", "a<
    <
        )").
Definition c393 : case := ("a<,}", "a<
    ,
    
}").
Definition c394 : case := ("a<a ", "a<
    a ").
Definition c395 : case := ("a>{,", "a> {
    ,
    ").
Definition c396 : case := ("a>(<", "a>(
    <
        ").
Definition c397 : case := ("a><(", "a><
    (
        ").
Definition c398 : case := ("a>,{", "a>,
 {
    ").
Definition c399 : case := ("a>aa", "a>aa").
Definition c400 : case := ("a,{>", "a,
 {
    >").
Definition c401 : case := ("a,()", "a,
()").
Definition c402 : case := ("a,<}", "a,
<
    
}").
Definition c403 : case := ("a,> ", "a,
> ").
Definition c404 : case := ("a,a,", "a,
a,
").
Definition c405 : case := ("aa{<", "aa {
    <
        ").
Definition c406 : case := ("aa((", "aa(
    (
        ").
Definition c407 : case := ("aa<{", "aa<
     {
        ").
Definition c408 : case := ("aa>a", "aa>a").
Definition c409 : case := ("aaa>", "aaa>").
Definition c410 : case := ("a {)", "a  {
    )").
Definition c411 : case := ("a (}", "a (
    
}").
Definition c412 : case := ("a ) ", "a ) ").
Definition c413 : case := ("a >,", "a >,
").
Definition c414 : case := ("a a<", "a a<
    ").
Definition c415 : case := (" {{(", "  {
     {
        (
            ").
Definition c416 : case := (" {({", "  {
    (
         {
            ").
Definition c417 : case := (" {)a", "  {
    )a").
Definition c418 : case := (" {>>", "  {
    >>").
Definition c419 : case := (" {a)", "  {
    a)").
Definition c420 : case := (" }{}", " 
} {

}").
Definition c421 : case := (" }} ", " 
}
} ").
Definition c422 : case := (" }),", " 
}),
").
Definition c423 : case := (" }><", " 
}><
").
Definition c424 : case := (" }a(", " 
}a(
").
Definition c425 : case := (" ({{", " (
     {
         {
            ").
Definition c426 : case := (" (}a", " (
    
}a").
Definition c427 : case := (" ()>", " ()>").
Definition c428 : case := (" (>)", " (>)").
Definition c429 : case := (" (a}", " (
    a
}").
Definition c430 : case := (" (  ", " (
      ").
Definition c431 : case := (" )},", " )
},
").
Definition c432 : case := (" ))<", " ))<
    ").
Definition c433 : case := (" )>(", " )>(
    ").
Definition c434 : case := (" )a{", " )a {
    ").
Definition c435 : case := (" ) a", " ) a").
Definition c436 : case := (" <}>", " <
}>").
Definition c437 : case := (" <))", " <
    ))").
Definition c438 : case := (" <>}", " <>
}").
Definition c439 : case := (" <, ", " <
    ,
     ").
Definition c440 : case := (" < ,", " <
     ,
    ").
Definition c441 : case := (" >}<", " >
}<
").
Definition c442 : case := (" >)(", " >)(
    ").
Definition c443 : case := (" >>{", " >> {
    ").
Definition c444 : case := (" >,a", " >,
a").
Definition c445 : case := (" > >", " > >").
Definition c446 : case := (" ,})", " ,

})").
Definition c447 : case := (" ,)}", " ,
)
}").
Definition c448 : case := (" ,< ", " ,
<
     ").
Definition c449 : case := (" ,,,", " ,
,
,
").
Definition c450 : case := (" , <", " ,
 <
    ").
Definition c451 : case := (" a}(", " a
}(
").
Definition c452 : case := (" a){", " a) {
    ").
Definition c453 : case := (" a<a", " a<
    a").
Definition c454 : case := (" a,>", " a,
>").
Definition c455 : case := (" a )", " a )").
Definition c456 : case := ("  }}", "  
}
}").
Definition c457 : case := ("  ( ", "  (
     ").
Definition c458 : case := ("  <,", "  <
    ,
    ").
Definition c459 : case := ("  ,<", "  ,
<
    ").
Definition c460 : case := ("   (", "   (
    ").
Definition c461 : case := ("(<b,bé,éa,b,,,,a,éé,,éééa,b,é,>", "(
    <b,
    bé,
    éa,
    b,
    ,
    ,
    ,
    a,
    éé,
    ,
    éééa,
    b,
    é,
    >").
Definition c462 : case := ("x{<<a>a,,ébéaa,,a,éééaaébbbbé,bab,baabab,b,bab,>,a", "x {
    <
        <a>a,
        ,
        ébéaa,
        ,
        a,
        éééaaébbbbé,
        bab,
        baabab,
        b,
        bab,
        
    >,
    a").
Definition c463 : case := ("<<a,é,babéébbébbabé,aa,,béé,éééé,ééa>,a", "<
    <
        a,
        é,
        babéébbébbabé,
        aa,
        ,
        béé,
        éééé,
        ééa
    >,
    a").
Definition c464 : case := ("a(a,a,aéé,bbaéb,b,{aaéa,éb)>", "a(
    a,
    a,
    aéé,
    bbaéb,
    b,
     {
        aaéa,
        éb
    )>").
Definition c465 : case := ("x{<,a,ab,bbba,bbéaaaééa,ééébaa,,,aaéaba,,,b>", "x {
    <
        ,
        a,
        ab,
        bbba,
        bbéaaaééa,
        ééébaa,
        ,
        ,
        aaéaba,
        ,
        ,
        b
    >").
Definition c466 : case := ("b;[a;][bx:a,88][a,b[[,<<;;a];aab,8:]8;;[;,{[;[b[b::]]:x,[8ba;:;[;[xa}>,:[x[::a8,{<a;[x:x,:[:b:a8,(<>,;;b:,{},<{[:[aa8,u,u,u},]b][[ab,<];[:xbxx88,u,8b8][:x,a;:;;x[8x>,bx>),<{<u,b[]>,{}}>,x:xab8>,{{88[xx8;,;[ab:,{},{([b8a;[:8[xxx)}}}}>", "b;[a;][bx:a,
88][a,
b[[,
<
    <
        ;;a];aab,
        8:]8;;[;,
         {
            [;[b[b::]]:x,
            [8ba;:;[;[xa
        }
    >,
    :[x[::a8,
     {
        <
            a;[x:x,
            :[:b:a8,
            (
                <>,
                ;;b:,
                 {
                    
                },
                <
                     {
                        [:[aa8,
                        u,
                        u,
                        u
                    },
                    ]b][[ab,
                    <];[:xbxx88,
                    u,
                    8b8][:x,
                    a;:;;x[8x>,
                    bx
                >
            ),
            <
                 {
                    <u,
                    b[]>,
                     {
                        
                    }
                }
            >,
            x:xab8
        >,
         {
             {
                88[xx8;,
                ;[ab:,
                 {
                    
                },
                 {
                    ([b8a;[:8[xxx)
                }
            }
        }
    }
>").
Definition c467 : case := ("{8;[b;x:x;aa[,<(<>,b8]8x,b]b;xa8:8]:,{(<8a[b8,:x][],;;:b;aa8b,abab[b:a>,x),<a888x:]xxa,{:}>,{}}),(),([:[b]xaa]:[[,[;[x:ax]:ba:,(;;axx8x[x,(]b:a88b,[88]x[[[8[:x)),[a]a),;b8[8]>,([:b8[:][:b];,:;[]]x]:;[,(x;:))}", " {
    8;[b;x:x;aa[,
    <
        (
            <>,
            b8]8x,
            b]b;xa8:8]:,
             {
                (
                    <8a[b8,
                    :x][],
                    ;;:b;aa8b,
                    abab[b:a>,
                    x
                ),
                <
                    a888x:]xxa,
                     {
                        :
                    }
                >,
                 {
                    
                }
            }
        ),
        (),
        (
            [:[b]xaa]:[[,
            [;[x:ax]:ba:,
            (
                ;;axx8x[x,
                (]b:a88b, [88]x[[[8[:x)
            ),
            [a]a
        ),
        ;b8[8]
    >,
    ([:b8[:][:b];, :;[]]x]:;[, (x;:))
}").
Definition c468 : case := ("<{<b,b[;b[]]8a,<<(u,u,u),<u,u,a;]x[b][]b>,a8:8]b,<;b[8x[,:[xx88x>>,(][a][b:;::[;)>>}>", "<
     {
        <
            b,
            b[;b[]]8a,
            <
                <
                    (u, u, u),
                    <u,
                    u,
                    a;]x[b][]b>,
                    a8:8]b,
                    <;b[8x[,
                    :[xx88x>
                >,
                (][a][b:;::[;)
            >
        >
    }
>").
Definition c469 : case := ("<[,b]a,[xx,{8[b[x;]b},{}>", "<
    [,
    b]a,
    [xx,
     {
        8[b[x;]b
    },
     {
        
    }
>").
Definition c470 : case := ("((;8x:;]a;]ax]),{(ba[:xx,{<b:a;:[[:;a,[[[:][:x[,[[:b:>,xb;x];})},(((({8b8[;b},<u,[b;[;a[b,u,b>),{<u,bb8a,[:;;:,;:8;8xb[>,[a];:8a},8b][][))))", "(
    (;8x:;]a;]ax]),
     {
        (
            ba[:xx,
             {
                <b:a;:[[:;a,
                [[[:][:x[,
                [[:b:>,
                xb;x];
            }
        )
    },
    (
        (
            (
                (
                     {
                        8b8[;b
                    },
                    <u,
                    [b;[;a[b,
                    u,
                    b>
                ),
                 {
                    <u,
                    bb8a,
                    [:;;:,
                    ;:8;8xb[>,
                    [a];:8a
                },
                8b][][
            )
        )
    )
)").
Definition c471 : case := ("{}", " {
    
}").
Definition c472 : case := ("{:xa;[]b8a];},(),8[a8;][b8;],<>,8:x;8x[8b]][", " {
    :xa;[]b8a];
},
(),
8[a8;][b8;],
<>,
8:x;8x[8b]][").
Definition c473 : case := ("<<:xx:[aa[[b,({<<u,u,u,x:8a::b:>,b8[:]:;::>})>>", "<
    <
        :xx:[aa[[b,
        (
             {
                <<u,
                u,
                u,
                x:8a::b:>,
                b8[:]:;::>
            }
        )
    >
>").
Definition c474 : case := ("bxbaxab:x:", "bxbaxab:x:").
Definition c475 : case := ("{]b,({<({u}),<]8ax>,<{u,u,u,xa[[:},(b[,u),<u>>>,({},({u,u,u,[8:;;:,u},:a:]]abx),a;:xa8b;a),({8,xba:,ba:ax8a,(u,u,u),;a[8];a}),a::,{;b[;][a,<>,<>,{}}},<x]x[8]a8[b,(),;8x:>,<>)}", " {
    ]b,
    (
         {
            <
                (
                     {
                        u
                    }
                ),
                <]8ax>,
                <
                     {
                        u,
                        u,
                        u,
                        xa[[:
                    },
                    (b[, u),
                    <u>
                >
            >,
            (
                 {
                    
                },
                (
                     {
                        u,
                        u,
                        u,
                        [8:;;:,
                        u
                    },
                    :a:]]abx
                ),
                a;:xa8b;a
            ),
            (
                 {
                    8,
                    xba:,
                    ba:ax8a,
                    (u, u, u),
                    ;a[8];a
                }
            ),
            a::,
             {
                ;b[;][a,
                <>,
                <>,
                 {
                    
                }
            }
        },
        <x]x[8]a8[b,
        (),
        ;8x:>,
        <>
    )
}").
Definition c476 : case := ("]8;x;x[a;;,{:]bx[:x:8],8];;[;;;;;8},a:8;],<]a;[[8x;>,()", "]8;x;x[a;;,
 {
    :]bx[:x:8],
    8];;[;;;;;8
},
a:8;],
<]a;[[8x;>,
()").
Definition c477 : case := ("(<(;a:a[x:::b,x][:a,(][a,xa]x88b]xx[,((:]a8,b8[:ba))))>)", "(
    <
        (
            ;a:a[x:::b,
            x][:a,
            (][a, xa]x88b]xx[, ((:]a8, b8[:ba)))
        )
    >
)").
Definition c478 : case := ("(8,(:][a;[x:a],(),(<<{u},;x:bbx]:[8>,{{u,u,u,u},;:;,{b:b;8b8]b:[}}>)))", "(
    8,
    (
        :][a;[x:a],
        (),
        (
            <
                <
                     {
                        u
                    },
                    ;x:bbx]:[8
                >,
                 {
                     {
                        u,
                        u,
                        u,
                        u
                    },
                    ;:;,
                     {
                        b:b;8b8]b:[
                    }
                }
            >
        )
    )
)").
Definition c479 : case := ("88:ba;a]8][,ax8:8;:8x:", "88:ba;a]8][,
ax8:8;:8x:").
Definition c480 : case := (":;a]b;aa,;]x[a:][[;],(x:x,({},(b[8]aaba:,(8];]b;a:ax;,<>,(:),<;[,{u,u,u,88]},{u,8a,u,u},[[]:b;,{[,u,b[][[:}>,a]8b::[;[]x),:;::a]x),:axxa),{<8x8x]:8:],88:aba]aba:>})", ":;a]b;aa,
;]x[a:][[;],
(
    x:x,
    (
         {
            
        },
        (
            b[8]aaba:,
            (
                8];]b;a:ax;,
                <>,
                (:),
                <
                    ;[,
                     {
                        u,
                        u,
                        u,
                        88]
                    },
                     {
                        u,
                        8a,
                        u,
                        u
                    },
                    [[]:b;,
                     {
                        [,
                        u,
                        b[][[:
                    }
                >,
                a]8b::[;[]x
            ),
            :;::a]x
        ),
        :axxa
    ),
     {
        <8x8x]:8:],
        88:aba]aba:>
    }
)").
Definition c481 : case := ("{{b8x]a88;]8],x;:ab[][x,(<<8abxa8,(::a8a;bb],u),xa]8:ax8xb,([8;[:a:::,u,b;88,u),<8:bbb]8a,;[[x]];8:bb>>,b:8],({u})>,(<bb:8b,xx:a];x8],{},<u,u,8ab,[88b[8:]a>>),(((u),<u,b:]x[,;a8],:;[:8a>),(<u,u>,{;[xb]]8b})))}}", " {
     {
        b8x]a88;]8],
        x;:ab[][x,
        (
            <
                <
                    8abxa8,
                    (::a8a;bb], u),
                    xa]8:ax8xb,
                    ([8;[:a:::, u, b;88, u),
                    <8:bbb]8a,
                    ;[[x]];8:bb>
                >,
                b:8],
                (
                     {
                        u
                    }
                )
            >,
            (
                <
                    bb:8b,
                    xx:a];x8],
                     {
                        
                    },
                    <u,
                    u,
                    8ab,
                    [88b[8:]a>
                >
            ),
            (
                ((u), <u, b:]x[, ;a8], :;[:8a>),
                (
                    <u,
                    u>,
                     {
                        ;[xb]]8b
                    }
                )
            )
        )
    }
}").
Definition c482 : case := ("],x88x", "],
x88x").
Definition c483 : case := ("{a:]xx[888}", " {
    a:]xx[888
}").
Definition c484 : case := ("<b];axa;:>,b][:8[a[;,a;:8b:8,<];b],<(<((u,u,u,[8,]:[[b:ab8]b),(u,u,u),:[]:x]])>,<<b;,(u,u,b[a];:,u,u),{u,u,u,u,u}>,8b]:8b,<(u)>>)>>", "<b];axa;:>,
b][:8[a[;,
a;:8b:8,
<
    ];b],
    <
        (
            <
                (
                    (u, u, u, [8, ]:[[b:ab8]b),
                    (u, u, u),
                    :[]:x]]
                )
            >,
            <
                <
                    b;,
                    (u, u, b[a];:, u, u),
                     {
                        u,
                        u,
                        u,
                        u,
                        u
                    }
                >,
                8b]:8b,
                <(u)>
            >
        )
    >
>").
Definition c485 : case := (":a[a:b,{{},{(<b[a;[[[;x8b8,{(a88:;:ax;[88,ab),{[abx}},xaxb:;]8,8bx,((u,u,u,ab:8:;8),88aa;xa,<;[]:ab,u,u,;:b,u>,[;8x;,:x:)>),()}}", ":a[a:b,
 {
     {
        
    },
     {
        (
            <
                b[a;[[[;x8b8,
                 {
                    (a88:;:ax;[88, ab),
                     {
                        [abx
                    }
                },
                xaxb:;]8,
                8bx,
                (
                    (u, u, u, ab:8:;8),
                    88aa;xa,
                    <;[]:ab,
                    u,
                    u,
                    ;:b,
                    u>,
                    [;8x;,
                    :x:
                )
            >
        ),
        ()
    }
}").
Definition c486 : case := ("<<[8x[;8:;,{x:aaa,{(<>,a[[,<u,u,::8xa]];,u,u>),(b8b[,[[x:::[8]x,xxxa8[bbb:8,{})}}>>", "<
    <
        [8x[;8:;,
         {
            x:aaa,
             {
                (<>, a[[, <u, u, ::8xa]];, u, u>),
                (
                    b8b[,
                    [[x:::[8]x,
                    xxxa8[bbb:8,
                     {
                        
                    }
                )
            }
        }
    >
>").
Definition c487 : case := ("<;[]b],{[8:[x;[,(),<{;bx:;b;a}>,8,{xxx]8a8b:}}>", "<
    ;[]b],
     {
        [8:[x;[,
        (),
        <
             {
                ;bx:;b;a
            }
        >,
        8,
         {
            xxx]8a8b:
        }
    }
>").
Definition c488 : case := (":;:;bax]];,{;[8b:}", ":;:;bax]];,
 {
    ;[8b:
}").
Definition c489 : case := ("]:;x;;;;[b", "]:;x;;;;[b").
Definition c490 : case := ("<>,{<<]b[,({<u,b;;b:88;a>,(u),(u,u)}),<>,[[],{}>,(<<>,]x;a8aa8,{;x[[]ba],8;x;bx[bb,x8[,<u,:[:[:;xa:xb[,u,u>,bxb;bb;;;a},<{8bax8:;,[x],u,baa:a[]}>>)>}", "<>,
 {
    <
        <
            ]b[,
            (
                 {
                    <u,
                    b;;b:88;a>,
                    (u),
                    (u, u)
                }
            ),
            <>,
            [[],
             {
                
            }
        >,
        (
            <
                <>,
                ]x;a8aa8,
                 {
                    ;x[[]ba],
                    8;x;bx[bb,
                    x8[,
                    <u,
                    :[:[:;xa:xb[,
                    u,
                    u>,
                    bxb;bb;;;a
                },
                <
                     {
                        8bax8:;,
                        [x],
                        u,
                        baa:a[]
                    }
                >
            >
        )
    >
}").
Definition c491 : case := (";,)é[{}>>}<
[€(€>;{]€a	> €𝄞[	,({€é𝄞])
};	a é)a:
)]]],a𝄞,:)ZZ <€Z𝄞:,[𝄞€;]<<<
),]
],{[<<,),é)𝄞](>]𝄞a	:	{é<]𝄞:){)Z

[é]]€(),[:€aZ[éZ]€€b{(><𝄞)<𝄞a	):€)aé;(€é Z;}[:b,€€€ [: {>}; {:ZéZ>>	𝄞	>b]
)€€aé[;[][bb,[<>
>(	é <{,
,]b[€;	]
é{ {}[>	a;a[,€𝄞b€𝄞{<", ";,
)é[ {
    
}>>
}<
[€(
€>; {
    ]€a	> €𝄞[	,
    (
         {
            €é𝄞]
        )

    };	a é
)a:
)]]],
a𝄞,
:)ZZ <
    €Z𝄞:,
    [𝄞€;]<
        <
            <
                
),
                ]
],
                 {
                    [<
                        <,
                        ),
                        é)𝄞](
                            >]𝄞a	:	 {
                                é<
                                    ]𝄞:
                                ) {
                                    )Z

[é]]€(),
                                    [:€aZ[éZ]€€b {
                                        (
                                    ><
                                        𝄞)<
                                            𝄞a	):€)aé;(
                                                €é Z;
                                            }[:b,
                                            €€€ [:  {
                                                
                                            >
                                        };  {
                                            :ZéZ
                                        >
                                    >	𝄞	
                                >b]

                            )€€aé[;[][bb,
                            [<>

                        >(
                            	é <
                                 {
                                    ,
                                    
,
                                    ]b[€;	]
é {
                                          {
                                            
                                        }[
                                    >	a;a[,
                                    €𝄞b€𝄞 {
                                        <
                                            ").
Definition c492 : case := ("{])€	{€]};Z€a;𝄞}]<],b[>
(Za{( 𝄞é[
 é)}{𝄞€(<é]é é
:[}a𝄞[:a> ,
;}
)𝄞:<b<}a}(€)[a€€<{){<é
𝄞[	:€[éb	[€ ) ,,b;,Z )}

,<<( >€𝄞[ [	
((;;,€{é[(;b:
;𝄞](aé
b}a]{[[a𝄞]{]b{ZbZ	,:>b]]>>[;b;€>(<
,>𝄞€		€é}[;:;<é<)]<;;;	}(:((	;)€a)	 €[a	𝄞é	a[:a,,€><<{ ]]b𝄞 {;>:a;b}, [	{{[<{;(𝄞( ,>](,
 {{Z{:<;]", " {
    ])€	 {
        €]
    };Z€a;𝄞
}]<],
b[>
(
    Za {
        ( 𝄞é[
 é)
    } {
        𝄞€(<é]é é
:[
    }a𝄞[:a> , 
;
}
)𝄞:<
    b<
        
    }a
}(€)[a€€<
     {
        
    ) {
        <
            é
𝄞[	:€[éb	[€ ) ,
            ,
            b;,
            Z )
        }

,
        <
            <(
                 >€𝄞[ [	
(
                    (
                        ;;,
                        € {
                            é[(
                                ;b:
;𝄞](
                                    aé
b
                                }a] {
                                    [[a𝄞] {
                                        ]b {
                                            ZbZ	,
                                            :
                                        >b]]
                                    >
                                >[;b;€
                            >(<
, >𝄞€		€é
                        }[;:;<
                            é<
                                )]<;;;	
                            }(
                                :((	;)€a)	 €[a	𝄞é	a[:a,
                                ,
                                €><
                                    <
                                         {
                                             ]]b𝄞  {
                                                ;
                                            >:a;b
                                        },
                                         [	 {
                                             {
                                                [<
                                                     {
                                                        ;(
                                                            𝄞(
                                                                 ,
                                                                
                                                            >](
                                                                ,
                                                                
  {
                                                                     {
                                                                        Z {
                                                                            :<
                                                                                ;]").
Definition c493 : case := ("<],
	}a€(Z	,,{€Z{:]
:;a{é }]	ba𝄞
>𝄞a>𝄞é>𝄞:[ ,:ba€b{b<)}{a éa€)€	:>b€<b>é	
> >(:b}}{,[<:", "<
    ],
    
	
}a€(
    Z	,
    ,
     {
        €Z {
            :]
:;a {
                é 
            }]	ba𝄞

        >𝄞a>𝄞é>𝄞:[ ,
        :ba€b {
            b<
                
            )
        } {
            a éa€)€	:
        >b€<b>é	
> >(
            :b
        }
    } {
        ,
        [<
            :").
Definition c494 : case := (">𝄞{ ,][	:		a;;𝄞< (a(	{aa𝄞{é]a, <
:::€𝄞(é	{[}a
);	𝄞(b
(}{{{b>𝄞Z€a(Z	𝄞b	<Z,b]{a a<]]
é(<b𝄞}{<[(b{{ ,<	(
:<>{,>€(:{<[;)a} >):<b", ">𝄞 {
     ,
    ][	:		a;;𝄞<
         (
            a(
                	 {
                    aa𝄞 {
                        é]a,
                         <
                            
:::€𝄞(
                                é	 {
                                    [
                                }a

                            );	𝄞(
                                b
(
                                    
                                } {
                                     {
                                         {
                                            b
                                        >𝄞Z€a(
                                            Z	𝄞b	<
                                                Z,
                                                b] {
                                                    a a<
                                                        ]]
é(
                                                            <
                                                                b𝄞
                                                            } {
                                                                <
                                                                    [(
                                                                        b {
                                                                             {
                                                                                 ,
                                                                                <
                                                                                    	(
                                                                                        
:<> {
                                                                                            ,
                                                                                            
                                                                                        >€(
                                                                                            : {
                                                                                                <[;
                                                                                            )a
                                                                                        } >
                                                                                    ):<
                                                                                        b").
Definition c495 : case := ("aZ<b >[)b	, ;[ 	)𝄞	€€}Zb;
;𝄞b:
(,,[ : aba::;,}]é(a𝄞é€a,) Z€[,:)	 
𝄞	[a€} Z	aé]  é	{  ,a[é{
[Z< 𝄞;(€}) )Z{éZ)bé)b,<𝄞a𝄞 Z 
[a,<{>[{€{[éb;,; ", "aZ<b >[)b	,
 ;[ 	)𝄞	€€
}Zb;
;𝄞b:
(, , [ : aba::;, 
}]é(a𝄞é€a, ) Z€[, :)	 
𝄞	[a€
} Z	aé]  é	 {
  ,
a[é {

[Z<
 𝄞;(€
}) )Z {
éZ)bé)b,
<
    𝄞a𝄞 Z 
[a,
    <
         {
            
        >[ {
            € {
                [éb;,
                ; ").
Definition c496 : case := ("𝄞

𝄞]a𝄞		b[>,}aéZ>)Z𝄞,a<>		,€
;é€Z:>ab€a},Z,€Z},b ,b)
}:𝄞€][<[€}]
}:>,; [
](", "𝄞

𝄞]a𝄞		b[>,

}aéZ>)Z𝄞,
a<>		,
€
;é€Z:>ab€a
},
Z,
€Z
},
b ,
b)

}:𝄞€][<[€
}]

}:>,
; [
](
").
Definition c497 : case := (" é 
,éb:)>(é]Z b[a}a	<[	,{):b(]€}é(,b{:Z ;{𝄞 €>>]é):,,><],;éb>𝄞	{é}{é𝄞[a ,a€ ab	;Z>ab[b𝄞é[,𝄞]],);
𝄞>)𝄞
é
>a,,(, {€é
]é:>)>
}éé}	a:,é𝄞 
€;	,:((,] (]}Z,Z{;,)€a>b[𝄞[ ( [(b;𝄞<<bZb[b<:𝄞a)>,
,Z:<()<Z	ba𝄞)			, >;}:Z]a({bbZ	:]<,;<Z
>a	)𝄞	 
][ 	:]é	𝄞}", " é 
,
éb:)>(
    é]Z b[a
}a	<
    [	,
     {
        
    ):b(
        ]€
    }é(
        ,
        b {
            :Z ; {
                𝄞 €
            >>]é
        ):,
        ,
        ><],
        ;éb>𝄞	 {
            é
        } {
            é𝄞[a ,
            a€ ab	;Z>ab[b𝄞é[,
            𝄞]],
            
        );
𝄞>)𝄞
é
>a,
        ,
        (
            ,
              {
                €é
]é:>
            )>

        }éé
    }	a:,
    é𝄞 
€;	,
    :(
        (
            ,
            ] (
                ]
            }Z,
            Z {
                ;,
                
            )€a>b[𝄞[ (
                 [(b;𝄞<
                    <
                        bZb[b<:𝄞a)>,
                        
,
                        Z:<
                            ()<Z	ba𝄞
                        )			,
                         >;
                    }:Z]a(
                         {
                            bbZ	:]<
                                ,
                                ;<Z
>a	
                            )𝄞	 
][ 	:]é	𝄞
                        }").
Definition c498 : case := (":𝄞a€: 𝄞(é} 	a)}b}bb 	:b€é ]]]({({Z€Z}(<b<(,{{(a𝄞Z	<aé][] <	<ébbZ]}b>𝄞>;	
[([ ]
;b{	ab{", ":𝄞a€: 𝄞(é
} 	a)
}b
}bb 	:b€é ]]](
 {
(
 {
    Z€Z
}(
    <
        b<
            (
                ,
                 {
                     {
                        (
                            a𝄞Z	<
                                aé][] <	<ébbZ]
                            }b>𝄞>;	
[(
                                [ ]
;b {
                                    	ab {
                                        ").
Definition c499 : case := (",>𝄞(é{:𝄞) éZ{€a𝄞)
>}}a[;];};:
a	", ",
>𝄞(
    é {
        :𝄞
    ) éZ {
        €a𝄞)
>
    }
}a[;];
};:
a	").
Definition c500 : case := ("[𝄞<Zaa{:]é<é{€]ZZ>)< ;é
aéb[Z,)b<	)(é𝄞}b;	(b>
€	;{,}
<
}€bZ:€
:éé:(Z€<;b€}a,€b>))}}	Za](𝄞]<(", "[𝄞<
    Zaa {
        :]é<
            é {
                €]ZZ
            >)<
                 ;é
aéb[Z,
                )b<	)(
                    é𝄞
                }b;	(
                    b>
€	; {
                        ,
                        
                    }
<
                        

                    }€bZ:€
:éé:(Z€<;b€
                }a, €b>)
            )
        }
    }	Za](
        𝄞]<
            (
                ").
Definition c501 : case := (",)𝄞[a]𝄞}
€€<€()	𝄞;,}𝄞Z,;]a[ {:Z;aa
a𝄞<€éa	a:})[b	[{):<);,a:} é] <);{{	;[,>b [< )]
};]}	>€éa[]éb)𝄞)a}:𝄞€>{€;)
}:é<],<{b]>(}}]	 [a ))ba{b{a	>}> :Z
é]}
é}a{:𝄞	{ 	𝄞>éb€Z: ]
}b €:Z(( a>b]{}a€ba(:;:
Z[>aé]{<{;,)€
},[é)Za
<  a	, 	;  a
>{ b,<
}{[ {é𝄞,Zb ", ",
)𝄞[a]𝄞
}
€€<
€()	𝄞;,

}𝄞Z,
;]a[  {
:Z;aa
a𝄞<
    €éa	a:
})[b	[ {
    ):<
        );,
        a:
    } é] <
        ); {
             {
                	;[,
                
            >b [< )]

        };]
    }	>€éa[]éb)𝄞)a
}:𝄞€
> {
€;)

}:é<
],
<
     {
        b]
    >(
}
}]	 [a ))ba {
b {
    a	
>
}
> :Z
é]
}
é
}a {
:𝄞	 {
 	𝄞
>éb€Z: ]

}b €:Z(
(
 a>b] {

}a€ba(
:;:
Z[>aé] {
<
     {
        ;,
        
    )€

},
[é
)Za
<  a	,
 	;  a
> {
 b,
<
    

} {
    [  {
        é𝄞,
        Zb ").
Definition c502 : case := ("𝄞: }é],}é𝄞	
<)::a)b€),:[a}}:<]>", "𝄞: 
}é],

}é𝄞	
<
)::a)b€),
:[a
}
}:<]>").
Definition c503 : case := (":éa𝄞[,<€é	é>ba;(;}Z
{a}]<{𝄞<	 < [(>}ZZ𝄞{é	) }:a	a€b]{>, <€é>
{bb}€}𝄞Z[a;a
𝄞(𝄞, >é[[]<€", ":éa𝄞[,
<€é	é>ba;(
    ;
}Z
 {
    a
}]<
     {
        𝄞<
            	 < [(
                >
            }ZZ𝄞 {
                é	
            ) 
        }:a	a€b] {
            
        >,
         <€é>
 {
            bb
        }€
    }𝄞Z[a;a
𝄞(
        𝄞,
         
    >é[[]<
        €").
Definition c504 : case := ("éé(,(,]<],(}}>[ b]b<]b>é,:< ;
 é[}{Z<Za}Z)}[:[ ,b}€:Z:aZa€b
[[} :
:[[)é]	,:(é<< ],)<{)(€>", "éé(
    ,
    (
        ,
        ]<],
        (
            
        }
    }>[ b]b<]b>é,
    :<
         ;
 é[
    } {
        Z<
            Za
        }Z
    )
}[:[ ,
b
}€:Z:aZa€b
[[
} :
:[[
)é]	,
:(é<
<
 ], )<
 {
    
)(
    €
>").
Definition c505 : case := ("𝄞€Z€ }),a}Z𝄞a€<	é	)𝄞Za{)

(a€](,( Z>{< :}(a{a	𝄞()€:]𝄞
>>,[
;)]Z}[{€;	[𝄞];
a b,;):[)(<ab>é[:", "𝄞€Z€ 
}),
a
}Z𝄞a€<
	é	)𝄞Za {
)

(
    a€](
        ,
        (
             Z
        > {
            <
                 :
            }(
                a {
                    a	𝄞()€:]𝄞

                >>,
                [
;
            )]Z
        }[ {
            €;	[𝄞];
a b,
            ;
        ):[
    )(
        <ab>é[:").
Definition c506 : case := ("<b;] >	[<((;]𝄞€b, é{,€ZZ[<)𝄞 {a€,	b;é ;éb(:>€> )Z>	}
<𝄞{}é{,{é<	)])
])€{€{Z](>{;[b,;{é),> ,;é		>(é	]<)([€a€
<a];Z,] ((€(];
Za[[;a }({]b<)
b	,Z)é€Z(),		{ZZ ){Z[
  é;𝄞
,é} }}é]}<𝄞b;, 

][é 
)>(é€a€][[;(,((]a(,)a;b
a[€ [𝄞}€ {aZ(;", "<b;] >	[<
    (
        (
            ;]𝄞€b,
             é {
                ,
                €ZZ[<
                    
                )𝄞  {
                    a€,
                    	b;é ;éb(:
                >€
            > )Z>	
        }
<
            𝄞 {
                
            }é {
                ,
                 {
                    é<
                        	
                    )])
])€ {
                        € {
                            Z](
                                
                            > {
                                ;[b,
                                ; {
                                    é
                                ),
                                
                            > ,
                            ;é		>(é	]<
                                )(
                                    [€a€
<
                                        a];Z,
                                        ] (
                                            (
                                                €(
                                                    ];
Za[[;a 
                                                }(
                                                     {
                                                        ]b<
                                                            
                                                        )
b	,
                                                        Z
                                                    )é€Z(),
                                                    		 {
                                                        ZZ 
                                                    ) {
                                                        Z[
  é;𝄞
,
                                                        é
                                                    } 
                                                }
                                            }é]
                                        }<𝄞b;,
                                         

][é 

                                    )>(
                                        é€a€][[;(
                                            ,
                                            (
                                                (
                                                    ]a(, )a;b
a[€ [𝄞
                                                }€  {
                                                    aZ(
                                                        ;").
Definition c507 : case := (",:€[(€]	;<
	{€b{[,Z[)b>[𝄞{€
{𝄞[{}>:Z;},
{a)<€ <b>:}(}{€ ,{(){	}}(𝄞	
]{a: }(€
é
	€	bé{
 €a[[ 𝄞𝄞])	é
}𝄞ba]a ()
{	Zéa[;é)a;𝄞é[( > Z	{	€, >𝄞)€)bé:		
;:(é{) >é{}éé]
;
) 	Zb[)é{€< 	€	Z)€𝄞<;]a]<,{:[}(€
<
<:;a{;€>
	)	;  ;{: €[", ",
:€[(
    €]	;<
        
	 {
            €b {
                [,
                Z[
            )b
        >[𝄞 {
            €
 {
                𝄞[ {
                    
                }>:Z;
            },
            
 {
                a)<
                    € <b>:
                }(
                    
                } {
                    € ,
                     {
                        () {
                            	
                        }
                    }(
                        𝄞	
] {
                            a: 
                        }(
                            €
é
	€	bé {
                                
 €a[[ 𝄞𝄞]
                            )	é

                        }𝄞ba]a ()
 {
                            	Zéa[;é
                        )a;𝄞é[(
                             
                        > Z	 {
                            	€,
                             >𝄞
                        )€
                    )bé:		
;:(
                        é {
                            
                        ) >é {
                            
                        }éé]
;
) 	Zb[)é {
                            €<
                                 	€	Z)€𝄞<
                                    ;]a]<
                                        ,
                                         {
                                            :[
                                        }(
                                            €
<
                                                
<
                                                    :;a {
                                                        ;€
                                                    >
	
                                                )	;  ; {
                                                    : €[").
Definition c508 : case := ("}<),[)}[]	Z)𝄞(  é
:<(b é𝄞é)Z:; [€:}((<€ b{€(	é ;,𝄞Z{}>;{€	é}a(€a>,[aa<>{;	){(:€ {)( Z:
[𝄞([€<€>]é a	𝄞
	 𝄞{)𝄞<[:é{:)a)é,€)€
<€	)ba{<€a]]𝄞){ 	bZZZ><{{ Z€
< €bb Z)𝄞;;:]
[>>Z};,[€€(b,(;b€{(é[b<é𝄞:(:a𝄞a [;
,b𝄞;]{éé][,𝄞	] {(}<€]{a>a],)é	a)€<𝄞€	)Z€ 
", "
}<
),
[)
}[]	Z)𝄞(
  é
:<
    (b é𝄞é)Z:; [€:
}(
    (
        <
            € b {
                €(
                    	é ;,
                    𝄞Z {
                        
                    }
                >; {
                    €	é
                }a(
                    €a
                >,
                [aa<> {
                    ;	
                ) {
                    (
                        :€  {
                            
                        )(
                             Z:
[𝄞(
                                [€<€>]é a	𝄞
	 𝄞 {
                                    
                                )𝄞<
                                    [:é {
                                        :
                                    )a
                                )é,
                                €
                            )€
<
                                €	
                            )ba {
                                <
                                    €a]]𝄞
                                ) {
                                     	bZZZ
                                ><
                                     {
                                         {
                                             Z€
< €bb Z)𝄞;;:]
[>
                                        >Z
                                    };,
                                    [€€(
                                        b,
                                        (
                                            ;b€ {
                                                (
                                                    é[b<
                                                        é𝄞:(
                                                            :a𝄞a [;
,
                                                            b𝄞;] {
                                                                éé][,
                                                                𝄞	]  {
                                                                    (
                                                                        
                                                                    }<
                                                                        €] {
                                                                            a
                                                                        >a],
                                                                        
                                                                    )é	a
                                                                )€<
                                                                    𝄞€	
                                                                )Z€ 
").
Definition c509 : case := ("
{a}[a	 ,);[{<[>{]	 €,)Z𝄞[(éb;[<(a𝄞Z>b<<})éa[𝄞:,
(é])
é((aa(:Z[[[a(é(},)[𝄞	;};,€{€[{)}(,)b€]  
[𝄞:)<é;{;}é€a[€b 
	)€Z:()€[}:[é >< Z((])(a€		<)	[b}>)[Zé
{<,é𝄞(Z;]{aZ𝄞  }[ 
𝄞 aa>;[ ]Z}	>
 ,],]b
𝄞:é]𝄞Z{;:a<{[]}}{[€
é {Zéb
<)Z]	[", "
 {
    a
}[a	 ,
);[ {
    <[> {
        ]	 €,
        )Z𝄞[(
            éb;[<(a𝄞Z>b<
                <
                    
                })éa[𝄞:,
                
(é])
é(
                    (
                        aa(
                            :Z[[[a(
                                é(
                            }, )[𝄞	;
                        };,
                        € {
                            €[ {
                                
                            )
                        }(, )b€]  
[𝄞:
                    )<
                        é; {
                            ;
                        }é€a[€b 
	
                    )€Z:()€[
                }:[é 
            ><
                 Z((])(a€		<)	[b
            }>)[Zé
 {
                <
                    ,
                    é𝄞(
                        Z;] {
                            aZ𝄞  
                        }[ 
𝄞 aa
                    >;[ ]Z
                }	
            >
 ,
            ],
            ]b
𝄞:é]𝄞Z {
                ;:a<
                     {
                        []
                    }
                } {
                    [€
é  {
                        Zéb
<
                            
                        )Z]	[").
Definition c510 : case := ("[(Compact<u16>,Compact<struct PerU16(u16)>); 2]", "[(
    Compact<u16>,
    Compact<struct PerU16(u16)>
); 2]").
Definition c511 : case := ("struct PerDispatchClass<u32>{normal: u32,operational: u32,mandatory: u32}", "struct PerDispatchClass<u32> {
    normal: u32,
    operational: u32,
    mandatory: u32
}").
Definition c512 : case := ("(Compact<u32>,(Compact<u16>,Compact<struct PerU16(u16)>),Compact<u16>)", "(
    Compact<u32>,
    (
        Compact<u16>,
        Compact<struct PerU16(u16)>
    ),
    Compact<u16>
)").
Definition cases : list (case) := [c0; c1; c2; c3; c4; c5; c6; c7; c8; c9; c10; c11; c12; c13; c14; c15; c16; c17; c18; c19; c20; c21; c22; c23; c24; c25; c26; c27; c28; c29; c30; c31; c32; c33; c34; c35; c36; c37; c38; c39; c40; c41; c42; c43; c44; c45; c46; c47; c48; c49; c50; c51; c52; c53; c54; c55; c56; c57; c58; c59; c60; c61; c62; c63; c64; c65; c66; c67; c68; c69; c70; c71; c72; c73; c74; c75; c76; c77; c78; c79; c80; c81; c82; c83; c84; c85; c86; c87; c88; c89; c90; c91; c92; c93; c94; c95; c96; c97; c98; c99; c100; c101; c102; c103; c104; c105; c106; c107; c108; c109; c110; c111; c112; c113; c114; c115; c116; c117; c118; c119; c120; c121; c122; c123; c124; c125; c126; c127; c128; c129; c130; c131; c132; c133; c134; c135; c136; c137; c138; c139; c140; c141; c142; c143; c144; c145; c146; c147; c148; c149; c150; c151; c152; c153; c154; c155; c156; c157; c158; c159; c160; c161; c162; c163; c164; c165; c166; c167; c168; c169; c170; c171; c172; c173; c174; c175; c176; c177; c178; c179; c180; c181; c182; c183; c184; c185; c186; c187; c188; c189; c190; c191; c192; c193; c194; c195; c196; c197; c198; c199; c200; c201; c202; c203; c204; c205; c206; c207; c208; c209; c210; c211; c212; c213; c214; c215; c216; c217; c218; c219; c220; c221; c222; c223; c224; c225; c226; c227; c228; c229; c230; c231; c232; c233; c234; c235; c236; c237; c238; c239; c240; c241; c242; c243; c244; c245; c246; c247; c248; c249; c250; c251; c252; c253; c254; c255; c256; c257; c258; c259; c260; c261; c262; c263; c264; c265; c266; c267; c268; c269; c270; c271; c272; c273; c274; c275; c276; c277; c278; c279; c280; c281; c282; c283; c284; c285; c286; c287; c288; c289; c290; c291; c292; c293; c294; c295; c296; c297; c298; c299; c300; c301; c302; c303; c304; c305; c306; c307; c308; c309; c310; c311; c312; c313; c314; c315; c316; c317; c318; c319; c320; c321; c322; c323; c324; c325; c326; c327; c328; c329; c330; c331; c332; c333; c334; c335; c336; c337; c338; c339; c340; c341; c342; c343; c344; c345; c346; c347; c348; c349; c350; c351; c352; c353; c354; c355; c356; c357; c358; c359; c360; c361; c362; c363; c364; c365; c366; c367; c368; c369; c370; c371; c372; c373; c374; c375; c376; c377; c378; c379; c380; c381; c382; c383; c384; c385; c386; c387; c388; c389; c390; c391; c392; c393; c394; c395; c396; c397; c398; c399; c400; c401; c402; c403; c404; c405; c406; c407; c408; c409; c410; c411; c412; c413; c414; c415; c416; c417; c418; c419; c420; c421; c422; c423; c424; c425; c426; c427; c428; c429; c430; c431; c432; c433; c434; c435; c436; c437; c438; c439; c440; c441; c442; c443; c444; c445; c446; c447; c448; c449; c450; c451; c452; c453; c454; c455; c456; c457; c458; c459; c460; c461; c462; c463; c464; c465; c466; c467; c468; c469; c470; c471; c472; c473; c474; c475; c476; c477; c478; c479; c480; c481; c482; c483; c484; c485; c486; c487; c488; c489; c490; c491; c492; c493; c494; c495; c496; c497; c498; c499; c500; c501; c502; c503; c504; c505; c506; c507; c508; c509; c510; c511; c512].
Eval vm_compute in ("corr_exact"%string, failing (corr_exact) cases).
Eval vm_compute in ("corr_stream"%string, failing (corr_stream) cases).
Eval vm_compute in ("prop_ws"%string, failing (prop_ws) cases).
Eval vm_compute in ("prop_discipline"%string, failing (prop_discipline) cases).
