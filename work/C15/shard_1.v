From Coq Require Import List NArith String.
From V Require Import Base.Util Corr.RunC15.
Import ListNotations. Open Scope string_scope.
Definition c0 : case := ("{", " {
    ").
Definition c1 : case := ("{a", " {
    a").
Definition c2 : case := ("(>", "(
    >").
Definition c3 : case := ("<)", "<
    )").
Definition c4 : case := (",}", ",

}").
Definition c5 : case := ("a ", "a ").
Definition c6 : case := ("{{,", " {
     {
        ,
        ").
Definition c7 : case := ("{(<", " {
    (
        <
            ").
Definition c8 : case := ("{<(", " {
    <
        (
            ").
Definition c9 : case := ("{,{", " {
    ,
     {
        ").
Definition c10 : case := ("{aa", " {
    aa").
Definition c11 : case := ("}{>", "
} {
>").
Definition c12 : case := ("}()", "
}()").
Definition c13 : case := ("}<}", "
}<

}").
Definition c14 : case := ("}> ", "
}> ").
Definition c15 : case := ("}a,", "
}a,
").
Definition c16 : case := ("({<", "(
     {
        <
            ").
Definition c17 : case := ("(((", "(
    (
        (
            ").
Definition c18 : case := ("(<{", "(
    <
         {
            ").
Definition c19 : case := ("(>a", "(
    >a").
Definition c20 : case := ("(a>", "(
    a>").
Definition c21 : case := ("){)", ") {
    )").
Definition c22 : case := (")(}", ")(
    
}").
Definition c23 : case := (")) ", ")) ").
Definition c24 : case := (")>,", ")>,
").
Definition c25 : case := (")a<", ")a<
    ").
Definition c26 : case := ("<{(", "<
     {
        (
            ").
Definition c27 : case := ("<({", "<
    (
         {
            ").
Definition c28 : case := ("<)a", "<
    )a").
Definition c29 : case := ("<>>", "<>>").
Definition c30 : case := ("<a)", "<
    a)").
Definition c31 : case := (">{}", "> {
    
}").
Definition c32 : case := (">} ", ">
} ").
Definition c33 : case := (">),", ">),
").
Definition c34 : case := (">><", ">><
    ").
Definition c35 : case := (">a(", ">a(
    ").
Definition c36 : case := (",{{", ",
 {
     {
        ").
Definition c37 : case := (",}a", ",

}a").
Definition c38 : case := (",)>", ",
)>").
Definition c39 : case := (",>)", ",
>)").
Definition c40 : case := (",a}", ",
a
}").
Definition c41 : case := (",  ", ",
  ").
Definition c42 : case := ("a},", "a
},
").
Definition c43 : case := ("a)<", "a)<
    ").
Definition c44 : case := ("a>(", "a>(
    ").
Definition c45 : case := ("aa{", "aa {
    ").
Definition c46 : case := ("a a", "a a").
Definition c47 : case := (" }>", " 
}>").
Definition c48 : case := (" ))", " ))").
Definition c49 : case := (" >}", " >
}").
Definition c50 : case := (" , ", " ,
 ").
Definition c51 : case := ("  ,", "  ,
").
Definition c52 : case := ("{{}<", " {
     {
        
    }<
        ").
Definition c53 : case := ("{{)(", " {
     {
        )(
            ").
Definition c54 : case := ("{{>{", " {
     {
        > {
            ").
Definition c55 : case := ("{{,a", " {
     {
        ,
        a").
Definition c56 : case := ("{{ >", " {
     {
         >").
Definition c57 : case := ("{}})", " {
    
}
})").
Definition c58 : case := ("{})}", " {
    
})
}").
Definition c59 : case := ("{}< ", " {
    
}<
     ").
Definition c60 : case := ("{},,", " {
    
},
,
").
Definition c61 : case := ("{} <", " {
    
} <
    ").
Definition c62 : case := ("{(}(", " {
    (
        
    }(
        ").
Definition c63 : case := ("{(){", " {
    () {
        ").
Definition c64 : case := ("{(<a", " {
    (
        <
            a").
Definition c65 : case := ("{(,>", " {
    (
        ,
        >").
Definition c66 : case := ("{( )", " {
    ( )").
Definition c67 : case := ("{)}}", " {
    )
}
}").
Definition c68 : case := ("{)( ", " {
    )(
         ").
Definition c69 : case := ("{)<,", " {
    )<
        ,
        ").
Definition c70 : case := ("{),<", " {
    ),
    <
        ").
Definition c71 : case := ("{) (", " {
    ) (
        ").
Definition c72 : case := ("{<}{", " {
    <
        
    } {
        ").
Definition c73 : case := ("{<(a", " {
    <
        (
            a").
Definition c74 : case := ("{<<>", " {
    <
        <>").
Definition c75 : case := ("{<,)", " {
    <
        ,
        )").
Definition c76 : case := ("{< }", " {
    <
         
    }").
Definition c77 : case := ("{>{ ", " {
    > {
         ").
Definition c78 : case := ("{>(,", " {
    >(
        ,
        ").
Definition c79 : case := ("{><<", " {
    ><
        <
            ").
Definition c80 : case := ("{>,(", " {
    >,
    (
        ").
Definition c81 : case := ("{> {", " {
    >  {
        ").
Definition c82 : case := ("{,{a", " {
    ,
     {
        a").
Definition c83 : case := ("{,(>", " {
    ,
    (
        >").
Definition c84 : case := ("{,<)", " {
    ,
    <
        )").
Definition c85 : case := ("{,,}", " {
    ,
    ,
    
}").
Definition c86 : case := ("{,a ", " {
    ,
    a ").
Definition c87 : case := ("{a{,", " {
    a {
        ,
        ").
Definition c88 : case := ("{a(<", " {
    a(
        <
            ").
Definition c89 : case := ("{a<(", " {
    a<
        (
            ").
Definition c90 : case := ("{a,{", " {
    a,
     {
        ").
Definition c91 : case := ("{aaa", " {
    aaa").
Definition c92 : case := ("{ {>", " {
      {
        >").
Definition c93 : case := ("{ ()", " {
     ()").
Definition c94 : case := ("{ <}", " {
     <
        
    }").
Definition c95 : case := ("{ > ", " {
     > ").
Definition c96 : case := ("{ a,", " {
     a,
    ").
Definition c97 : case := ("}{{<", "
} {
 {
    <
        ").
Definition c98 : case := ("}{((", "
} {
(
    (
        ").
Definition c99 : case := ("}{<{", "
} {
<
     {
        ").
Definition c100 : case := ("}{>a", "
} {
>a").
Definition c101 : case := ("}{a>", "
} {
a>").
Definition c102 : case := ("}}{)", "
}
} {
)").
Definition c103 : case := ("}}(}", "
}
}(

}").
Definition c104 : case := ("}}) ", "
}
}) ").
Definition c105 : case := ("}}>,", "
}
}>,
").
Definition c106 : case := ("}}a<", "
}
}a<
").
Definition c107 : case := ("}({(", "
}(
 {
    (
        ").
Definition c108 : case := ("}(({", "
}(
(
     {
        ").
Definition c109 : case := ("}()a", "
}()a").
Definition c110 : case := ("}(>>", "
}(
>>").
Definition c111 : case := ("}(a)", "
}(a)").
Definition c112 : case := ("}){}", "
}) {

}").
Definition c113 : case := ("})} ", "
})
} ").
Definition c114 : case := ("})),", "
})),
").
Definition c115 : case := ("})><", "
})><
").
Definition c116 : case := ("})a(", "
})a(
").
Definition c117 : case := ("}<{{", "
}<
 {
     {
        ").
Definition c118 : case := ("}<}a", "
}<

}a").
Definition c119 : case := ("}<)>", "
}<)>").
Definition c120 : case := ("}<>)", "
}<>)").
Definition c121 : case := ("}<a}", "
}<
a
}").
Definition c122 : case := ("}<  ", "
}<
  ").
Definition c123 : case := ("}>},", "
}>
},
").
Definition c124 : case := ("}>)<", "
}>)<
").
Definition c125 : case := ("}>>(", "
}>>(
").
Definition c126 : case := ("}>a{", "
}>a {
").
Definition c127 : case := ("}> a", "
}> a").
Definition c128 : case := ("},}>", "
},

}>").
Definition c129 : case := ("},))", "
},
))").
Definition c130 : case := ("},>}", "
},
>
}").
Definition c131 : case := ("},, ", "
},
,
 ").
Definition c132 : case := ("}, ,", "
},
 ,
").
Definition c133 : case := ("}a}<", "
}a
}<
").
Definition c134 : case := ("}a)(", "
}a)(
").
Definition c135 : case := ("}a>{", "
}a> {
").
Definition c136 : case := ("}a,a", "
}a,
a").
Definition c137 : case := ("}a >", "
}a >").
Definition c138 : case := ("} })", "
} 
})").
Definition c139 : case := ("} )}", "
} )
}").
Definition c140 : case := ("} < ", "
} <
 ").
Definition c141 : case := ("} ,,", "
} ,
,
").
Definition c142 : case := ("}  <", "
}  <
").
Definition c143 : case := ("({}(", "(
     {
        
    }(
        ").
Definition c144 : case := ("({){", "(
     {
        
    ) {
        ").
Definition c145 : case := ("({<a", "(
     {
        <
            a").
Definition c146 : case := ("({,>", "(
     {
        ,
        >").
Definition c147 : case := ("({ )", "(
     {
         
    )").
Definition c148 : case := ("(}}}", "(
    
}
}
}").
Definition c149 : case := ("(}( ", "(
    
}(
     ").
Definition c150 : case := ("(}<,", "(
    
}<
    ,
    ").
Definition c151 : case := ("(},<", "(
    
},
<
    ").
Definition c152 : case := ("(} (", "(
    
} (
    ").
Definition c153 : case := ("((}{", "(
    (
        
    } {
        ").
Definition c154 : case := ("(((a", "(
    (
        (
            a").
Definition c155 : case := ("((<>", "(
    (
        <>").
Definition c156 : case := ("((,)", "(
    (, )").
Definition c157 : case := ("(( }", "(
    (
         
    }").
Definition c158 : case := ("(){ ", "() {
     ").
Definition c159 : case := ("()(,", "()(
    ,
    ").
Definition c160 : case := ("()<<", "()<
    <
        ").
Definition c161 : case := ("(),(", "(),
(
    ").
Definition c162 : case := ("() {", "()  {
    ").
Definition c163 : case := ("(<{a", "(
    <
         {
            a").
Definition c164 : case := ("(<(>", "(
    <(
        >").
Definition c165 : case := ("(<<)", "(<
    <
        )").
Definition c166 : case := ("(<,}", "(
    <
        ,
        
    }").
Definition c167 : case := ("(<a ", "(
    <
        a ").
Definition c168 : case := ("(>{,", "(
    > {
        ,
        ").
Definition c169 : case := ("(>(<", "(
    >(
        <
            ").
Definition c170 : case := ("(><(", "(
    ><
        (
            ").
Definition c171 : case := ("(>,{", "(
    >,
     {
        ").
Definition c172 : case := ("(>aa", "(
    >aa").
Definition c173 : case := ("(,{>", "(
    ,
     {
        >").
Definition c174 : case := ("(,()", "(
    ,
    ()").
Definition c175 : case := ("(,<}", "(
    ,
    <
        
    }").
Definition c176 : case := ("(,> ", "(
    ,
    > ").
Definition c177 : case := ("(,a,", "(
    ,
    a,
    ").
Definition c178 : case := ("(a{<", "(
    a {
        <
            ").
Definition c179 : case := ("(a((", "(
    a(
        (
            ").
Definition c180 : case := ("(a<{", "(
    a<
         {
            ").
Definition c181 : case := ("(a>a", "(
    a>a").
Definition c182 : case := ("(aa>", "(
    aa>").
Definition c183 : case := ("( {)", "(
      {
        
    )").
Definition c184 : case := ("( (}", "(
     (
        
    }").
Definition c185 : case := ("( ) ", "( ) ").
Definition c186 : case := ("( >,", "(
     >,
    ").
Definition c187 : case := ("( a<", "(
     a<
        ").
Definition c188 : case := ("){{(", ") {
     {
        (
            ").
Definition c189 : case := ("){({", ") {
    (
         {
            ").
Definition c190 : case := ("){)a", ") {
    )a").
Definition c191 : case := ("){>>", ") {
    >>").
Definition c192 : case := ("){a)", ") {
    a)").
Definition c193 : case := (")}{}", ")
} {

}").
Definition c194 : case := (")}} ", ")
}
} ").
Definition c195 : case := (")}),", ")
}),
").
Definition c196 : case := (")}><", ")
}><
").
Definition c197 : case := (")}a(", ")
}a(
").
Definition c198 : case := (")({{", ")(
     {
         {
            ").
Definition c199 : case := (")(}a", ")(
    
}a").
Definition c200 : case := (")()>", ")()>").
Definition c201 : case := (")(>)", ")(>)").
Definition c202 : case := (")(a}", ")(
    a
}").
Definition c203 : case := (")(  ", ")(
      ").
Definition c204 : case := ("))},", "))
},
").
Definition c205 : case := (")))<", ")))<
    ").
Definition c206 : case := ("))>(", "))>(
    ").
Definition c207 : case := ("))a{", "))a {
    ").
Definition c208 : case := (")) a", ")) a").
Definition c209 : case := (")<}>", ")<
}>").
Definition c210 : case := (")<))", ")<
    ))").
Definition c211 : case := (")<>}", ")<>
}").
Definition c212 : case := (")<, ", ")<
    ,
     ").
Definition c213 : case := (")< ,", ")<
     ,
    ").
Definition c214 : case := (")>}<", ")>
}<
").
Definition c215 : case := (")>)(", ")>)(
    ").
Definition c216 : case := (")>>{", ")>> {
    ").
Definition c217 : case := (")>,a", ")>,
a").
Definition c218 : case := (")> >", ")> >").
Definition c219 : case := ("),})", "),

})").
Definition c220 : case := ("),)}", "),
)
}").
Definition c221 : case := ("),< ", "),
<
     ").
Definition c222 : case := ("),,,", "),
,
,
").
Definition c223 : case := ("), <", "),
 <
    ").
Definition c224 : case := (")a}(", ")a
}(
").
Definition c225 : case := (")a){", ")a) {
    ").
Definition c226 : case := (")a<a", ")a<
    a").
Definition c227 : case := (")a,>", ")a,
>").
Definition c228 : case := (")a )", ")a )").
Definition c229 : case := (") }}", ") 
}
}").
Definition c230 : case := (") ( ", ") (
     ").
Definition c231 : case := (") <,", ") <
    ,
    ").
Definition c232 : case := (") ,<", ") ,
<
    ").
Definition c233 : case := (")  (", ")  (
    ").
Definition c234 : case := ("<{}{", "<
     {
        
    } {
        ").
Definition c235 : case := ("<{(a", "<
     {
        (
            a").
Definition c236 : case := ("<{<>", "<
     {
        <>").
Definition c237 : case := ("<{,)", "<
     {
        ,
        )").
Definition c238 : case := ("<{ }", "<
     {
         
    }").
Definition c239 : case := ("<}{ ", "<
    
} {
     ").
Definition c240 : case := ("<}(,", "<
    
}(
    ,
    ").
Definition c241 : case := ("<}<<", "<
    
}<
    <
        ").
Definition c242 : case := ("<},(", "<
    
},
(
    ").
Definition c243 : case := ("<} {", "<
    
}  {
    ").
Definition c244 : case := ("<({a", "<
    (
         {
            a").
Definition c245 : case := ("<((>", "<(
    (
        >").
Definition c246 : case := ("<(<)", "<
    (<
        )").
Definition c247 : case := ("<(,}", "<
    (
        ,
        
    }").
Definition c248 : case := ("<(a ", "<
    (
        a ").
Definition c249 : case := ("<){,", "<
    ) {
        ,
        ").
Definition c250 : case := ("<)(<", "<
    )(
        <
            ").
Definition c251 : case := ("<)<(", "<
    )<
        (
            ").
Definition c252 : case := ("<),{", "<
    ),
     {
        ").
Definition c253 : case := ("<)aa", "<
    )aa").
Definition c254 : case := ("<<{>", "<
    <
         {
            
        >").
Definition c255 : case := ("<<()", "<
    <
        ()").
Definition c256 : case := ("<<<}", "<
    <
        <
            
        }").
Definition c257 : case := ("<<> ", "<
    <> ").
Definition c258 : case := ("<<a,", "<
    <
        a,
        ").
Definition c259 : case := ("<>{<", "<> {
    <
        ").
Definition c260 : case := ("<>((", "<>(
    (
        ").
Definition c261 : case := ("<><{", "<><
     {
        ").
Definition c262 : case := ("<>>a", "<>>a").
Definition c263 : case := ("<>a>", "<>a>").
Definition c264 : case := ("<,{)", "<
    ,
     {
        )").
Definition c265 : case := ("<,(}", "<
    ,
    (
        
    }").
Definition c266 : case := ("<,) ", "<
    ,
    ) ").
Definition c267 : case := ("<,>,", "<,
>,
").
Definition c268 : case := ("<,a<", "<
    ,
    a<
        ").
Definition c269 : case := ("<a{(", "<
    a {
        (
            ").
Definition c270 : case := ("<a({", "<
    a(
         {
            ").
Definition c271 : case := ("<a)a", "<
    a)a").
Definition c272 : case := ("<a>>", "<a>>").
Definition c273 : case := ("<aa)", "<
    aa)").
Definition c274 : case := ("< {}", "<
      {
        
    }").
Definition c275 : case := ("< } ", "<
     
} ").
Definition c276 : case := ("< ),", "<
     ),
    ").
Definition c277 : case := ("< ><", "< ><
    ").
Definition c278 : case := ("< a(", "<
     a(
        ").
Definition c279 : case := (">{{{", "> {
     {
         {
            ").
Definition c280 : case := (">{}a", "> {
    
}a").
Definition c281 : case := (">{)>", "> {
    )>").
Definition c282 : case := (">{>)", "> {
    >)").
Definition c283 : case := (">{a}", "> {
    a
}").
Definition c284 : case := (">{  ", "> {
      ").
Definition c285 : case := (">}},", ">
}
},
").
Definition c286 : case := (">})<", ">
})<
").
Definition c287 : case := (">}>(", ">
}>(
").
Definition c288 : case := (">}a{", ">
}a {
").
Definition c289 : case := (">} a", ">
} a").
Definition c290 : case := (">(}>", ">(
    
}>").
Definition c291 : case := (">())", ">())").
Definition c292 : case := (">(>}", ">(
    >
}").
Definition c293 : case := (">(, ", ">(
    ,
     ").
Definition c294 : case := (">( ,", ">(
     ,
    ").
Definition c295 : case := (">)}<", ">)
}<
").
Definition c296 : case := (">))(", ">))(
    ").
Definition c297 : case := (">)>{", ">)> {
    ").
Definition c298 : case := (">),a", ">),
a").
Definition c299 : case := (">) >", ">) >").
Definition c300 : case := ("><})", "><
    
})").
Definition c301 : case := ("><)}", "><
    )
}").
Definition c302 : case := ("><< ", "><
    <
         ").
Definition c303 : case := ("><,,", "><
    ,
    ,
    ").
Definition c304 : case := (">< <", "><
     <
        ").
Definition c305 : case := (">>}(", ">>
}(
").
Definition c306 : case := (">>){", ">>) {
    ").
Definition c307 : case := (">><a", ">><
    a").
Definition c308 : case := (">>,>", ">>,
>").
Definition c309 : case := (">> )", ">> )").
Definition c310 : case := (">,}}", ">,

}
}").
Definition c311 : case := (">,( ", ">,
(
     ").
Definition c312 : case := (">,<,", ">,
<
    ,
    ").
Definition c313 : case := (">,,<", ">,
,
<
    ").
Definition c314 : case := (">, (", ">,
 (
    ").
Definition c315 : case := (">a}{", ">a
} {
").
Definition c316 : case := (">a(a", ">a(
    a").
Definition c317 : case := (">a<>", ">a<>").
Definition c318 : case := (">a,)", ">a,
)").
Definition c319 : case := (">a }", ">a 
}").
Definition c320 : case := ("> { ", ">  {
     ").
Definition c321 : case := ("> (,", "> (
    ,
    ").
Definition c322 : case := ("> <<", "> <
    <
        ").
Definition c323 : case := ("> ,(", "> ,
(
    ").
Definition c324 : case := (">  {", ">   {
    ").
Definition c325 : case := (",{{a", ",
 {
     {
        a").
Definition c326 : case := (",{(>", ",
 {
    (
        >").
Definition c327 : case := (",{<)", ",
 {
    <
        )").
Definition c328 : case := (",{,}", ",
 {
    ,
    
}").
Definition c329 : case := (",{a ", ",
 {
    a ").
Definition c330 : case := (",}{,", ",

} {
,
").
Definition c331 : case := (",}(<", ",

}(
<
    ").
Definition c332 : case := (",}<(", ",

}<
(
    ").
Definition c333 : case := (",},{", ",

},
 {
").
Definition c334 : case := (",}aa", ",

}aa").
Definition c335 : case := (",({>", ",
(
     {
        >").
Definition c336 : case := (",(()", ",
(
    ()").
Definition c337 : case := (",(<}", ",
(
    <
        
    }").
Definition c338 : case := (",(> ", ",
(
    > ").
Definition c339 : case := (",(a,", ",
(
    a,
    ").
Definition c340 : case := (",){<", ",
) {
    <
        ").
Definition c341 : case := (",)((", ",
)(
    (
        ").
Definition c342 : case := (",)<{", ",
)<
     {
        ").
Definition c343 : case := (",)>a", ",
)>a").
Definition c344 : case := (",)a>", ",
)a>").
Definition c345 : case := (",<{)", ",
<
     {
        )").
Definition c346 : case := (",<(}", ",
<
    (
        
    }").
Definition c347 : case := (",<) ", ",
<
    ) ").
Definition c348 : case := (",<>,", ",
<>,
").
Definition c349 : case := (",<a<", ",
<
    a<
        ").
Definition c350 : case := (",>{(", ",
> {
    (
        ").
Definition c351 : case := (",>({", ",
>(
     {
        ").
Definition c352 : case := (",>)a", ",
>)a").
Definition c353 : case := (",>>>", ",
>>>").
Definition c354 : case := (",>a)", ",
>a)").
Definition c355 : case := (",,{}", ",
,
 {
    
}").
Definition c356 : case := (",,} ", ",
,

} ").
Definition c357 : case := (",,),", ",
,
),
").
Definition c358 : case := (",,><", ",
,
><
    ").
Definition c359 : case := (",,a(", ",
,
a(
    ").
Definition c360 : case := (",a{{", ",
a {
     {
        ").
Definition c361 : case := (",a}a", ",
a
}a").
Definition c362 : case := (",a)>", ",
a)>").
Definition c363 : case := (",a>)", ",
a>)").
Definition c364 : case := (",aa}", ",
aa
}").
Definition c365 : case := (",a  ", ",
a  ").
Definition c366 : case := (", },", ",
 
},
").
Definition c367 : case := (", )<", ",
 )<
    ").
Definition c368 : case := (", >(", ",
 >(
    ").
Definition c369 : case := (", a{", ",
 a {
    ").
Definition c370 : case := (",  a", ",
  a").
Definition c371 : case := ("a{}>", "a {
    
}>").
Definition c372 : case := ("a{))", "a {
    ))").
Definition c373 : case := ("a{>}", "a {
    >
}").
Definition c374 : case := ("a{, ", "a {
    ,
     ").
Definition c375 : case := ("a{ ,", "a {
     ,
    ").
Definition c376 : case := ("a}}<", "a
}
}<
").
Definition c377 : case := ("a})(", "a
})(
").
Definition c378 : case := ("a}>{", "a
}> {
").
Definition c379 : case := ("a},a", "a
},
a").
Definition c380 : case := ("a} >", "a
} >").
Definition c381 : case := ("a(})", "a(
})").
Definition c382 : case := ("a()}", "a()
}").
Definition c383 : case := ("a(< ", "a(
    <
         ").
Definition c384 : case := ("a(,,", "a(
    ,
    ,
    ").
Definition c385 : case := ("a( <", "a(
     <
        ").
Definition c386 : case := ("a)}(", "a)
}(
").
Definition c387 : case := ("a)){", "a)) {
    ").
Definition c388 : case := ("a)<a", "a)<
    a").
Definition c389 : case := ("a),>", "a),
>").
Definition c390 : case := ("a) )", "a) )").
Definition c391 : case := ("a<}}", "a<
    
}
}").
Definition c392 : case := ("a<( ", "a<
    (
         ").
Definition c393 : case := ("a<<,", "a<
    <
        ,
        ").
Definition c394 : case := ("a<,<", "a<
    ,
    <
        ").
Definition c395 : case := ("a< (", "a<
     (
        ").
Definition c396 : case := ("a>}{", "a>
} {
").
Definition c397 : case := ("a>(a", "a>(
    a").
Definition c398 : case := ("a><>", "a><>").
Definition c399 : case := ("a>,)", "a>,
)").
Definition c400 : case := ("a> }", "a> 
}").
Definition c401 : case := ("a,{ ", "a,
 {
     ").
Definition c402 : case := ("a,(,", "a,
(
    ,
    ").
Definition c403 : case := ("a,<<", "a,
<
    <
        ").
Definition c404 : case := ("a,,(", "a,
,
(
    ").
Definition c405 : case := ("a, {", "a,
  {
    ").
Definition c406 : case := ("aa{a", "aa {
    a").
Definition c407 : case := ("aa(>", "aa(
    >").
Definition c408 : case := ("aa<)", "aa<
    )").
Definition c409 : case := ("aa,}", "aa,

}").
Definition c410 : case := ("aaa ", "aaa ").
Definition c411 : case := ("a {,", "a  {
    ,
    ").
Definition c412 : case := ("a (<", "a (
    <
        ").
Definition c413 : case := ("a <(", "a <
    (
        ").
Definition c414 : case := ("a ,{", "a ,
 {
    ").
Definition c415 : case := ("a aa", "a aa").
Definition c416 : case := (" {{>", "  {
     {
        >").
Definition c417 : case := (" {()", "  {
    ()").
Definition c418 : case := (" {<}", "  {
    <
        
    }").
Definition c419 : case := (" {> ", "  {
    > ").
Definition c420 : case := (" {a,", "  {
    a,
    ").
Definition c421 : case := (" }{<", " 
} {
<
    ").
Definition c422 : case := (" }((", " 
}(
(
    ").
Definition c423 : case := (" }<{", " 
}<
 {
    ").
Definition c424 : case := (" }>a", " 
}>a").
Definition c425 : case := (" }a>", " 
}a>").
Definition c426 : case := (" ({)", " (
     {
        
    )").
Definition c427 : case := (" ((}", " (
    (
        
    }").
Definition c428 : case := (" () ", " () ").
Definition c429 : case := (" (>,", " (
    >,
    ").
Definition c430 : case := (" (a<", " (
    a<
        ").
Definition c431 : case := (" ){(", " ) {
    (
        ").
Definition c432 : case := (" )({", " )(
     {
        ").
Definition c433 : case := (" ))a", " ))a").
Definition c434 : case := (" )>>", " )>>").
Definition c435 : case := (" )a)", " )a)").
Definition c436 : case := (" <{}", " <
     {
        
    }").
Definition c437 : case := (" <} ", " <
    
} ").
Definition c438 : case := (" <),", " <
    ),
    ").
Definition c439 : case := (" <><", " <><
    ").
Definition c440 : case := (" <a(", " <
    a(
        ").
Definition c441 : case := (" >{{", " > {
     {
        ").
Definition c442 : case := (" >}a", " >
}a").
Definition c443 : case := (" >)>", " >)>").
Definition c444 : case := (" >>)", " >>)").
Definition c445 : case := (" >a}", " >a
}").
Definition c446 : case := (" >  ", " >  ").
Definition c447 : case := (" ,},", " ,

},
").
Definition c448 : case := (" ,)<", " ,
)<
    ").
Definition c449 : case := (" ,>(", " ,
>(
    ").
Definition c450 : case := (" ,a{", " ,
a {
    ").
Definition c451 : case := (" , a", " ,
 a").
Definition c452 : case := (" a}>", " a
}>").
Definition c453 : case := (" a))", " a))").
Definition c454 : case := (" a>}", " a>
}").
Definition c455 : case := (" a, ", " a,
 ").
Definition c456 : case := (" a ,", " a ,
").
Definition c457 : case := ("  }<", "  
}<
").
Definition c458 : case := ("  )(", "  )(
    ").
Definition c459 : case := ("  >{", "  > {
    ").
Definition c460 : case := ("  ,a", "  ,
a").
Definition c461 : case := ("   >", "   >").
Definition c462 : case := ("<<a>aa,abab,aa,abbé,ééébb,aébébé>)", "<<a>aa,
abab,
aa,
abbé,
ééébb,
aébébé>)").
Definition c463 : case := ("((a,,,bbéé,ébbé,aébbbé,),a", "(
    (a, , , bbéé, ébbé, aébbbé, ),
    a").
Definition c464 : case := ("x{(babéabé,,ab,bba,aéb,a,éaba,béa,abé,ab)}", "x {
    (
        babéabé,
        ,
        ab,
        bba,
        aéb,
        a,
        éaba,
        béa,
        abé,
        ab
    )
}").
Definition c465 : case := ("x{(,é,b,,bb,ééééa,{aa,a,baéébb)", "x {
    (
        ,
        é,
        b,
        ,
        bb,
        ééééa,
         {
            aa,
            a,
            baéébb
        )").
Definition c466 : case := ("<(bbéébaaé,éab,é,,aé{,aéaéa,aébééa,,baéa,,ébb)>", "<
    (
        bbéébaaé,
        éab,
        é,
        ,
        aé {
            ,
            aéaéa,
            aébééa,
            ,
            baéa,
            ,
            ébb
        )
    >").
Definition c467 : case := ("<((x;,<>,:x[xa[a8:,(;][a:,a;:;]]:)),<({{u}},]x;[:,((][[)))>)>", "<
    (
        (x;, <>, :x[xa[a8:, (;][a:, a;:;]]:)),
        <
            (
                 {
                     {
                        u
                    }
                },
                ]x;[:,
                ((][[))
            )
        >
    )
>").
Definition c468 : case := ("<<{},8[]]8x,[[x]:xabb,<8x,<{<u,u,u,bb:]8aa;;a>}>,;[;[a[;b:;:,{},()>,8b8;[[[aa>,]8[xa;],a8:bx>,(;x;x[[x8])", "<
    <
         {
            
        },
        8[]]8x,
        [[x]:xabb,
        <
            8x,
            <
                 {
                    <u,
                    u,
                    u,
                    bb:]8aa;;a>
                }
            >,
            ;[;[a[;b:;:,
             {
                
            },
            ()
        >,
        8b8;[[[aa
    >,
    ]8[xa;],
    a8:bx
>,
(;x;x[[x8])").
Definition c469 : case := ("<>", "<>").
Definition c470 : case := ("x8ba88,]b,<8aa]xa]a>", "x8ba88,
]b,
<8aa]xa]a>").
Definition c471 : case := ("b;]", "b;]").
Definition c472 : case := ("{<;;;8:8:>},8,{<[x,{;[},b]a;x>,<<>,{((<>,[bx:aa,(u,u,u,xxaa8a),(u,u,a::[aa,[bx[[a]:b:8,a),(u,8)),[]axb;b]],{[;a[xb[[;]x})}>}", " {
    <;;;8:8:>
},
8,
 {
    <
        [x,
         {
            ;[
        },
        b]a;x
    >,
    <
        <>,
         {
            (
                (
                    <>,
                    [bx:aa,
                    (u, u, u, xxaa8a),
                    (u, u, a::[aa, [bx[[a]:b:8, a),
                    (u, 8)
                ),
                []axb;b]],
                 {
                    [;a[xb[[;]x
                }
            )
        }
    >
}").
Definition c473 : case := ("]x:[;8x8[;", "]x:[;8x8[;").
Definition c474 : case := ("{{{{<<[:a,]]8[:x,u>>}}}}", " {
     {
         {
             {
                <<[:a,
                ]]8[:x,
                u>>
            }
        }
    }
}").
Definition c475 : case := ("(]b8],(<<(<u>),a:x8b>,({{u},8;8b;,{}},8][b][),(a[a,()),{xxa];x;}>))", "(
    ]b8],
    (
        <
            <(<u>),
            a:x8b>,
            (
                 {
                     {
                        u
                    },
                    8;8b;,
                     {
                        
                    }
                },
                8][b][
            ),
            (a[a, ()),
             {
                xxa];x;
            }
        >
    )
)").
Definition c476 : case := ("ab],((;:b];8;[b;,(x88xa,:,(]x;[8];;[;8,{[]:8:;;:},[[xb;]8[[b,<(:ba]8,u,u,aaab;[[,u),;x8,{u,u}>))),b88a]:b8a,]:]]),<<(x,<<<>,<u>,:b:aa88b[]ab,8bxaa,{]}>,:a;aa;xab[;>,(8,xba:;x8bx;;8))>>", "ab],
(
    (
        ;:b];8;[b;,
        (
            x88xa,
            :,
            (
                ]x;[8];;[;8,
                 {
                    []:8:;;:
                },
                [[xb;]8[[b,
                <
                    (:ba]8, u, u, aaab;[[, u),
                    ;x8,
                     {
                        u,
                        u
                    }
                >
            )
        )
    ),
    b88a]:b8a,
    ]:]]
),
<
    <
        (
            x,
            <
                <
                    <>,
                    <u>,
                    :b:aa88b[]ab,
                    8bxaa,
                     {
                        ]
                    }
                >,
                :a;aa;xab[;
            >,
            (8, xba:;x8bx;;8)
        )
    >
>").
Definition c477 : case := ("8]:xx8]:a:]8", "8]:xx8]:a:]8").
Definition c478 : case := ("<(),xba;;a8xa,;;:xb,{<8bb];b]aba:;,(((),([x[;a8:b;b[,u,u),:bab;))>}>", "<
    (),
    xba;;a8xa,
    ;;:xb,
     {
        <
            8bb];b]aba:;,
            (((), ([x[;a8:b;b[, u, u), :bab;))
        >
    }
>").
Definition c479 : case := ("<]8[8a,<;:8b;]8x8,bax88:;8:[,(::,{(a;::,(8;aa;[:][;a;,:8a]:]:x8a],x]8a;8]8,:x;]x[[a),<:ax[[[:;8]bx,:::>,:[:bxb:[]b,8),]xb:,(<ax;b8b8,u>,<a[a:x,u,]];a;8,;[;8a>,x;[axa]a;,{8:8,u},(8]:]8[ab,b][[,;88))})>>", "<
    ]8[8a,
    <
        ;:8b;]8x8,
        bax88:;8:[,
        (
            ::,
             {
                (
                    a;::,
                    (
                        8;aa;[:][;a;,
                        :8a]:]:x8a],
                        x]8a;8]8,
                        :x;]x[[a
                    ),
                    <:ax[[[:;8]bx,
                    :::>,
                    :[:bxb:[]b,
                    8
                ),
                ]xb:,
                (
                    <ax;b8b8,
                    u>,
                    <a[a:x,
                    u,
                    ]];a;8,
                    ;[;8a>,
                    x;[axa]a;,
                     {
                        8:8,
                        u
                    },
                    (8]:]8[ab, b][[, ;88)
                )
            }
        )
    >
>").
Definition c480 : case := ("{::bbaa;bb,[b8xx8x,<(<:x;,:8;]b8bb]]::,a]]88:x8;x;8,<{}>>,(((u,u,8;xx;[a:8bb[,:ba;x:),{},<>,8[a];8[))),{<b,{[:,;x]];8,a:]8,<u,u,]x>},((),[8::[:]a]b];,a8:ax]a::x];),]x[][8axx8a,[x8x8]:8]bx>,bbxaaa,(b:[]:;[)}>}", " {
    ::bbaa;bb,
    [b8xx8x,
    <
        (
            <
                :x;,
                :8;]b8bb]]::,
                a]]88:x8;x;8,
                <
                     {
                        
                    }
                >
            >,
            (
                (
                    (u, u, 8;xx;[a:8bb[, :ba;x:),
                     {
                        
                    },
                    <>,
                    8[a];8[
                )
            )
        ),
         {
            <
                b,
                 {
                    [:,
                    ;x]];8,
                    a:]8,
                    <u,
                    u,
                    ]x>
                },
                ((), [8::[:]a]b];, a8:ax]a::x];),
                ]x[][8axx8a,
                [x8x8]:8]bx
            >,
            bbxaaa,
            (b:[]:;[)
        }
    >
}").
Definition c481 : case := ("<>,b:x88a,{<>,{}}", "<>,
b:x88a,
 {
    <>,
     {
        
    }
}").
Definition c482 : case := ("b],;aab8]:];88,(<(8[a[;aa8,;bb,({;:x8baba]b,(;bx8]b8;]:8b,x;xb,u,u,88a]),abb;[,(8[;a;])},{(;88;8[ax]b,u),(u,b,u),[]x:8][xxx[:},[]:8x8a][:]b,{<>}))>)", "b],
;aab8]:];88,
(
    <
        (
            8[a[;aa8,
            ;bb,
            (
                 {
                    ;:x8baba]b,
                    (;bx8]b8;]:8b, x;xb, u, u, 88a]),
                    abb;[,
                    (8[;a;])
                },
                 {
                    (;88;8[ax]b, u),
                    (u, b, u),
                    []x:8][xxx[:
                },
                []:8x8a][:]b,
                 {
                    <>
                }
            )
        )
    >
)").
Definition c483 : case := ("{},{(x,{{{];xbx[x[b],8b]8b;,]8x88]8},]:x,],][:},xb[,]:},x[xa]88x8a[],<(bx],{:a,],]a[]8,{u,x[]88;[8]:a}}),<xb:b:ax[],<]88,];:;;a,b8b8]8:b;;bb,{8aa:}>>,bb8[ba;b>,<]]:b[];]b,[x[][:;[]x[[,({},<>,<{}>)>)}", " {
    
},
 {
    (
        x,
         {
             {
                 {
                    ];xbx[x[b],
                    8b]8b;,
                    ]8x88]8
                },
                ]:x,
                ],
                ][:
            },
            xb[,
            ]:
        },
        x[xa]88x8a[],
        <
            (
                bx],
                 {
                    :a,
                    ],
                    ]a[]8,
                     {
                        u,
                        x[]88;[8]:a
                    }
                }
            ),
            <
                xb:b:ax[],
                <
                    ]88,
                    ];:;;a,
                    b8b8]8:b;;bb,
                     {
                        8aa:
                    }
                >
            >,
            bb8[ba;b
        >,
        <
            ]]:b[];]b,
            [x[][:;[]x[[,
            (
                 {
                    
                },
                <>,
                <
                     {
                        
                    }
                >
            )
        >
    )
}").
Definition c484 : case := ("<<((]8,{},];b8:[[;a:88),(<>,[aa,<>,<{x[;8;]:;8,b;a8xxx[bb[}>))>>", "<
    <
        (
            (
                ]8,
                 {
                    
                },
                ];b8:[[;a:88
            ),
            (
                <>,
                [aa,
                <>,
                <
                     {
                        x[;8;]:;8,
                        b;a8xxx[bb[
                    }
                >
            )
        )
    >
>").
Definition c485 : case := ("(bba,<>,aa];]a,<>,:]x]x),(<axx8;;8[88;:,{b]a,{}},:];[:>,:[:,(),a:;x;a8,(bb[]xb8[;,<>,;8:))", "(bba, <>, aa];]a, <>, :]x]x),
(
    <
        axx8;;8[88;:,
         {
            b]a,
             {
                
            }
        },
        :];[:
    >,
    :[:,
    (),
    a:;x;a8,
    (bb[]xb8[;, <>, ;8:)
)").
Definition c486 : case := ("([b;a:aa:8b,a:xb[a;,<>,;8]bxx;;)", "([b;a:aa:8b, a:xb[a;, <>, ;8]bxx;;)").
Definition c487 : case := ("{<{<([b,xb[b,]aab])>}>}", " {
    <
         {
            <([b, xb[b, ]aab])>
        }
    >
}").
Definition c488 : case := ("],(xa[[b:::]b,8][8b[b,8;8b:b;8]];8,{ab8];a:a[::}),{({<({u,a][:a[})>})}", "],
(
    xa[[b:::]b,
    8][8b[b,
    8;8b:b;8]];8,
     {
        ab8];a:a[::
    }
),
 {
    (
         {
            <
                (
                     {
                        u,
                        a][:a[
                    }
                )
            >
        }
    )
}").
Definition c489 : case := ("((8),a[b]bx;]b;[,xbb,<a]a[8bx8::ab,b,{:]8;,x,(),a8:;[x;8a:[8,<>},(<[8;bxxab,{][[:]]],(abx)},{}>,:8[,(<:[[x;8[[[x>,(a888:,;8,{xa[x8a,]b,[b;]b[:b})))>)", "(
    (8),
    a[b]bx;]b;[,
    xbb,
    <
        a]a[8bx8::ab,
        b,
         {
            :]8;,
            x,
            (),
            a8:;[x;8a:[8,
            <>
        },
        (
            <
                [8;bxxab,
                 {
                    ][[:]]],
                    (abx)
                },
                 {
                    
                }
            >,
            :8[,
            (
                <:[[x;8[[[x>,
                (
                    a888:,
                    ;8,
                     {
                        xa[x8a,
                        ]b,
                        [b;]b[:b
                    }
                )
            )
        )
    >
)").
Definition c490 : case := ("(];bxa;;:]),<[[]b;a,(),x]:b:>", "(];bxa;;:]),
<[[]b;a,
(),
x]:b:>").
Definition c491 : case := ("b;:[[[,;bb;]", "b;:[[[,
;bb;]").
Definition c492 : case := (";€€<)({𝄞{ 
a[Z 
,		<]}", ";€€<
    )(
         {
            𝄞 {
                 
a[Z 
,
                		<
                    ]
                }").
Definition c493 : case := ("	aab,b([)>[(;é;é>
{}
b [:;é)é][
a<:b <a𝄞𝄞
:[

	€[a
}[b	bZ
])<<}[{} {<

)bé,a
é	>
),€€a<;]>{ :	)<a:Z
>Z{b
(]a€€)(>,	b(>ébb(a]]b[
€ a€,é<:a𝄞é:<<(b)	><a	€ba{(Zb:,<
[€:€[é,:𝄞 Z 𝄞}𝄞[,Z}[[
[) Z;}>	}>)>𝄞é](:   <},{;(:b> é	< b{Z),b;
[{{]𝄞:𝄞}b{	a[[[<,{,Z ;(ba<;>€
é{>𝄞


,a𝄞{)[}:<	Z	:é :€é	€aa𝄞:é[𝄞€b)b (Z)Z", "	aab,
b([)>[(
    ;é;é>
 {
        
    }
b [:;é
)é][
a<
    :b <
        a𝄞𝄞
:[

	€[a

    }[b	bZ
])<
        <
            
        }[ {
            
        }  {
            <

)bé,
            a
é	>
),
            €€a<;]> {
                 :	)<a:Z
>Z {
                    b
(]a€€)(
                        
                    >,
                    	b(
                        
                    >ébb(
                        a]]b[
€ a€,
                        é<
                            :a𝄞é:<
                                <(b)	><
                                    a	€ba {
                                        (Zb:, <
[€:€[é, :𝄞 Z 𝄞
                                    }𝄞[, Z
                                }[[
[) Z;
                            }>	
                        }
                    >
                )
            >𝄞é](
                :   <
                    
                },
                 {
                    ;(
                        :b
                    > é	<
                         b {
                            Z
                        ),
                        b;
[ {
                             {
                                ]𝄞:𝄞
                            }b {
                                	a[[[<
                                    ,
                                     {
                                        ,
                                        Z ;(
                                            ba<;>€
é {
                                                
                                            >𝄞


,
                                            a𝄞 {
                                                
                                            )[
                                        }:<
                                            	Z	:é :€é	€aa𝄞:é[𝄞€b
                                        )b (Z)Z").
Definition c494 : case := ("é(
<:	{𝄞<€],>€}	}	bé", "é(
    
<
        :	 {
            𝄞<€],
            >€
        }	
    }	bé").
Definition c495 : case := ("𝄞}
)Za	€b}][[a{<,a((€€Z:	 [}a€]<;€>[:;<a€,é()
:	{ZbZ:𝄞Z<){)[b𝄞)})a(](€€,	éb)Z	 [>b><€>),])a}[{)a;Z )>:Z€	[	b
é", "𝄞
}
)Za	€b
}][[a {
<
,
a(
    (
        €€Z:	 [
    }a€]<;€>[:;<
        a€,
        é()
:	 {
            ZbZ:𝄞Z<
                
            ) {
                
            )[b𝄞)
        })a(](€€, 	éb)Z	 [
    >b
><€>),
])a
}[ {
)a;Z )
>:Z€	[	b
é").
Definition c496 : case := ("[< [[b]<a][>", "[<
     [[b]<a][>").
Definition c497 : case := ("(}:(({	a:}[	<>>[a;],Zb)) {>b][𝄞] 𝄞>aZ]]b::€)}Z	{)b}aé𝄞,({<𝄞bZ })a
ba(>(:,[€[(:é€) a€	]€<[(>}	bbb	éb𝄞b𝄞Z,é€:]} 𝄞 a<é	€a€;]	éab𝄞:)𝄞:)>::<[:>>}>] 	b)[):<Z);
{}]		})():,{b> :€[)	𝄞{", "(
    
}:(
    (
         {
            	a:
        }[	<>>[a;],
        Zb
    )
)  {
    >b][𝄞] 𝄞>aZ]]b::€
)
}Z	 {
)b
}aé𝄞,
(
 {
    <𝄞bZ 
}
)a
ba(
>(
    :,
    [€[(:é€) a€	]€<[(
        >
    }	bbb	éb𝄞b𝄞Z,
    é€:]
} 𝄞 a<é	€a€;]	éab𝄞:
)𝄞:
)>::<[:>>
}>] 	b
)[):<
Z);
 {

}]		
})():,
 {
b
> :€[)	𝄞 {
").
Definition c498 : case := ("(é 
  [<)Z](,]𝄞b}<b,;)(é>{()Z€€€Z:)
[;", "(é 
  [<
    )Z](, ]𝄞b
}<b, ;)(
    é> {
        ()Z€€€Z:
    )
[;").
Definition c499 : case := ("Z)[	é
 
,:𝄞<;𝄞€b,	,)<]é}]Zb][<[::]>[a ;{()[<), Z 	 ]( b;[
 é{ ;}}](:𝄞:a({€é,,]
,:b 𝄞 aé})]€€}]}
<	Z:éa<,bb)[><( [a
é(;b{a
}é)>)<	]{,,;𝄞;;> {,)𝄞€
Z[b>,>}éZ]>]]a	
ééa) ]	b)>a€𝄞(𝄞(<)bZ>(>€ a<{aa a,)€é", "Z)[	é
 
,
:𝄞<
    ;𝄞€b,
    	,
    )<
        ]é
    }]Zb][<[::]>[a ; {
        ()[<
            ),
             Z 	 ](
                 b;[
 é {
                     ;
                }
            }](
                :𝄞:a(
                     {
                        €é,
                        ,
                        ]
,
                        :b 𝄞 aé
                    }
                )]€€
            }]
        }
<
            	Z:éa<,
            bb
        )[><
            (
                 [a
é(
                    ;b {
                        a

                    }é
                )
            >
        )<
            	] {
                ,
                ,
                ;𝄞;;
            >  {
                ,
                
            )𝄞€
Z[b
        >,
        
    >
}éZ]
>]]a	
ééa) ]	b)
>a€𝄞(
𝄞(<)bZ>(
>€ a<
     {
        aa a,
        
    )€é").
Definition c500 : case := ("<ZZé> >,]}€b,a	
 ;] {aé
€ )
:€€€<Z𝄞éa	€{	{a
>𝄞é
€", "<ZZé> >,
]
}€b,
a	
 ;]  {
aé
€ )
:€€€<
    Z𝄞éa	€ {
        	 {
            a

        >𝄞é
€").
Definition c501 : case := ("]),
b	[)<;(b	𝄞Z[(a €)[]}(:𝄞}()é()ZZé[ 
> 	b;, (b; 𝄞a][
:[){é>((	(,b{(;<(<):)]]]:[Z:[Z;Zé;€Z<a€€ ;€,b{<b)€:	b{>
)}}{Z€𝄞b𝄞<](]	 a > ;;[	{ ;])>b	", "]),

b	[)<;(
    b	𝄞Z[(a €)[]
}(
    :𝄞
}()é()ZZé[ 
> 	b;,
 (b; 𝄞a][
:[) {
    é>(
        (
            	(
                ,
                b {
                    (;<
                        (<
                            ):)]]]:[Z:[Z;Zé;€Z<
                                a€€ ;€,
                                b {
                                    <
                                        b
                                    )€:	b {
                                        
                                    >

                                )
                            }
                        } {
                            Z€𝄞b𝄞<](
                                ]	 a > ;;[	 {
                                     ;]
                                )
                            >b	").
Definition c502 : case := ("é;	(;a:}<	{<>é({:}𝄞
,):]}𝄞(Z]Z€<]:€{[Z
{{ ;]<é,))b	 é:€: :]<b}a€𝄞	b>:}a>{	a𝄞]} 𝄞)	]b[}(, >b;<<Z
éZ>}é]a𝄞)", "é;	(
    ;a:
}<
    	 {
        <>é(
             {
                :
            }𝄞
,
            
        ):]
    }𝄞(
        Z]Z€<
            ]:€ {
                [Z
 {
                     {
                         ;]<é,
                        
                    )
                )b	 é:€: :]<b
            }a€𝄞	b>:
        }a> {
            	a𝄞]
        } 𝄞)	]b[
    }(,  
>b;<
    <Z
éZ>
}é]a𝄞)").
Definition c503 : case := ("(}€a},(:Z ];
{;Z€}Z𝄞};b;<,éé	b> {bZ€]Z)	{	:,Z:b(:
𝄞}{𝄞𝄞	€a<>	 ))

<>[:	𝄞;	b :€]{éb
€
€é
{[<a ]{) 𝄞:Z[:;𝄞,𝄞>
𝄞]<𝄞<b}é[]	  ,)><€]{<,é<,éZ<Z<{{<: {>Za,]a] <	]é(Z,a;Z{:,]>b]ébZ
{ [>>],>;>b>>>><€", "(
    
}€a
},
(
:Z ];
 {
    ;Z€
}Z𝄞
};b;<,
éé	b>  {
bZ€]Z
)	 {
	:,
Z:b(
    :
𝄞
} {
    𝄞𝄞	€a<>	 
)
)

<>[:	𝄞;	b :€] {
éb
€
€é
 {
    [<
        a ] {
            ) 𝄞:Z[:;𝄞,
            𝄞
        >
𝄞]<
            𝄞<b
        }é[]	  ,
        )><
            €] {
                <
                    ,
                    é<
                        ,
                        éZ<
                            Z<
                                 {
                                     {
                                        <
                                            :  {
                                                
                                            >Za,
                                            ]a] <
                                                	]é(
                                                    Z,
                                                    a;Z {
                                                        :,
                                                        ]
                                                    >b]ébZ
 {
                                                         [
                                                    >
                                                >],
                                                
                                            >;
                                        >b
                                    >
                                >>><
                                    €").
Definition c504 : case := (";<€;(];)𝄞[)
>
}𝄞{}{,", ";<€;(];)𝄞[)
>

}𝄞 {

} {
,
").
Definition c505 : case := (">;
	]€𝄞<€] (𝄞};) ,,;:	)b€)[b𝄞	Zé}>{ b<]€:€, a
b [(é	 €,>,}<[	:]
 €;€<a}€>}b
b:> }]>{:a{b{{a[<]aZZ((Z[]
€<a}(é	}>][>bZ>)
;€>{	€Z<]b:<[€€;a})>	<b{
€	𝄞;}){ ,);:€(€€ (<}ééa<>,)é,Z>Zé	Z;>>)Z	é;>𝄞{{>Zb{Z𝄞)
](:{),):}𝄞>b	(Z)(,}>
€Z<((>{", ">;
	]€𝄞<€] (𝄞
};) ,
,
;:	)b€)[b𝄞	Zé
}> {
 b<]€:€,
 a
b [(
é	 €,
>,

}<[	:]
 €;€<a
}€>
}b
b:> 
}]> {
:a {
b {
 {
a[<]aZZ(
    (
        Z[]
€<a
    }(é	
}>][>bZ>)
;€> {
    	€Z<
        ]b:<[€€;a
    }
)>	<
    b {
        
€	𝄞;
    }
) {
     ,
    
);:€(€€ (<
}ééa<>, )é, Z>Zé	Z;
>
>)Z	é;>𝄞 {
 {
>Zb {
Z𝄞)
](
    : {
        
    ),
    ):
}𝄞>b	(Z)(
    ,
    
}>
€Z<(
    (
        > {
            ").
Definition c506 : case := ("<:é	:€[", "<
    :é	:€[").
Definition c507 : case := (")(€[ ;(é	,)a(:,
 {{(a,[;	b{	𝄞:[a𝄞(𝄞𝄞]}é,𝄞
", ")(
    €[ ;(é	, )a(
        :,
        
  {
             {
                (
                    a,
                    [;	b {
                        	𝄞:[a𝄞(
                            𝄞𝄞]
                        }é,
                        𝄞
").
Definition c508 : case := ("a
€>[>b	]b<],}𝄞>𝄞><𝄞 	<;b	[
", "a
€>[>b	]b<],

}𝄞>𝄞><
𝄞 	<
    ;b	[
").
Definition c509 : case := ("€Z}€é;>;;
); {b;	é
 €>𝄞Z}b	 }<Z	>>}]>a;:;[:[Z{Z
é;b
<)
aa(}a}:𝄞€
;)€€<)(Z]}>𝄞€<:€ é]é€:€, 
Z
<		
<
𝄞 𝄞
 ],[	: :;b:}(
ZZ}]]) ;>b>𝄞[	𝄞
a	b	€[>a}
bZ
:	
,,) ab<𝄞[):)	;Zé[{;Z{}[> (>[	é,<{ZZZ	}:€𝄞 <	,ZZ 	 
;a,{)>]b>", "€Z
}€é;>;;
);  {
b;	é
 €>𝄞Z
}b	 
}<Z	>>
}]>a;:;[:[Z {
Z
é;b
<
)
aa(
}a
}:𝄞€
;)€€<)(
Z]
}>𝄞€<
:€ é]é€:€,
 
Z
<
		
<
𝄞 𝄞
 ],
[	: :;b:
}(
ZZ
}]]) ;>b
>𝄞[	𝄞
a	b	€[
>a
}
bZ
:	
,
,

) ab<
𝄞[):)	;Zé[ {
;Z {

}[
> (

>[	é,
<
 {
ZZZ	
}:€𝄞 <
	,
ZZ 	 
;a,
 {

)
>]b
>").
Definition c510 : case := ("enum Option<ExecutorParams>{None,Some(struct ExecutorParams(Vec<enum ExecutorParam{MaxMemoryPages(u32),StackLogicalMax(u32),StackNativeMax(u32),PrecheckingMaxMemory(u64),PvfPrepTimeout(enum PvfPrepTimeoutKind{Precheck,Lenient},u64),PvfExecTimeout(enum PvfExecTimeoutKind{Backing,Approval},u64),WasmExtBulkMemory}>))}", "enum Option<ExecutorParams> {
    None,
    Some(
        struct ExecutorParams(
            Vec<
                enum ExecutorParam {
                    MaxMemoryPages(u32),
                    StackLogicalMax(u32),
                    StackNativeMax(u32),
                    PrecheckingMaxMemory(u64),
                    PvfPrepTimeout(
                        enum PvfPrepTimeoutKind {
                            Precheck,
                            Lenient
                        },
                        u64
                    ),
                    PvfExecTimeout(
                        enum PvfExecTimeoutKind {
                            Backing,
                            Approval
                        },
                        u64
                    ),
                    WasmExtBulkMemory
                }
            >
        )
    )
}").
Definition c511 : case := ("struct EquivocationProof<Header<u32,BlakeTwo256>,Public>{offender: struct Public(struct Public([u8; 32])),slot: struct Slot(u64),first_header: struct Header<u32,BlakeTwo256>{parent_hash: struct H256([u8; 32]),number: Compact<u32>,state_root: H256,extrinsics_root: H256,digest: struct Digest{logs: Vec<enum DigestItem{PreRuntime([u8; 4],Vec<u8>),Consensus([u8; 4],Vec<u8>),Seal([u8; 4],Vec<u8>),Other(Vec<u8>),RuntimeEnvironmentUpdated}>}},second_header: Header<u32,BlakeTwo256>}", "struct EquivocationProof<Header<u32,
BlakeTwo256>,
Public> {
    offender: struct Public(struct Public([u8; 32])),
    slot: struct Slot(u64),
    first_header: struct Header<u32,
    BlakeTwo256> {
        parent_hash: struct H256([u8; 32]),
        number: Compact<u32>,
        state_root: H256,
        extrinsics_root: H256,
        digest: struct Digest {
            logs: Vec<
                enum DigestItem {
                    PreRuntime([u8; 4], Vec<u8>),
                    Consensus([u8; 4], Vec<u8>),
                    Seal([u8; 4], Vec<u8>),
                    Other(Vec<u8>),
                    RuntimeEnvironmentUpdated
                }
            >
        }
    },
    second_header: Header<u32,
    BlakeTwo256>
}").
Definition c512 : case := ("enum Call<_>{bond{value: Compact<u128>,payee: enum RewardDestination<AccountId32>{Staked,Stash,Controller,Account(struct AccountId32([u8; 32])),None}},bond_extra{max_additional: Compact<u128>},unbond{value: Compact<u128>},withdraw_unbonded{num_slashing_spans: u32},validate{prefs: struct ValidatorPrefs{commission: Compact<struct Perbill(u32)>,blocked: bool}},nominate{targets: Vec<enum MultiAddress<AccountId32,()>{Id(AccountId32),Index(Compact<()>),Raw(Vec<u8>),Address32([u8; 32]),Address20([u8; 20])}>},chill,set_payee{payee: RewardDestination<AccountId32>},set_controller,set_validator_count{new: Compact<u32>},increase_validator_count{additional: Compact<u32>},scale_validator_count{factor: struct Percent(u8)},force_no_eras,force_new_era,set_invulnerables{invulnerables: Vec<AccountId32>},force_unstake{stash: AccountId32,num_slashing_spans: u32},force_new_era_always,cancel_deferred_slash{era: u32,slash_indices: Vec<u32>},payout_stakers{validator_stash: AccountId32,era: u32},rebond{value: Compact<u128>},reap_stash{stash: AccountId32,num_slashing_spans: u32},kick{who: Vec<enum MultiAddress<AccountId32,()>{Id(AccountId32),Index(Compact<()>),Raw(Vec<u8>),Address32([u8; 32]),Address20([u8; 20])}>},set_staking_configs{min_nominator_bond: enum ConfigOp<u128>{Noop,Set(u128),Remove},min_validator_bond: ConfigOp<u128>,max_nominator_count: enum ConfigOp<u32>{Noop,Set(u32),Remove},max_validator_count: ConfigOp<u32>,chill_threshold: enum ConfigOp<Percent>{Noop,Set(Percent),Remove},min_commission: enum ConfigOp<Perbill>{Noop,Set(Perbill),Remove}},chill_other{controller: AccountId32},force_apply_min_commission{validator_stash: AccountId32},set_min_commission{new: Perbill}}", "enum Call<_> {
    bond {
        value: Compact<u128>,
        payee: enum RewardDestination<AccountId32> {
            Staked,
            Stash,
            Controller,
            Account(struct AccountId32([u8; 32])),
            None
        }
    },
    bond_extra {
        max_additional: Compact<u128>
    },
    unbond {
        value: Compact<u128>
    },
    withdraw_unbonded {
        num_slashing_spans: u32
    },
    validate {
        prefs: struct ValidatorPrefs {
            commission: Compact<struct Perbill(u32)>,
            blocked: bool
        }
    },
    nominate {
        targets: Vec<
            enum MultiAddress<AccountId32,
            ()> {
                Id(AccountId32),
                Index(Compact<()>),
                Raw(Vec<u8>),
                Address32([u8; 32]),
                Address20([u8; 20])
            }
        >
    },
    chill,
    set_payee {
        payee: RewardDestination<AccountId32>
    },
    set_controller,
    set_validator_count {
        new: Compact<u32>
    },
    increase_validator_count {
        additional: Compact<u32>
    },
    scale_validator_count {
        factor: struct Percent(u8)
    },
    force_no_eras,
    force_new_era,
    set_invulnerables {
        invulnerables: Vec<AccountId32>
    },
    force_unstake {
        stash: AccountId32,
        num_slashing_spans: u32
    },
    force_new_era_always,
    cancel_deferred_slash {
        era: u32,
        slash_indices: Vec<u32>
    },
    payout_stakers {
        validator_stash: AccountId32,
        era: u32
    },
    rebond {
        value: Compact<u128>
    },
    reap_stash {
        stash: AccountId32,
        num_slashing_spans: u32
    },
    kick {
        who: Vec<
            enum MultiAddress<AccountId32,
            ()> {
                Id(AccountId32),
                Index(Compact<()>),
                Raw(Vec<u8>),
                Address32([u8; 32]),
                Address20([u8; 20])
            }
        >
    },
    set_staking_configs {
        min_nominator_bond: enum ConfigOp<u128> {
            Noop,
            Set(u128),
            Remove
        },
        min_validator_bond: ConfigOp<u128>,
        max_nominator_count: enum ConfigOp<u32> {
            Noop,
            Set(u32),
            Remove
        },
        max_validator_count: ConfigOp<u32>,
        chill_threshold: enum ConfigOp<Percent> {
            Noop,
            Set(Percent),
            Remove
        },
        min_commission: enum ConfigOp<Perbill> {
            Noop,
            Set(Perbill),
            Remove
        }
    },
    chill_other {
        controller: AccountId32
    },
    force_apply_min_commission {
        validator_stash: AccountId32
    },
    set_min_commission {
        new: Perbill
    }
}").
Definition c513 : case := ("[u8; 12]", "[u8; 12]").
Definition cases : list (case) := [c0; c1; c2; c3; c4; c5; c6; c7; c8; c9; c10; c11; c12; c13; c14; c15; c16; c17; c18; c19; c20; c21; c22; c23; c24; c25; c26; c27; c28; c29; c30; c31; c32; c33; c34; c35; c36; c37; c38; c39; c40; c41; c42; c43; c44; c45; c46; c47; c48; c49; c50; c51; c52; c53; c54; c55; c56; c57; c58; c59; c60; c61; c62; c63; c64; c65; c66; c67; c68; c69; c70; c71; c72; c73; c74; c75; c76; c77; c78; c79; c80; c81; c82; c83; c84; c85; c86; c87; c88; c89; c90; c91; c92; c93; c94; c95; c96; c97; c98; c99; c100; c101; c102; c103; c104; c105; c106; c107; c108; c109; c110; c111; c112; c113; c114; c115; c116; c117; c118; c119; c120; c121; c122; c123; c124; c125; c126; c127; c128; c129; c130; c131; c132; c133; c134; c135; c136; c137; c138; c139; c140; c141; c142; c143; c144; c145; c146; c147; c148; c149; c150; c151; c152; c153; c154; c155; c156; c157; c158; c159; c160; c161; c162; c163; c164; c165; c166; c167; c168; c169; c170; c171; c172; c173; c174; c175; c176; c177; c178; c179; c180; c181; c182; c183; c184; c185; c186; c187; c188; c189; c190; c191; c192; c193; c194; c195; c196; c197; c198; c199; c200; c201; c202; c203; c204; c205; c206; c207; c208; c209; c210; c211; c212; c213; c214; c215; c216; c217; c218; c219; c220; c221; c222; c223; c224; c225; c226; c227; c228; c229; c230; c231; c232; c233; c234; c235; c236; c237; c238; c239; c240; c241; c242; c243; c244; c245; c246; c247; c248; c249; c250; c251; c252; c253; c254; c255; c256; c257; c258; c259; c260; c261; c262; c263; c264; c265; c266; c267; c268; c269; c270; c271; c272; c273; c274; c275; c276; c277; c278; c279; c280; c281; c282; c283; c284; c285; c286; c287; c288; c289; c290; c291; c292; c293; c294; c295; c296; c297; c298; c299; c300; c301; c302; c303; c304; c305; c306; c307; c308; c309; c310; c311; c312; c313; c314; c315; c316; c317; c318; c319; c320; c321; c322; c323; c324; c325; c326; c327; c328; c329; c330; c331; c332; c333; c334; c335; c336; c337; c338; c339; c340; c341; c342; c343; c344; c345; c346; c347; c348; c349; c350; c351; c352; c353; c354; c355; c356; c357; c358; c359; c360; c361; c362; c363; c364; c365; c366; c367; c368; c369; c370; c371; c372; c373; c374; c375; c376; c377; c378; c379; c380; c381; c382; c383; c384; c385; c386; c387; c388; c389; c390; c391; c392; c393; c394; c395; c396; c397; c398; c399; c400; c401; c402; c403; c404; c405; c406; c407; c408; c409; c410; c411; c412; c413; c414; c415; c416; c417; c418; c419; c420; c421; c422; c423; c424; c425; c426; c427; c428; c429; c430; c431; c432; c433; c434; c435; c436; c437; c438; c439; c440; c441; c442; c443; c444; c445; c446; c447; c448; c449; c450; c451; c452; c453; c454; c455; c456; c457; c458; c459; c460; c461; c462; c463; c464; c465; c466; c467; c468; c469; c470; c471; c472; c473; c474; c475; c476; c477; c478; c479; c480; c481; c482; c483; c484; c485; c486; c487; c488; c489; c490; c491; c492; c493; c494; c495; c496; c497; c498; c499; c500; c501; c502; c503; c504; c505; c506; c507; c508; c509; c510; c511; c512; c513].
Eval vm_compute in ("corr_exact"%string, failing (corr_exact) cases).
Eval vm_compute in ("corr_stream"%string, failing (corr_stream) cases).
Eval vm_compute in ("prop_ws"%string, failing (prop_ws) cases).
Eval vm_compute in ("prop_discipline"%string, failing (prop_discipline) cases).
