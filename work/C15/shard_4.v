From Coq Require Import List NArith String.
From V Require Import Base.Util Corr.RunC15.
Import ListNotations. Open Scope string_scope.
Definition c0 : case := (")", ")").
Definition c1 : case := ("}}", "
}
}").
Definition c2 : case := ("( ", "(
     ").
Definition c3 : case := ("<,", "<
    ,
    ").
Definition c4 : case := (",<", ",
<
    ").
Definition c5 : case := (" (", " (
    ").
Definition c6 : case := ("{}{", " {
    
} {
    ").
Definition c7 : case := ("{(a", " {
    (
        a").
Definition c8 : case := ("{<>", " {
    <>").
Definition c9 : case := ("{,)", " {
    ,
    )").
Definition c10 : case := ("{ }", " {
     
}").
Definition c11 : case := ("}{ ", "
} {
 ").
Definition c12 : case := ("}(,", "
}(
,
").
Definition c13 : case := ("}<<", "
}<
<
    ").
Definition c14 : case := ("},(", "
},
(
").
Definition c15 : case := ("} {", "
}  {
").
Definition c16 : case := ("({a", "(
     {
        a").
Definition c17 : case := ("((>", "(
    (
        >").
Definition c18 : case := ("(<)", "(<
    )").
Definition c19 : case := ("(,}", "(
    ,
    
}").
Definition c20 : case := ("(a ", "(
    a ").
Definition c21 : case := ("){,", ") {
    ,
    ").
Definition c22 : case := (")(<", ")(
    <
        ").
Definition c23 : case := (")<(", ")<
    (
        ").
Definition c24 : case := ("),{", "),
 {
    ").
Definition c25 : case := (")aa", ")aa").
Definition c26 : case := ("<{>", "<
     {
        
    >").
Definition c27 : case := ("<()", "<
    ()").
Definition c28 : case := ("<<}", "<
    <
        
    }").
Definition c29 : case := ("<> ", "<> ").
Definition c30 : case := ("<a,", "<
    a,
    ").
Definition c31 : case := (">{<", "> {
    <
        ").
Definition c32 : case := (">((", ">(
    (
        ").
Definition c33 : case := ("><{", "><
     {
        ").
Definition c34 : case := (">>a", ">>a").
Definition c35 : case := (">a>", ">a>").
Definition c36 : case := (",{)", ",
 {
    )").
Definition c37 : case := (",(}", ",
(
    
}").
Definition c38 : case := (",) ", ",
) ").
Definition c39 : case := (",>,", ",
>,
").
Definition c40 : case := (",a<", ",
a<
    ").
Definition c41 : case := ("a{(", "a {
    (
        ").
Definition c42 : case := ("a({", "a(
     {
        ").
Definition c43 : case := ("a)a", "a)a").
Definition c44 : case := ("a>>", "a>>").
Definition c45 : case := ("aa)", "aa)").
Definition c46 : case := (" {}", "  {
    
}").
Definition c47 : case := (" } ", " 
} ").
Definition c48 : case := (" ),", " ),
").
Definition c49 : case := (" ><", " ><
    ").
Definition c50 : case := (" a(", " a(
    ").
Definition c51 : case := ("{{{{", " {
     {
         {
             {
                ").
Definition c52 : case := ("{{}a", " {
     {
        
    }a").
Definition c53 : case := ("{{)>", " {
     {
        )>").
Definition c54 : case := ("{{>)", " {
     {
        >)").
Definition c55 : case := ("{{a}", " {
     {
        a
    }").
Definition c56 : case := ("{{  ", " {
     {
          ").
Definition c57 : case := ("{}},", " {
    
}
},
").
Definition c58 : case := ("{})<", " {
    
})<
    ").
Definition c59 : case := ("{}>(", " {
    
}>(
    ").
Definition c60 : case := ("{}a{", " {
    
}a {
    ").
Definition c61 : case := ("{} a", " {
    
} a").
Definition c62 : case := ("{(}>", " {
    (
        
    }>").
Definition c63 : case := ("{())", " {
    ())").
Definition c64 : case := ("{(>}", " {
    (
        >
    }").
Definition c65 : case := ("{(, ", " {
    (
        ,
         ").
Definition c66 : case := ("{( ,", " {
    (
         ,
        ").
Definition c67 : case := ("{)}<", " {
    )
}<
    ").
Definition c68 : case := ("{))(", " {
    ))(
        ").
Definition c69 : case := ("{)>{", " {
    )> {
        ").
Definition c70 : case := ("{),a", " {
    ),
    a").
Definition c71 : case := ("{) >", " {
    ) >").
Definition c72 : case := ("{<})", " {
    <
        
    })").
Definition c73 : case := ("{<)}", " {
    <
        )
    }").
Definition c74 : case := ("{<< ", " {
    <
        <
             ").
Definition c75 : case := ("{<,,", " {
    <
        ,
        ,
        ").
Definition c76 : case := ("{< <", " {
    <
         <
            ").
Definition c77 : case := ("{>}(", " {
    >
}(
    ").
Definition c78 : case := ("{>){", " {
    >) {
        ").
Definition c79 : case := ("{><a", " {
    ><
        a").
Definition c80 : case := ("{>,>", " {
    >,
    >").
Definition c81 : case := ("{> )", " {
    > )").
Definition c82 : case := ("{,}}", " {
    ,
    
}
}").
Definition c83 : case := ("{,( ", " {
    ,
    (
         ").
Definition c84 : case := ("{,<,", " {
    ,
    <
        ,
        ").
Definition c85 : case := ("{,,<", " {
    ,
    ,
    <
        ").
Definition c86 : case := ("{, (", " {
    ,
     (
        ").
Definition c87 : case := ("{a}{", " {
    a
} {
    ").
Definition c88 : case := ("{a(a", " {
    a(
        a").
Definition c89 : case := ("{a<>", " {
    a<>").
Definition c90 : case := ("{a,)", " {
    a,
    )").
Definition c91 : case := ("{a }", " {
    a 
}").
Definition c92 : case := ("{ { ", " {
      {
         ").
Definition c93 : case := ("{ (,", " {
     (
        ,
        ").
Definition c94 : case := ("{ <<", " {
     <
        <
            ").
Definition c95 : case := ("{ ,(", " {
     ,
    (
        ").
Definition c96 : case := ("{  {", " {
       {
        ").
Definition c97 : case := ("}{{a", "
} {
 {
    a").
Definition c98 : case := ("}{(>", "
} {
(
    >").
Definition c99 : case := ("}{<)", "
} {
<
    )").
Definition c100 : case := ("}{,}", "
} {
,

}").
Definition c101 : case := ("}{a ", "
} {
a ").
Definition c102 : case := ("}}{,", "
}
} {
,
").
Definition c103 : case := ("}}(<", "
}
}(
<
").
Definition c104 : case := ("}}<(", "
}
}<
(
").
Definition c105 : case := ("}},{", "
}
},
 {
").
Definition c106 : case := ("}}aa", "
}
}aa").
Definition c107 : case := ("}({>", "
}(
 {
    >").
Definition c108 : case := ("}(()", "
}(
()").
Definition c109 : case := ("}(<}", "
}(
<
    
}").
Definition c110 : case := ("}(> ", "
}(
> ").
Definition c111 : case := ("}(a,", "
}(
a,
").
Definition c112 : case := ("}){<", "
}) {
<
    ").
Definition c113 : case := ("})((", "
})(
(
    ").
Definition c114 : case := ("})<{", "
})<
 {
    ").
Definition c115 : case := ("})>a", "
})>a").
Definition c116 : case := ("})a>", "
})a>").
Definition c117 : case := ("}<{)", "
}<
 {
    )").
Definition c118 : case := ("}<(}", "
}<
(
    
}").
Definition c119 : case := ("}<) ", "
}<
) ").
Definition c120 : case := ("}<>,", "
}<>,
").
Definition c121 : case := ("}<a<", "
}<
a<
    ").
Definition c122 : case := ("}>{(", "
}> {
(
    ").
Definition c123 : case := ("}>({", "
}>(
 {
    ").
Definition c124 : case := ("}>)a", "
}>)a").
Definition c125 : case := ("}>>>", "
}>>>").
Definition c126 : case := ("}>a)", "
}>a)").
Definition c127 : case := ("},{}", "
},
 {

}").
Definition c128 : case := ("},} ", "
},

} ").
Definition c129 : case := ("},),", "
},
),
").
Definition c130 : case := ("},><", "
},
><
").
Definition c131 : case := ("},a(", "
},
a(
").
Definition c132 : case := ("}a{{", "
}a {
 {
    ").
Definition c133 : case := ("}a}a", "
}a
}a").
Definition c134 : case := ("}a)>", "
}a)>").
Definition c135 : case := ("}a>)", "
}a>)").
Definition c136 : case := ("}aa}", "
}aa
}").
Definition c137 : case := ("}a  ", "
}a  ").
Definition c138 : case := ("} },", "
} 
},
").
Definition c139 : case := ("} )<", "
} )<
").
Definition c140 : case := ("} >(", "
} >(
").
Definition c141 : case := ("} a{", "
} a {
").
Definition c142 : case := ("}  a", "
}  a").
Definition c143 : case := ("({}>", "(
     {
        
    }>").
Definition c144 : case := ("({))", "(
     {
        
    ))").
Definition c145 : case := ("({>}", "(
     {
        >
    }").
Definition c146 : case := ("({, ", "(
     {
        ,
         ").
Definition c147 : case := ("({ ,", "(
     {
         ,
        ").
Definition c148 : case := ("(}}<", "(
    
}
}<
").
Definition c149 : case := ("(})(", "(
})(
").
Definition c150 : case := ("(}>{", "(
    
}> {
    ").
Definition c151 : case := ("(},a", "(
    
},
a").
Definition c152 : case := ("(} >", "(
    
} >").
Definition c153 : case := ("((})", "(
    (
})").
Definition c154 : case := ("(()}", "(
    ()
}").
Definition c155 : case := ("((< ", "(
    (
        <
             ").
Definition c156 : case := ("((,,", "(
    (
        ,
        ,
        ").
Definition c157 : case := ("(( <", "(
    (
         <
            ").
Definition c158 : case := ("()}(", "()
}(
").
Definition c159 : case := ("()){", "()) {
    ").
Definition c160 : case := ("()<a", "()<
    a").
Definition c161 : case := ("(),>", "(),
>").
Definition c162 : case := ("() )", "() )").
Definition c163 : case := ("(<}}", "(
    <
        
    }
}").
Definition c164 : case := ("(<( ", "(
    <
        (
             ").
Definition c165 : case := ("(<<,", "(
    <
        <
            ,
            ").
Definition c166 : case := ("(<,<", "(
    <
        ,
        <
            ").
Definition c167 : case := ("(< (", "(
    <
         (
            ").
Definition c168 : case := ("(>}{", "(
    >
} {
    ").
Definition c169 : case := ("(>(a", "(
    >(
        a").
Definition c170 : case := ("(><>", "(
    ><>").
Definition c171 : case := ("(>,)", "(>, )").
Definition c172 : case := ("(> }", "(
    > 
}").
Definition c173 : case := ("(,{ ", "(
    ,
     {
         ").
Definition c174 : case := ("(,(,", "(
    ,
    (
        ,
        ").
Definition c175 : case := ("(,<<", "(
    ,
    <
        <
            ").
Definition c176 : case := ("(,,(", "(
    ,
    ,
    (
        ").
Definition c177 : case := ("(, {", "(
    ,
      {
        ").
Definition c178 : case := ("(a{a", "(
    a {
        a").
Definition c179 : case := ("(a(>", "(
    a(
        >").
Definition c180 : case := ("(a<)", "(a<
    )").
Definition c181 : case := ("(a,}", "(
    a,
    
}").
Definition c182 : case := ("(aa ", "(
    aa ").
Definition c183 : case := ("( {,", "(
      {
        ,
        ").
Definition c184 : case := ("( (<", "(
     (
        <
            ").
Definition c185 : case := ("( <(", "(
     <
        (
            ").
Definition c186 : case := ("( ,{", "(
     ,
     {
        ").
Definition c187 : case := ("( aa", "(
     aa").
Definition c188 : case := ("){{>", ") {
     {
        >").
Definition c189 : case := ("){()", ") {
    ()").
Definition c190 : case := ("){<}", ") {
    <
        
    }").
Definition c191 : case := ("){> ", ") {
    > ").
Definition c192 : case := ("){a,", ") {
    a,
    ").
Definition c193 : case := (")}{<", ")
} {
<
    ").
Definition c194 : case := (")}((", ")
}(
(
    ").
Definition c195 : case := (")}<{", ")
}<
 {
    ").
Definition c196 : case := (")}>a", ")
}>a").
Definition c197 : case := (")}a>", ")
}a>").
Definition c198 : case := (")({)", ")(
     {
        
    )").
Definition c199 : case := (")((}", ")(
    (
        
    }").
Definition c200 : case := (")() ", ")() ").
Definition c201 : case := (")(>,", ")(
    >,
    ").
Definition c202 : case := (")(a<", ")(
    a<
        ").
Definition c203 : case := (")){(", ")) {
    (
        ").
Definition c204 : case := ("))({", "))(
     {
        ").
Definition c205 : case := (")))a", ")))a").
Definition c206 : case := ("))>>", "))>>").
Definition c207 : case := ("))a)", "))a)").
Definition c208 : case := (")<{}", ")<
     {
        
    }").
Definition c209 : case := (")<} ", ")<
    
} ").
Definition c210 : case := (")<),", ")<
    ),
    ").
Definition c211 : case := (")<><", ")<><
    ").
Definition c212 : case := (")<a(", ")<
    a(
        ").
Definition c213 : case := (")>{{", ")> {
     {
        ").
Definition c214 : case := (")>}a", ")>
}a").
Definition c215 : case := (")>)>", ")>)>").
Definition c216 : case := (")>>)", ")>>)").
Definition c217 : case := (")>a}", ")>a
}").
Definition c218 : case := (")>  ", ")>  ").
Definition c219 : case := ("),},", "),

},
").
Definition c220 : case := ("),)<", "),
)<
    ").
Definition c221 : case := ("),>(", "),
>(
    ").
Definition c222 : case := ("),a{", "),
a {
    ").
Definition c223 : case := ("), a", "),
 a").
Definition c224 : case := (")a}>", ")a
}>").
Definition c225 : case := (")a))", ")a))").
Definition c226 : case := (")a>}", ")a>
}").
Definition c227 : case := (")a, ", ")a,
 ").
Definition c228 : case := (")a ,", ")a ,
").
Definition c229 : case := (") }<", ") 
}<
").
Definition c230 : case := (") )(", ") )(
    ").
Definition c231 : case := (") >{", ") > {
    ").
Definition c232 : case := (") ,a", ") ,
a").
Definition c233 : case := (")  >", ")  >").
Definition c234 : case := ("<{})", "<
     {
        
    })").
Definition c235 : case := ("<{)}", "<
     {
        )
    }").
Definition c236 : case := ("<{< ", "<
     {
        <
             ").
Definition c237 : case := ("<{,,", "<
     {
        ,
        ,
        ").
Definition c238 : case := ("<{ <", "<
     {
         <
            ").
Definition c239 : case := ("<}}(", "<
    
}
}(
").
Definition c240 : case := ("<}){", "<
    
}) {
    ").
Definition c241 : case := ("<}<a", "<
    
}<
    a").
Definition c242 : case := ("<},>", "<
},
>").
Definition c243 : case := ("<} )", "<
    
} )").
Definition c244 : case := ("<(}}", "<
    (
        
    }
}").
Definition c245 : case := ("<(( ", "<
    (
        (
             ").
Definition c246 : case := ("<(<,", "<
    (
        <
            ,
            ").
Definition c247 : case := ("<(,<", "<
    (
        ,
        <
            ").
Definition c248 : case := ("<( (", "<
    (
         (
            ").
Definition c249 : case := ("<)}{", "<
    )
} {
    ").
Definition c250 : case := ("<)(a", "<
    )(
        a").
Definition c251 : case := ("<)<>", "<
    )<>").
Definition c252 : case := ("<),)", "<
    ),
    )").
Definition c253 : case := ("<) }", "<
    ) 
}").
Definition c254 : case := ("<<{ ", "<
    <
         {
             ").
Definition c255 : case := ("<<(,", "<
    <
        (
            ,
            ").
Definition c256 : case := ("<<<<", "<
    <
        <
            <
                ").
Definition c257 : case := ("<<,(", "<
    <
        ,
        (
            ").
Definition c258 : case := ("<< {", "<
    <
          {
            ").
Definition c259 : case := ("<>{a", "<> {
    a").
Definition c260 : case := ("<>(>", "<>(
    >").
Definition c261 : case := ("<><)", "<><
    )").
Definition c262 : case := ("<>,}", "<>,

}").
Definition c263 : case := ("<>a ", "<>a ").
Definition c264 : case := ("<,{,", "<
    ,
     {
        ,
        ").
Definition c265 : case := ("<,(<", "<
    ,
    (
        <
            ").
Definition c266 : case := ("<,<(", "<
    ,
    <
        (
            ").
Definition c267 : case := ("<,,{", "<
    ,
    ,
     {
        ").
Definition c268 : case := ("<,aa", "<
    ,
    aa").
Definition c269 : case := ("<a{>", "<
    a {
        
    >").
Definition c270 : case := ("<a()", "<
    a()").
Definition c271 : case := ("<a<}", "<
    a<
        
    }").
Definition c272 : case := ("<a> ", "<a> ").
Definition c273 : case := ("<aa,", "<
    aa,
    ").
Definition c274 : case := ("< {<", "<
      {
        <
            ").
Definition c275 : case := ("< ((", "<
     (
        (
            ").
Definition c276 : case := ("< <{", "<
     <
         {
            ").
Definition c277 : case := ("< >a", "< >a").
Definition c278 : case := ("< a>", "< a>").
Definition c279 : case := (">{{)", "> {
     {
        )").
Definition c280 : case := (">{(}", "> {
    (
        
    }").
Definition c281 : case := (">{) ", "> {
    ) ").
Definition c282 : case := (">{>,", "> {
    >,
    ").
Definition c283 : case := (">{a<", "> {
    a<
        ").
Definition c284 : case := (">}{(", ">
} {
(
    ").
Definition c285 : case := (">}({", ">
}(
 {
    ").
Definition c286 : case := (">})a", ">
})a").
Definition c287 : case := (">}>>", ">
}>>").
Definition c288 : case := (">}a)", ">
}a)").
Definition c289 : case := (">({}", ">(
     {
        
    }").
Definition c290 : case := (">(} ", ">(
    
} ").
Definition c291 : case := (">(),", ">(),
").
Definition c292 : case := (">(><", ">(
    ><
        ").
Definition c293 : case := (">(a(", ">(
    a(
        ").
Definition c294 : case := (">){{", ">) {
     {
        ").
Definition c295 : case := (">)}a", ">)
}a").
Definition c296 : case := (">))>", ">))>").
Definition c297 : case := (">)>)", ">)>)").
Definition c298 : case := (">)a}", ">)a
}").
Definition c299 : case := (">)  ", ">)  ").
Definition c300 : case := ("><},", "><
    
},
").
Definition c301 : case := ("><)<", "><
    )<
        ").
Definition c302 : case := ("><>(", "><>(
    ").
Definition c303 : case := ("><a{", "><
    a {
        ").
Definition c304 : case := (">< a", "><
     a").
Definition c305 : case := (">>}>", ">>
}>").
Definition c306 : case := (">>))", ">>))").
Definition c307 : case := (">>>}", ">>>
}").
Definition c308 : case := (">>, ", ">>,
 ").
Definition c309 : case := (">> ,", ">> ,
").
Definition c310 : case := (">,}<", ">,

}<
").
Definition c311 : case := (">,)(", ">,
)(
    ").
Definition c312 : case := (">,>{", ">,
> {
    ").
Definition c313 : case := (">,,a", ">,
,
a").
Definition c314 : case := (">, >", ">,
 >").
Definition c315 : case := (">a})", ">a
})").
Definition c316 : case := (">a)}", ">a)
}").
Definition c317 : case := (">a< ", ">a<
     ").
Definition c318 : case := (">a,,", ">a,
,
").
Definition c319 : case := (">a <", ">a <
    ").
Definition c320 : case := ("> }(", "> 
}(
").
Definition c321 : case := ("> ){", "> ) {
    ").
Definition c322 : case := ("> <a", "> <
    a").
Definition c323 : case := ("> ,>", "> ,
>").
Definition c324 : case := (">  )", ">  )").
Definition c325 : case := (",{}}", ",
 {
    
}
}").
Definition c326 : case := (",{( ", ",
 {
    (
         ").
Definition c327 : case := (",{<,", ",
 {
    <
        ,
        ").
Definition c328 : case := (",{,<", ",
 {
    ,
    <
        ").
Definition c329 : case := (",{ (", ",
 {
     (
        ").
Definition c330 : case := (",}}{", ",

}
} {
").
Definition c331 : case := (",}(a", ",

}(
a").
Definition c332 : case := (",}<>", ",

}<>").
Definition c333 : case := (",},)", ",

},
)").
Definition c334 : case := (",} }", ",

} 
}").
Definition c335 : case := (",({ ", ",
(
     {
         ").
Definition c336 : case := (",((,", ",
(
    (
        ,
        ").
Definition c337 : case := (",(<<", ",
(
    <
        <
            ").
Definition c338 : case := (",(,(", ",
(
    ,
    (
        ").
Definition c339 : case := (",( {", ",
(
      {
        ").
Definition c340 : case := (",){a", ",
) {
    a").
Definition c341 : case := (",)(>", ",
)(
    >").
Definition c342 : case := (",)<)", ",
)<
    )").
Definition c343 : case := (",),}", ",
),

}").
Definition c344 : case := (",)a ", ",
)a ").
Definition c345 : case := (",<{,", ",
<
     {
        ,
        ").
Definition c346 : case := (",<(<", ",
<
    (
        <
            ").
Definition c347 : case := (",<<(", ",
<
    <
        (
            ").
Definition c348 : case := (",<,{", ",
<
    ,
     {
        ").
Definition c349 : case := (",<aa", ",
<
    aa").
Definition c350 : case := (",>{>", ",
> {
    >").
Definition c351 : case := (",>()", ",
>()").
Definition c352 : case := (",><}", ",
><
    
}").
Definition c353 : case := (",>> ", ",
>> ").
Definition c354 : case := (",>a,", ",
>a,
").
Definition c355 : case := (",,{<", ",
,
 {
    <
        ").
Definition c356 : case := (",,((", ",
,
(
    (
        ").
Definition c357 : case := (",,<{", ",
,
<
     {
        ").
Definition c358 : case := (",,>a", ",
,
>a").
Definition c359 : case := (",,a>", ",
,
a>").
Definition c360 : case := (",a{)", ",
a {
    )").
Definition c361 : case := (",a(}", ",
a(
    
}").
Definition c362 : case := (",a) ", ",
a) ").
Definition c363 : case := (",a>,", ",
a>,
").
Definition c364 : case := (",aa<", ",
aa<
    ").
Definition c365 : case := (", {(", ",
  {
    (
        ").
Definition c366 : case := (", ({", ",
 (
     {
        ").
Definition c367 : case := (", )a", ",
 )a").
Definition c368 : case := (", >>", ",
 >>").
Definition c369 : case := (", a)", ",
 a)").
Definition c370 : case := ("a{{}", "a {
     {
        
    }").
Definition c371 : case := ("a{} ", "a {
    
} ").
Definition c372 : case := ("a{),", "a {
    ),
    ").
Definition c373 : case := ("a{><", "a {
    ><
        ").
Definition c374 : case := ("a{a(", "a {
    a(
        ").
Definition c375 : case := ("a}{{", "a
} {
 {
    ").
Definition c376 : case := ("a}}a", "a
}
}a").
Definition c377 : case := ("a})>", "a
})>").
Definition c378 : case := ("a}>)", "a
}>)").
Definition c379 : case := ("a}a}", "a
}a
}").
Definition c380 : case := ("a}  ", "a
}  ").
Definition c381 : case := ("a(},", "a(
    
},
").
Definition c382 : case := ("a()<", "a()<
    ").
Definition c383 : case := ("a(>(", "a(
    >(
        ").
Definition c384 : case := ("a(a{", "a(
    a {
        ").
Definition c385 : case := ("a( a", "a(
     a").
Definition c386 : case := ("a)}>", "a)
}>").
Definition c387 : case := ("a)))", "a)))").
Definition c388 : case := ("a)>}", "a)>
}").
Definition c389 : case := ("a), ", "a),
 ").
Definition c390 : case := ("a) ,", "a) ,
").
Definition c391 : case := ("a<}<", "a<
    
}<
    ").
Definition c392 : case := ("a<)(", "a<
    )(
        ").
Definition c393 : case := ("a<>{", "a<> {
    ").
Definition c394 : case := ("a<,a", "a<
    ,
    a").
Definition c395 : case := ("a< >", "a< >").
Definition c396 : case := ("a>})", "a>
})").
Definition c397 : case := ("a>)}", "a>)
}").
Definition c398 : case := ("a>< ", "a><
     ").
Definition c399 : case := ("a>,,", "a>,
,
").
Definition c400 : case := ("a> <", "a> <
    ").
Definition c401 : case := ("a,}(", "a,

}(
").
Definition c402 : case := ("a,){", "a,
) {
    ").
Definition c403 : case := ("a,<a", "a,
<
    a").
Definition c404 : case := ("a,,>", "a,
,
>").
Definition c405 : case := ("a, )", "a,
 )").
Definition c406 : case := ("aa}}", "aa
}
}").
Definition c407 : case := ("aa( ", "aa(
     ").
Definition c408 : case := ("aa<,", "aa<
    ,
    ").
Definition c409 : case := ("aa,<", "aa,
<
    ").
Definition c410 : case := ("aa (", "aa (
    ").
Definition c411 : case := ("a }{", "a 
} {
").
Definition c412 : case := ("a (a", "a (
    a").
Definition c413 : case := ("a <>", "a <>").
Definition c414 : case := ("a ,)", "a ,
)").
Definition c415 : case := ("a  }", "a  
}").
Definition c416 : case := (" {{ ", "  {
     {
         ").
Definition c417 : case := (" {(,", "  {
    (
        ,
        ").
Definition c418 : case := (" {<<", "  {
    <
        <
            ").
Definition c419 : case := (" {,(", "  {
    ,
    (
        ").
Definition c420 : case := (" { {", "  {
      {
        ").
Definition c421 : case := (" }{a", " 
} {
a").
Definition c422 : case := (" }(>", " 
}(
>").
Definition c423 : case := (" }<)", " 
}<
)").
Definition c424 : case := (" },}", " 
},

}").
Definition c425 : case := (" }a ", " 
}a ").
Definition c426 : case := (" ({,", " (
     {
        ,
        ").
Definition c427 : case := (" ((<", " (
    (
        <
            ").
Definition c428 : case := (" (<(", " (
    <
        (
            ").
Definition c429 : case := (" (,{", " (
    ,
     {
        ").
Definition c430 : case := (" (aa", " (
    aa").
Definition c431 : case := (" ){>", " ) {
    >").
Definition c432 : case := (" )()", " )()").
Definition c433 : case := (" )<}", " )<
    
}").
Definition c434 : case := (" )> ", " )> ").
Definition c435 : case := (" )a,", " )a,
").
Definition c436 : case := (" <{<", " <
     {
        <
            ").
Definition c437 : case := (" <((", " <
    (
        (
            ").
Definition c438 : case := (" <<{", " <
    <
         {
            ").
Definition c439 : case := (" <>a", " <>a").
Definition c440 : case := (" <a>", " <a>").
Definition c441 : case := (" >{)", " > {
    )").
Definition c442 : case := (" >(}", " >(
    
}").
Definition c443 : case := (" >) ", " >) ").
Definition c444 : case := (" >>,", " >>,
").
Definition c445 : case := (" >a<", " >a<
    ").
Definition c446 : case := (" ,{(", " ,
 {
    (
        ").
Definition c447 : case := (" ,({", " ,
(
     {
        ").
Definition c448 : case := (" ,)a", " ,
)a").
Definition c449 : case := (" ,>>", " ,
>>").
Definition c450 : case := (" ,a)", " ,
a)").
Definition c451 : case := (" a{}", " a {
    
}").
Definition c452 : case := (" a} ", " a
} ").
Definition c453 : case := (" a),", " a),
").
Definition c454 : case := (" a><", " a><
    ").
Definition c455 : case := (" aa(", " aa(
    ").
Definition c456 : case := ("  {{", "   {
     {
        ").
Definition c457 : case := ("  }a", "  
}a").
Definition c458 : case := ("  )>", "  )>").
Definition c459 : case := ("  >)", "  >)").
Definition c460 : case := ("  a}", "  a
}").
Definition c461 : case := ("    ", "    ").
Definition c462 : case := ("a<bbééba,,ééb,é,éaba,ébabéébébababa,>)", "a<
    bbééba,
    ,
    ééb,
    é,
    éaba,
    ébabéébébababa,
    
>)").
Definition c463 : case := ("x{<,,ébéb,,éb,,b,,éaaéb,,,a>", "x {
    <,
    ,
    ébéb,
    ,
    éb,
    ,
    b,
    ,
    éaaéb,
    ,
    ,
    a>").
Definition c464 : case := ("x{((a)a,,aabébaab,b,babéaab,b,bbbé,aaééb,aa)", "x {
    (
        (a)a,
        ,
        aabébaab,
        b,
        babéaab,
        b,
        bbbé,
        aaééb,
        aa
    )").
Definition c465 : case := ("x{<éébb,aééabbaééé,é{éab,aa,éaaaé>,a", "x {
    <
        éébb,
        aééabbaééé,
        é {
            éab,
            aa,
            éaaaé
        >,
        a").
Definition c466 : case := ("((),;]bx[ba8;ax[,{a:;a8ba]}),a[8x[88ba,[:;8x]];:,{:8a::xa,[]:;:[[[8x},::a]]aa[[", "(
    (),
    ;]bx[ba8;ax[,
     {
        a:;a8ba]
    }
),
a[8x[88ba,
[:;8x]];:,
 {
    :8a::xa,
    []:;:[[[8x
},
::a]]aa[[").
Definition c467 : case := ("(<8b8,({<::bba]],xx8:],{[]:b8b],;bb:]b:[:a},{u}>,{(;[b[;xa;;;ax,u,;:[[]a,u),a;:][::[8,{u,u,[::8xxa;b8},b},x;a,(:;x]:8b8x[[[,:;;x];b:aa8[,(),(u))})>)", "(
    <
        8b8,
        (
             {
                <
                    ::bba]],
                    xx8:],
                     {
                        []:b8b],
                        ;bb:]b:[:a
                    },
                     {
                        u
                    }
                >,
                 {
                    (;[b[;xa;;;ax, u, ;:[[]a, u),
                    a;:][::[8,
                     {
                        u,
                        u,
                        [::8xxa;b8
                    },
                    b
                },
                x;a,
                (
                    :;x]:8b8x[[[,
                    :;;x];b:aa8[,
                    (),
                    (u)
                )
            }
        )
    >
)").
Definition c468 : case := (":,<[:>,{{88x[bx8,8;ba},a88,]},{[b;[;}", ":,
<[:>,
 {
     {
        88x[bx8,
        8;ba
    },
    a88,
    ]
},
 {
    [b;[;
}").
Definition c469 : case := ("{::;:;;]},]aab,b;:;]8", " {
    ::;:;;]
},
]aab,
b;:;]8").
Definition c470 : case := ("{b;b:bx[::[,]x},:aa:]b,]]bab:];:[8,;", " {
    b;b:bx[::[,
    ]x
},
:aa:]b,
]]bab:];:[8,
;").
Definition c471 : case := ("{({(])}),:];x;],(;8,<(([:xx:;::;[,(u,;8a]:bx),<u,u,u,];,u>),<(b]bb,u,]x8x:),88b;8[;aaa>,{(),]ab;8;:ax:;,([b8b]8a[;a,u),{[:]88a;}}),((),8[[8:]b:[8b,{bx8]8:8,b[ax;a;[88]]})>)}", " {
    (
         {
            (])
        }
    ),
    :];x;],
    (
        ;8,
        <
            (
                (
                    [:xx:;::;[,
                    (u, ;8a]:bx),
                    <u,
                    u,
                    u,
                    ];,
                    u>
                ),
                <(b]bb, u, ]x8x:),
                88b;8[;aaa>,
                 {
                    (),
                    ]ab;8;:ax:;,
                    ([b8b]8a[;a, u),
                     {
                        [:]88a;
                    }
                }
            ),
            (
                (),
                8[[8:]b:[8b,
                 {
                    bx8]8:8,
                    b[ax;a;[88]]
                }
            )
        >
    )
}").
Definition c472 : case := ("{<>},];,{<([:]:a8;8],(;ab,xaab;;x,aab,<[aa[8;b:,<u,u,u,u>,<>,{u,u,u}>,{::})),x[],(b8:;[,<8[8,a;8]]]b]]a[:,b][[;xa8:,[8x[[bxb:;;;>)>,{({(8),:b,([x;,(x],u,;]];[::,u,u))},<{<[];;ab],[;x>,{u,x[];:,u,b,u},<bxax>}>)}}", " {
    <>
},
];,
 {
    <
        (
            [:]:a8;8],
            (
                ;ab,
                xaab;;x,
                aab,
                <
                    [aa[8;b:,
                    <u,
                    u,
                    u,
                    u>,
                    <>,
                     {
                        u,
                        u,
                        u
                    }
                >,
                 {
                    ::
                }
            )
        ),
        x[],
        (
            b8:;[,
            <
                8[8,
                a;8]]]b]]a[:,
                b][[;xa8:,
                [8x[[bxb:;;;
            >
        )
    >,
     {
        (
             {
                (8),
                :b,
                ([x;, (x], u, ;]];[::, u, u))
            },
            <
                 {
                    <[];;ab],
                    [;x>,
                     {
                        u,
                        x[];:,
                        u,
                        b,
                        u
                    },
                    <bxax>
                }
            >
        )
    }
}").
Definition c473 : case := ("8,88bx,{{aa]a:,(({},::;];:x::,<xxb8][,;aabx::a8;,<u>>))}}", "8,
88bx,
 {
     {
        aa]a:,
        (
            (
                 {
                    
                },
                ::;];:x::,
                <xxb8][,
                ;aabx::a8;,
                <u>>
            )
        )
    }
}").
Definition c474 : case := ("8,<<[];xxbb>,{<(<{u},[:88]x>,<<u,bb;xab:>,<;b8,u,u,][x]8[[x,u>,]]xb:[8a>)>}>", "8,
<
    <[];xxbb>,
     {
        <
            (
                <
                     {
                        u
                    },
                    [:88]x
                >,
                <
                    <u,
                    bb;xab:>,
                    <;b8,
                    u,
                    u,
                    ][x]8[[x,
                    u>,
                    ]]xb:[8a
                >
            )
        >
    }
>").
Definition c475 : case := ("{a;8[[,{8[xb}},{<<(;x,{<u,]x;]:x]]:]8,::xb:aa8[[x,u>,]8]:[;[;x:,a:,<>},a8aax8xx:,b8;;[x]8;][,];;aax[x)>>}", " {
    a;8[[,
     {
        8[xb
    }
},
 {
    <
        <
            (
                ;x,
                 {
                    <u,
                    ]x;]:x]]:]8,
                    ::xb:aa8[[x,
                    u>,
                    ]8]:[;[;x:,
                    a:,
                    <>
                },
                a8aax8xx:,
                b8;;[x]8;][,
                ];;aax[x
            )
        >
    >
}").
Definition c476 : case := ("{ax[,8a]:;a[]:8;,xx;:8[],a,{;[bbxaab8[,:]bx[::;;,x[;;8}}", " {
    ax[,
    8a]:;a[]:8;,
    xx;:8[],
    a,
     {
        ;[bbxaab8[,
        :]bx[::;;,
        x[;;8
    }
}").
Definition c477 : case := (";,8ba;aa;]][]a,<(]ab][a;bb,{:,{<(]]]x;8];x,]8a8x;;a]:a),{a},a,{}>,<>,:;8,{::[8[;[},({u,u})},ax:][b},{]a[[a:88,:},<(<<u>>),<((u),:x:]:ab:b,{u,bb8x:8::8a[},{u,u,u,bb:8;:8,]8:]:;8:}),<xab;;;,(bba]]b]aba,u,u,u),<[,bx88xx::[>>>>)>", ";,
8ba;aa;]][]a,
<
    (
        ]ab][a;bb,
         {
            :,
             {
                <
                    (]]]x;8];x, ]8a8x;;a]:a),
                     {
                        a
                    },
                    a,
                     {
                        
                    }
                >,
                <>,
                :;8,
                 {
                    ::[8[;[
                },
                (
                     {
                        u,
                        u
                    }
                )
            },
            ax:][b
        },
         {
            ]a[[a:88,
            :
        },
        <
            (<<u>>),
            <
                (
                    (u),
                    :x:]:ab:b,
                     {
                        u,
                        bb8x:8::8a[
                    },
                     {
                        u,
                        u,
                        u,
                        bb:8;:8,
                        ]8:]:;8:
                    }
                ),
                <
                    xab;;;,
                    (bba]]b]aba, u, u, u),
                    <[,
                    bx88xx::[>
                >
            >
        >
    )
>").
Definition c478 : case := (";baxx:[a:", ";baxx:[a:").
Definition c479 : case := ("<{(<{{u,bbaab},];a;];;xb,<u,u,u,u,88x]x;>},{aa[8]b;,{u,:]8[a[;],b;][x},<u,u,u>},((u,xb[[,u,u,u),a8b];,b8;[ax;]a),<b],(a8,u,a8]ab[x]b[ba,b;;:xb),8[8]:][88,{}>,a[]x8babbb;;>,(((u,u,ab)),()),{({u,;:b]]a})})}>", "<
     {
        (
            <
                 {
                     {
                        u,
                        bbaab
                    },
                    ];a;];;xb,
                    <u,
                    u,
                    u,
                    u,
                    88x]x;>
                },
                 {
                    aa[8]b;,
                     {
                        u,
                        :]8[a[;],
                        b;][x
                    },
                    <u,
                    u,
                    u>
                },
                ((u, xb[[, u, u, u), a8b];, b8;[ax;]a),
                <
                    b],
                    (a8, u, a8]ab[x]b[ba, b;;:xb),
                    8[8]:][88,
                     {
                        
                    }
                >,
                a[]x8babbb;;
            >,
            (((u, u, ab)), ()),
             {
                (
                     {
                        u,
                        ;:b]]a
                    }
                )
            }
        )
    }
>").
Definition c480 : case := ("(),]x[:8,8a]8a,({{x,b]]]]aaxxb,:xa8,<b8:,a:;x,x,{<u,u,u>,{},{xx]8bbb,]bxa[xba,x::b;8a[aa];,[;ab[:[}}>}})", "(),
]x[:8,
8a]8a,
(
     {
         {
            x,
            b]]]]aaxxb,
            :xa8,
            <
                b8:,
                a:;x,
                x,
                 {
                    <u,
                    u,
                    u>,
                     {
                        
                    },
                     {
                        xx]8bbb,
                        ]bxa[xba,
                        x::b;8a[aa];,
                        [;ab[:[
                    }
                }
            >
        }
    }
)").
Definition c481 : case := ("xb8x8x;", "xb8x8x;").
Definition c482 : case := ("<{{;,(<88:b[]b8;,{u,:,[b8;[]b[x,u,8;a8},a;]:,<u,u,u,:x8:[8b::b,a::b][[[>,{u,u,u,u}>,({u,[a8}))}}>", "<
     {
         {
            ;,
            (
                <
                    88:b[]b8;,
                     {
                        u,
                        :,
                        [b8;[]b[x,
                        u,
                        8;a8
                    },
                    a;]:,
                    <u,
                    u,
                    u,
                    :x8:[8b::b,
                    a::b][[[>,
                     {
                        u,
                        u,
                        u,
                        u
                    }
                >,
                (
                     {
                        u,
                        [a8
                    }
                )
            )
        }
    }
>").
Definition c483 : case := ("<{{(<(u,u,u,a:,u),(:b:b;[8,u),<ab:a;bx:,u>>,<a88a>,;;:]b]),{<(8:;:[];b][,;[[xbxxbxxx),ba],{u,]x;][]:8a,a8:[a[,:];;}>,{[b,{u,xx;,u,b[bx;bx}},8;;;]a;;aab8,((),<u,x,;a::]b>)}}}>", "<
     {
         {
            (
                <
                    (u, u, u, a:, u),
                    (:b:b;[8, u),
                    <ab:a;bx:,
                    u>
                >,
                <a88a>,
                ;;:]b]
            ),
             {
                <
                    (8:;:[];b][, ;[[xbxxbxxx),
                    ba],
                     {
                        u,
                        ]x;][]:8a,
                        a8:[a[,
                        :];;
                    }
                >,
                 {
                    [b,
                     {
                        u,
                        xx;,
                        u,
                        b[bx;bx
                    }
                },
                8;;;]a;;aab8,
                ((), <u, x, ;a::]b>)
            }
        }
    }
>").
Definition c484 : case := ("{aa[],x8:x[,<<8[;:ax[[[]:,{(),(<ax8[[x[bb,u,u,u,u>),x8xa;x:[ab,<(b,a:[xaa)>}>>}", " {
    aa[],
    x8:x[,
    <
        <
            8[;:ax[[[]:,
             {
                (),
                (<ax8[[x[bb, u, u, u, u>),
                x8xa;x:[ab,
                <(b, a:[xaa)>
            }
        >
    >
}").
Definition c485 : case := ("[[:8;b8[a:x,[a;8xb8x;,(ax8;[:bxb])", "[[:8;b8[a:x,
[a;8xb8x;,
(ax8;[:bxb])").
Definition c486 : case := ("{}", " {
    
}").
Definition c487 : case := ("(((<>,<(),x;[a[:[,<{u}>>)))", "(
    (
        (
            <>,
            <
                (),
                x;[a[:[,
                <
                     {
                        u
                    }
                >
            >
        )
    )
)").
Definition c488 : case := ("b[[b8", "b[[b8").
Definition c489 : case := ("<<({<x[]:bx]]8]bb,(;88[:,u,u,u)>,<>},()),{{},<>,88][,(<<;]bba8,u,u>>,[:;bb]]x:,(:],<u,x:aa;::x;8>,{u},(u,u,];xx[a8]x,u),(u,:8;[[;b8a,u,u)))}>,a]aa8a[ab>,<>,x][a:[,{(a),:8bbbb},<{<>,[[b[x;a;:,b:},<{;;]a,((()),[a),<(),{<:x;aba;8x>}>}>>", "<
    <
        (
             {
                <x[]:bx]]8]bb,
                (;88[:, u, u, u)>,
                <>
            },
            ()
        ),
         {
             {
                
            },
            <>,
            88][,
            (
                <<;]bba8,
                u,
                u>>,
                [:;bb]]x:,
                (
                    :],
                    <u,
                    x:aa;::x;8>,
                     {
                        u
                    },
                    (u, u, ];xx[a8]x, u),
                    (u, :8;[[;b8a, u, u)
                )
            )
        }
    >,
    a]aa8a[ab
>,
<>,
x][a:[,
 {
    (a),
    :8bbbb
},
<
     {
        <>,
        [[b[x;a;:,
        b:
    },
    <
         {
            ;;]a,
            ((()), [a),
            <
                (),
                 {
                    <:x;aba;8x>
                }
            >
        }
    >
>").
Definition c490 : case := ("xb:8[][][],]b:a", "xb:8[][][],
]b:a").
Definition c491 : case := (";]]Z,,[b>[<{bZ(>):𝄞:{:
<[{;;Z,>Z}é:,>	[<:
 𝄞}[a𝄞}>]][}𝄞	{}b[{);

	{,€Z } ab𝄞Z[b}}𝄞<b,a
<<;
𝄞𝄞[,€)b
€€<)]})[ ,
{bZa}:b
{
[
(Z}[a	(]Z}(<<})b:>,,)(Z(>a{[ 	𝄞€{<	
:>(]<:é(}a[Z,;
)>[;]é }])	
(:{aéa(
(()>ba(<", ";]]Z,
,
[b>[<
     {
        bZ(
    >):𝄞: {
        :
<
            [ {
                ;;Z,
                
            >Z
        }é:,
        >	[<:
 𝄞
    }[a𝄞
}>]][
}𝄞	 {

}b[ {
);

	 {
    ,
    €Z 
} ab𝄞Z[b
}
}𝄞<
b,
a
<
<
    ;
𝄞𝄞[,
    €)b
€€<
        )]
    })[ ,
    
 {
        bZa
    }:b
 {
        
[
(
            Z
        }[a	(]Z
    }(<<
})b:>, , )(
    Z(
        >a {
            [ 	𝄞€ {
                <	
:>(]<:é(
            }a[Z, ;
)>[;]é 
        }])	
(
            : {
                aéa(
                    
(
                        ()
                    >ba(
                        <
                            ").
Definition c492 : case := ("}([Za[𝄞}(a)b{{ (b
b	,é{ a>] €, <)𝄞	<{bZ>b)><é
])
([( [é	Zé𝄞{,(€𝄞(<>𝄞𝄞é€(}{aZ{<[;ZZ(Zé𝄞	]é )	<) ,,)𝄞){:];€,;)::b,{ ;),>bZ>))][Z
<,,a:}]	€;(
{ a
]
𝄞)é(}𝄞aéa(:aZ𝄞({()]
€b>é [ [	():a)}	[(]𝄞<éé:	é{Zé	][)
  )[	𝄞𝄞€{<	b<b
{;	,

( }a>(:]>;	><]a	[Z ()€𝄞", "
}(
[Za[𝄞
}(a)b {
 {
     (
        b
b	,
        é {
             a>] €,
             <
                
            )𝄞	<
                 {
                    bZ
                >b
            )
        ><
            é
])
(
                [(
                     [é	Zé𝄞 {
                        ,
                        (
                            €𝄞(
                                <>𝄞𝄞é€(
                                    
                                } {
                                    aZ {
                                        <
                                            [;ZZ(Zé𝄞	]é )	<
                                                
                                            ) ,
                                            ,
                                            
                                        )𝄞
                                    ) {
                                        :];€,
                                        ;
                                    )::b,
                                     {
                                         ;
                                    ),
                                    
                                >bZ
                            >))][Z
<
                                ,
                                ,
                                a:
                            }]	€;(
                                
 {
                                     a
]
𝄞
                                )é(
                                    
                                }𝄞aéa(
                                    :aZ𝄞(
                                         {
                                            ()]
€b
                                        >é [ [	():a
                                    )
                                }	[(
                                    ]𝄞<
                                        éé:	é {
                                            Zé	][
                                        )
  
                                    )[	𝄞𝄞€ {
                                        <
                                            	b<
                                                b
 {
                                                    ;	,
                                                    

(
                                                         
                                                    }a
                                                >(
                                                    :]
                                                >;	
                                            ><
                                                ]a	[Z ()€𝄞").
Definition c493 : case := ("€,{{],)éa{;:< é}]{
:}[])}<: <}Z	]€Z>(}€	€;;<€>é{: Z}
):<){>(<", "€,
 {
     {
        ],
        )éa {
            ;:<
                 é
            }] {
                
:
            }[])
        }<
            : <
        }Z	]€Z>(
            
        }€	€;;<€>é {
            : Z
        }

    ):<
        ) {
            
        >(
            <
                ").
Definition c494 : case := (")}é[>bZ]é	]<
€,		Z", ")
}é[>bZ]é	]<

€,
		Z").
Definition c495 : case := ("𝄞𝄞(	;[(:
,
𝄞:	,	
>
b
€b[;)
:;( ][𝄞  ][Z)", "𝄞𝄞(
    	;[(:
, 
𝄞:	, 	
>
b
€b[;)
:;( ][𝄞  ][Z)").
Definition c496 : case := ("
é,a{}>]:{b:Z		;b(Z𝄞 ):
[", "
é,
a {
    
}>]: {
    b:Z		;b(Z𝄞 ):
[").
Definition c497 : case := ("}{bé <
bZ:(){<a(€(€Z		(𝄞[)b𝄞[,;a(a𝄞;€	)a <a 𝄞}€ 	é}:Za],é>𝄞;𝄞:<  𝄞€é(	{>a])Z}) 
ébb()a(;[,}[€);}]){;Z;>é;(€<[a[", "
} {
bé <
    
bZ:() {
        <
            a(
                €(
                    €Z		(𝄞[)b𝄞[,
                    ;a(a𝄞;€	)a <a 𝄞
                }€ 	é
            }:Za],
            é>𝄞;𝄞:<
                  𝄞€é(
                    	 {
                        
                    >a]
                )Z
            }
        ) 
ébb()a(;[, 
    }[€);
}]
) {
;Z;
>é;(
€<
    [a[").
Definition c498 : case := ("a{]}>€𝄞€€Zé][:𝄞a  ZZ;Z	}	𝄞𝄞,𝄞	;(		{[€)
<(:(;Z,€,>;Z):éé}::

]{<b{€€ €),
]
>}{
Z>;(a){é{>
a;:>>bé;]€{}}Z}éb𝄞}:Z(é€
 )(é]a<é <b(<𝄞,};)𝄞)>;;{	a >]({é
b]𝄞,<b;éba𝄞a]bbaé𝄞<>𝄞	[b:bé]a][b>},:]<]]>	;aé:;
)>	a[  
(Z>aéZb;a€(}[< ", "a {
    ]
}>€𝄞€€Zé][:𝄞a  ZZ;Z	
}	𝄞𝄞,
𝄞	;(
		 {
    [€
)
<(
    :(;Z, €, >;Z):éé
}::

] {
    <
        b {
            €€ €
        ),
        
]

    >
} {
    
Z>;(a) {
        é {
            >
a;:>>bé;]€ {
                
            }
        }Z
    }éb𝄞
}:Z(é€
 )(é]a<
    é <
        b(<𝄞, 
    };)𝄞)>;; {
        	a 
    >](
         {
            é
b]𝄞,
            <b;éba𝄞a]bbaé𝄞<>𝄞	[b:bé]a][b>
        },
        :]<]]>	;aé:;

    )
>	a[  
(
    Z>aéZb;a€(
        
    }[<
         ").
Definition c499 : case := ("<Z	
 é	𝄞	:,  {[{,{;é;:[[a>}Z>(
𝄞;<;)b)}><]𝄞>,,}(};a)ZZ𝄞
a:𝄞
>𝄞;b{a(b	,a	é{𝄞
€<{€(a>,b€𝄞;,ab
<(é)}é](]b,", "<
    Z	
 é	𝄞	:,
       {
        [ {
            ,
             {
                ;é;:[[a
            >
        }Z>(
𝄞;<;)b)
    }><]𝄞>,
    ,
    
}(
};a)ZZ𝄞
a:𝄞
>𝄞;b {
a(
    b	,
    a	é {
        𝄞
€<
             {
                €(
                    a
                >,
                b€𝄞;,
                ab
<
                    (é)
                }é](
                    ]b,
                    ").
Definition c500 : case := ("	)}((:b,a[{bbZ>(	):b€𝄞Z]Z:> :é)}(}a ;Z,)é}	𝄞a:<Zb(,éaé𝄞
𝄞];Za;é};{) 	)€	))>]:éé}
<})b))a<a(	bbbb>	Z{< >(	; :𝄞[a{><	][,é𝄞][bZ>b 
 aé€]> {,	;[
a;	𝄞{	([(aé;]	
€>
é𝄞[>[b;é]𝄞{](a >];bbabaZZ:>€,>;b( }Z 	)é] a𝄞}:𝄞", "	)
}(
(
    :b,
    a[ {
        bbZ>(	):b€𝄞Z]Z:> :é
    )
}(
}a ;Z, )é
}	𝄞a:<
Zb(
,
éaé𝄞
𝄞];Za;é
}; {

) 	
)€	))
>]:éé
}
<

})b))a<a(
	bbbb>	Z {
< >(
	; :𝄞[a {

><	][,
é𝄞][bZ>b 
 aé€]>  {
,
	;[
a;	𝄞 {
    	(
        [(
            aé;]	
€>
é𝄞[>[b;é]𝄞 {
                ](
                    a >];bbabaZZ:>€,
                    >;b( 
                }Z 	)é] a𝄞
            }:𝄞").
Definition c501 : case := (",:€é: a	€{	baa 	,(ba}{, :})𝄞	𝄞Z<;	é:	]<):b  [
é;,é:{ (a b,,))é{<{]b:a𝄞:> ;é:;Z{Z	[; <	a<:𝄞<é€,{;€€𝄞𝄞€} (€é<)[é}:€[Z;Z,{: >{]}
", ",
:€é: a	€ {
    	baa 	,
    (
        ba
    } {
        ,
         :
    }
)𝄞	𝄞Z<
    ;	é:	]<
        ):b  [
é;,
        é: {
             (a b, , ))é {
                <
                     {
                        ]b:a𝄞:
                    > ;é:;Z {
                        Z	[; <
                            	a<
                                :𝄞<
                                    é€,
                                     {
                                        ;€€𝄞𝄞€
                                    } (€é<
                                        )[é
                                    }:€[Z;Z,
                                     {
                                        : 
                                    > {
                                        ]
                                    }
").
Definition c502 : case := ("<€
<𝄞};€
>,{],b b, 	€𝄞
Z}Z(:}]a	} } (€:Z[<>]Z}

> (>€:	𝄞Z]>
 𝄞𝄞({ <;Z€é[}}{(	:,]é	é[€)𝄞Zé{ [é>b:<))Z,;Z	é)>€<]{[Z(][[Z{,a:]b{]{{é€>;(b;])a:𝄞[>],	,<]𝄞 } :;é,
}
,
(é][{", "<
    €
<𝄞
};€
>,
 {
    ],
    b b,
     	€𝄞
Z
}Z(
    :
}]a	
} 
} (
€:Z[<>]Z
}


> (
>€:	𝄞Z]>
 𝄞𝄞(
 {
 <
    ;Z€é[
}
} {
(	:, ]é	é[€)𝄞Zé {
     [é
>b:<
)
)Z,
;Z	é
)>€<
] {
[Z(
][[Z {
    ,
    a:]b {
        ] {
             {
                é€
            >;(b;])a:𝄞[>],
            	,
            <
                ]𝄞 
            } :;é,
            

        }
,
        
(
            é][ {
                ").
Definition c503 : case := ("Z
:(,	: ]Z }b[]]: [:)[](𝄞𝄞", "Z
:(, 	: ]Z 
}b[]]: [:)[](
𝄞𝄞").
Definition c504 : case := ("ébZ
a]a :)><€€	;b<	a;a(𝄞)Z€:é(] Z
{b(€é }b(éé<>	 [ }€;𝄞Zé	bé{𝄞, <é] :é b)]", "ébZ
a]a :)><
    €€	;b<
        	a;a(𝄞)Z€:é(
            ] Z
 {
                b(
                    €é 
                }b(
                    éé<>	 [ 
                }€;𝄞Zé	bé {
                    𝄞,
                     <
                        é] :é b
                    )]").
Definition c505 : case := ("]é[]é[;€)),Z[,(::a		)€𝄞<{>:a(a(}[],,>[é:> 	 [)a;[é{};]	", "]é[]é[;€)),
Z[,
(::a		)€𝄞<
     {
        
    >:a(
        a(
    }[], , >[é:> 	 [)a;[é {
        
    };]	").
Definition c506 : case := (");>a(𝄞 [)}{:b𝄞>	,{>; >;b[(){€	a, ]:}])€a}b€ 𝄞>
)(>é€}{Z:𝄞)b)}
;(>Z€𝄞
{:}}<ab	b>{	{>}>>€ZZ:{];a[(})b 	>{(<Z;{)	:>,éb)
};b:{];𝄞a:Z
[,b }}(<{,} €(:a(é<<}b;𝄞<b)b]><b€,) é{)
(]
a	ZZ€€𝄞	,]é{𝄞ab,é{  ;>éé>é
)}{<€
(€:€b	Z	Z
:Z(]>;]}b}<Zé{€ 𝄞[,b", ");>a(𝄞 [)
} {
:b𝄞>	,
 {
    >; >;b[() {
        €	a,
         ]:
    }])€a
}b€ 𝄞>
)(
    >é€
} {
    Z:𝄞
)b)
}
;(
>Z€𝄞
 {
    :
}
}<ab	b> {
	 {
    >
}>>€ZZ: {
    ];a[(
})b 	> {
    (
        <
            Z; {
                
            )	:
        >,
        éb
    )

};b: {
    ];𝄞a:Z
[,
    b 
}
}(
<
     {
        ,
        
    } €(:a(é<
        <
            
        }b;𝄞<b)b]><
            b€, ) é {
                
            )
(
                ]
a	ZZ€€𝄞	,
                ]é {
                    𝄞ab,
                    é {
                          ;
                    >éé
                >é

            )
        } {
            <€
(
                €:€b	Z	Z
:Z(
                    ]>;]
                }b
            }<
                Zé {
                    € 𝄞[,
                    b").
Definition c507 : case := ("<€a[:€>
:a,;€𝄞[b,)Z:𝄞<bé€;:é>[b(<é>[	(]({{€(€{:,,aZ[a é<Z€éé]b) Z€<>
)𝄞[>: [𝄞;Z[Z		é	<Zé:	Z}, ]a;]	:a 𝄞b(};€{}(		(aé
€	é(>é,)]{
b> }b a>€]):;
(", "<€a[:€>
:a,
;€𝄞[b,
)Z:𝄞<bé€;:é>[b(
    <é>[	(
        ](
             {
                 {
                    €(
                        € {
                            :,
                            ,
                            aZ[a é<Z€éé]b
                        ) Z€<>

                    )𝄞[>: [𝄞;Z[Z		é	<
                        Zé:	Z
                    },
                     ]a;]	:a 𝄞b(
                        
                    };€ {
                        
                    }(
                        		(
                            aé
€	é(
                        >é, )] {
                            
b> 
                        }b a>€]
                    ):;
(
                        ").
Definition c508 : case := ("Z{€	]:;)€[	:;{
<(>;:>[b;b>a]<
;;,Z𝄞<	
]:Z,𝄞<a]{;, :é>}{ba	[(, 	<
,({
ZbZ]b€:>
>:{<} ;𝄞éb,𝄞	é€ €
é€:}[<,}(]", "Z {
    €	]:;)€[	:; {
        
<(
            >;:>[b;b>a]<
                
;;,
                Z𝄞<
                    	
]:Z,
                    𝄞<
                        a] {
                            ;,
                             :é
                        >
                    } {
                        ba	[(
                            ,
                             	<
                                
,
                                (
                                     {
                                        
ZbZ]b€:
                                    >

                                >: {
                                    <
                                        
                                    } ;𝄞éb,
                                    𝄞	é€ €
é€:
                                }[<
                                    ,
                                    
                                }(
                                    ]").
Definition c509 : case := ("[];:a))	𝄞a,()	[é])> :] 	
(>é(	:€>", "[];:a))	𝄞a,
()	[é])> :] 	
(
    >é(
        	:€>").
Definition c510 : case := ("(struct AccountId32([u8; 32]),u16)", "(
    struct AccountId32([u8; 32]),
    u16
)").
Definition c511 : case := ("struct HostConfiguration<u32>{max_code_size: u32,max_head_data_size: u32,max_upward_queue_count: u32,max_upward_queue_size: u32,max_upward_message_size: u32,max_upward_message_num_per_candidate: u32,hrmp_max_message_num_per_candidate: u32,validation_upgrade_cooldown: u32,validation_upgrade_delay: u32,async_backing_params: struct AsyncBackingParams{max_candidate_depth: u32,allowed_ancestry_len: u32},max_pov_size: u32,max_downward_message_size: u32,hrmp_max_parachain_outbound_channels: u32,hrmp_max_parathread_outbound_channels: u32,hrmp_sender_deposit: u128,hrmp_recipient_deposit: u128,hrmp_channel_max_capacity: u32,hrmp_channel_max_total_size: u32,hrmp_max_parachain_inbound_channels: u32,hrmp_max_parathread_inbound_channels: u32,hrmp_channel_max_message_size: u32,executor_params: struct ExecutorParams(Vec<enum ExecutorParam{MaxMemoryPages(u32),StackLogicalMax(u32),StackNativeMax(u32),PrecheckingMaxMemory(u64),PvfPrepTimeout(enum PvfPrepTimeoutKind{Precheck,Lenient},u64),PvfExecTimeout(enum PvfExecTimeoutKind{Backing,Approval},u64),WasmExtBulkMemory}>),code_retention_period: u32,parathread_cores: u32,parathread_retries: u32,group_rotation_frequency: u32,chain_availability_period: u32,thread_availability_period: u32,scheduling_lookahead: u32,max_validators_per_core: enum Option<u32>{None,Some(u32)},max_validators: Option<u32>,dispute_period: u32,dispute_post_conclusion_acceptance_period: u32,no_show_slots: u32,n_delay_tranches: u32,zeroth_delay_tranche_width: u32,needed_approvals: u32,relay_vrf_modulo_samples: u32,pvf_checking_enabled: bool,pvf_voting_ttl: u32,minimum_validation_upgrade_delay: u32}", "struct HostConfiguration<u32> {
    max_code_size: u32,
    max_head_data_size: u32,
    max_upward_queue_count: u32,
    max_upward_queue_size: u32,
    max_upward_message_size: u32,
    max_upward_message_num_per_candidate: u32,
    hrmp_max_message_num_per_candidate: u32,
    validation_upgrade_cooldown: u32,
    validation_upgrade_delay: u32,
    async_backing_params: struct AsyncBackingParams {
        max_candidate_depth: u32,
        allowed_ancestry_len: u32
    },
    max_pov_size: u32,
    max_downward_message_size: u32,
    hrmp_max_parachain_outbound_channels: u32,
    hrmp_max_parathread_outbound_channels: u32,
    hrmp_sender_deposit: u128,
    hrmp_recipient_deposit: u128,
    hrmp_channel_max_capacity: u32,
    hrmp_channel_max_total_size: u32,
    hrmp_max_parachain_inbound_channels: u32,
    hrmp_max_parathread_inbound_channels: u32,
    hrmp_channel_max_message_size: u32,
    executor_params: struct ExecutorParams(
        Vec<
            enum ExecutorParam {
                MaxMemoryPages(u32),
                StackLogicalMax(u32),
                StackNativeMax(u32),
                PrecheckingMaxMemory(u64),
                PvfPrepTimeout(
                    enum PvfPrepTimeoutKind {
                        Precheck,
                        Lenient
                    },
                    u64
                ),
                PvfExecTimeout(
                    enum PvfExecTimeoutKind {
                        Backing,
                        Approval
                    },
                    u64
                ),
                WasmExtBulkMemory
            }
        >
    ),
    code_retention_period: u32,
    parathread_cores: u32,
    parathread_retries: u32,
    group_rotation_frequency: u32,
    chain_availability_period: u32,
    thread_availability_period: u32,
    scheduling_lookahead: u32,
    max_validators_per_core: enum Option<u32> {
        None,
        Some(u32)
    },
    max_validators: Option<u32>,
    dispute_period: u32,
    dispute_post_conclusion_acceptance_period: u32,
    no_show_slots: u32,
    n_delay_tranches: u32,
    zeroth_delay_tranche_width: u32,
    needed_approvals: u32,
    relay_vrf_modulo_samples: u32,
    pvf_checking_enabled: bool,
    pvf_voting_ttl: u32,
    minimum_validation_upgrade_delay: u32
}").
Definition c512 : case := ("enum ReferendumInfo<u32,Bounded<RuntimeCall>,u128>{Ongoing(struct ReferendumStatus<u32,Bounded<RuntimeCall>,u128>{end: u32,proposal: enum Bounded<RuntimeCall>{Legacy{hash: struct H256([u8; 32])},Inline(struct BoundedVec<u8,_>(Vec<u8>)),Lookup{hash: H256,len: u32}},threshold: enum VoteThreshold{SuperMajorityApprove,SuperMajorityAgainst,SimpleMajority},delay: u32,tally: struct Tally<u128>{ayes: u128,nays: u128,turnout: u128}}),Finished{approved: bool,end: u32}}", "enum ReferendumInfo<u32,
Bounded<RuntimeCall>,
u128> {
    Ongoing(
        struct ReferendumStatus<u32,
        Bounded<RuntimeCall>,
        u128> {
            end: u32,
            proposal: enum Bounded<RuntimeCall> {
                Legacy {
                    hash: struct H256([u8; 32])
                },
                Inline(
                    struct BoundedVec<u8,
                    _>(Vec<u8>)
                ),
                Lookup {
                    hash: H256,
                    len: u32
                }
            },
            threshold: enum VoteThreshold {
                SuperMajorityApprove,
                SuperMajorityAgainst,
                SimpleMajority
            },
            delay: u32,
            tally: struct Tally<u128> {
                ayes: u128,
                nays: u128,
                turnout: u128
            }
        }
    ),
    Finished {
        approved: bool,
        end: u32
    }
}").
Definition c513 : case := ("enum Error<_>{NotRegistered,AlreadyRegistered,NotOwner,CodeTooLarge,HeadDataTooLarge,NotParachain,NotParathread,CannotDeregister,CannotDowngrade,CannotUpgrade,ParaLocked,NotReserved,EmptyCode,CannotSwap}", "enum Error<_> {
    NotRegistered,
    AlreadyRegistered,
    NotOwner,
    CodeTooLarge,
    HeadDataTooLarge,
    NotParachain,
    NotParathread,
    CannotDeregister,
    CannotDowngrade,
    CannotUpgrade,
    ParaLocked,
    NotReserved,
    EmptyCode,
    CannotSwap
}").
Definition cases : list (case) := [c0; c1; c2; c3; c4; c5; c6; c7; c8; c9; c10; c11; c12; c13; c14; c15; c16; c17; c18; c19; c20; c21; c22; c23; c24; c25; c26; c27; c28; c29; c30; c31; c32; c33; c34; c35; c36; c37; c38; c39; c40; c41; c42; c43; c44; c45; c46; c47; c48; c49; c50; c51; c52; c53; c54; c55; c56; c57; c58; c59; c60; c61; c62; c63; c64; c65; c66; c67; c68; c69; c70; c71; c72; c73; c74; c75; c76; c77; c78; c79; c80; c81; c82; c83; c84; c85; c86; c87; c88; c89; c90; c91; c92; c93; c94; c95; c96; c97; c98; c99; c100; c101; c102; c103; c104; c105; c106; c107; c108; c109; c110; c111; c112; c113; c114; c115; c116; c117; c118; c119; c120; c121; c122; c123; c124; c125; c126; c127; c128; c129; c130; c131; c132; c133; c134; c135; c136; c137; c138; c139; c140; c141; c142; c143; c144; c145; c146; c147; c148; c149; c150; c151; c152; c153; c154; c155; c156; c157; c158; c159; c160; c161; c162; c163; c164; c165; c166; c167; c168; c169; c170; c171; c172; c173; c174; c175; c176; c177; c178; c179; c180; c181; c182; c183; c184; c185; c186; c187; c188; c189; c190; c191; c192; c193; c194; c195; c196; c197; c198; c199; c200; c201; c202; c203; c204; c205; c206; c207; c208; c209; c210; c211; c212; c213; c214; c215; c216; c217; c218; c219; c220; c221; c222; c223; c224; c225; c226; c227; c228; c229; c230; c231; c232; c233; c234; c235; c236; c237; c238; c239; c240; c241; c242; c243; c244; c245; c246; c247; c248; c249; c250; c251; c252; c253; c254; c255; c256; c257; c258; c259; c260; c261; c262; c263; c264; c265; c266; c267; c268; c269; c270; c271; c272; c273; c274; c275; c276; c277; c278; c279; c280; c281; c282; c283; c284; c285; c286; c287; c288; c289; c290; c291; c292; c293; c294; c295; c296; c297; c298; c299; c300; c301; c302; c303; c304; c305; c306; c307; c308; c309; c310; c311; c312; c313; c314; c315; c316; c317; c318; c319; c320; c321; c322; c323; c324; c325; c326; c327; c328; c329; c330; c331; c332; c333; c334; c335; c336; c337; c338; c339; c340; c341; c342; c343; c344; c345; c346; c347; c348; c349; c350; c351; c352; c353; c354; c355; c356; c357; c358; c359; c360; c361; c362; c363; c364; c365; c366; c367; c368; c369; c370; c371; c372; c373; c374; c375; c376; c377; c378; c379; c380; c381; c382; c383; c384; c385; c386; c387; c388; c389; c390; c391; c392; c393; c394; c395; c396; c397; c398; c399; c400; c401; c402; c403; c404; c405; c406; c407; c408; c409; c410; c411; c412; c413; c414; c415; c416; c417; c418; c419; c420; c421; c422; c423; c424; c425; c426; c427; c428; c429; c430; c431; c432; c433; c434; c435; c436; c437; c438; c439; c440; c441; c442; c443; c444; c445; c446; c447; c448; c449; c450; c451; c452; c453; c454; c455; c456; c457; c458; c459; c460; c461; c462; c463; c464; c465; c466; c467; c468; c469; c470; c471; c472; c473; c474; c475; c476; c477; c478; c479; c480; c481; c482; c483; c484; c485; c486; c487; c488; c489; c490; c491; c492; c493; c494; c495; c496; c497; c498; c499; c500; c501; c502; c503; c504; c505; c506; c507; c508; c509; c510; c511; c512; c513].
Eval vm_compute in ("corr_exact"%string, failing (corr_exact) cases).
Eval vm_compute in ("corr_stream"%string, failing (corr_stream) cases).
Eval vm_compute in ("prop_ws"%string, failing (prop_ws) cases).
Eval vm_compute in ("prop_discipline"%string, failing (prop_discipline) cases).
