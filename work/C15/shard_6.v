From Coq Require Import List NArith String.
From V Require Import Base.Util Corr.RunC15.
Import ListNotations. Open Scope string_scope.
Definition c0 : case := (">", ">").
Definition c1 : case := ("})", "
})").
Definition c2 : case := (")}", ")
}").
Definition c3 : case := ("< ", "<
     ").
Definition c4 : case := (",,", ",
,
").
Definition c5 : case := (" <", " <
    ").
Definition c6 : case := ("{}(", " {
    
}(
    ").
Definition c7 : case := ("{){", " {
    ) {
        ").
Definition c8 : case := ("{<a", " {
    <
        a").
Definition c9 : case := ("{,>", " {
    ,
    >").
Definition c10 : case := ("{ )", " {
     )").
Definition c11 : case := ("}}}", "
}
}
}").
Definition c12 : case := ("}( ", "
}(
 ").
Definition c13 : case := ("}<,", "
}<
,
").
Definition c14 : case := ("},<", "
},
<
").
Definition c15 : case := ("} (", "
} (
").
Definition c16 : case := ("(}{", "(
    
} {
    ").
Definition c17 : case := ("((a", "(
    (
        a").
Definition c18 : case := ("(<>", "(
    <>").
Definition c19 : case := ("(,)", "(, )").
Definition c20 : case := ("( }", "(
     
}").
Definition c21 : case := ("){ ", ") {
     ").
Definition c22 : case := (")(,", ")(
    ,
    ").
Definition c23 : case := (")<<", ")<
    <
        ").
Definition c24 : case := ("),(", "),
(
    ").
Definition c25 : case := (") {", ")  {
    ").
Definition c26 : case := ("<{a", "<
     {
        a").
Definition c27 : case := ("<(>", "<(
    >").
Definition c28 : case := ("<<)", "<
    <
        )").
Definition c29 : case := ("<,}", "<
    ,
    
}").
Definition c30 : case := ("<a ", "<
    a ").
Definition c31 : case := (">{,", "> {
    ,
    ").
Definition c32 : case := (">(<", ">(
    <
        ").
Definition c33 : case := ("><(", "><
    (
        ").
Definition c34 : case := (">,{", ">,
 {
    ").
Definition c35 : case := (">aa", ">aa").
Definition c36 : case := (",{>", ",
 {
    >").
Definition c37 : case := (",()", ",
()").
Definition c38 : case := (",<}", ",
<
    
}").
Definition c39 : case := (",> ", ",
> ").
Definition c40 : case := (",a,", ",
a,
").
Definition c41 : case := ("a{<", "a {
    <
        ").
Definition c42 : case := ("a((", "a(
    (
        ").
Definition c43 : case := ("a<{", "a<
     {
        ").
Definition c44 : case := ("a>a", "a>a").
Definition c45 : case := ("aa>", "aa>").
Definition c46 : case := (" {)", "  {
    )").
Definition c47 : case := (" (}", " (
    
}").
Definition c48 : case := (" ) ", " ) ").
Definition c49 : case := (" >,", " >,
").
Definition c50 : case := (" a<", " a<
    ").
Definition c51 : case := ("{{{(", " {
     {
         {
            (
                ").
Definition c52 : case := ("{{({", " {
     {
        (
             {
                ").
Definition c53 : case := ("{{)a", " {
     {
        )a").
Definition c54 : case := ("{{>>", " {
     {
        >>").
Definition c55 : case := ("{{a)", " {
     {
        a)").
Definition c56 : case := ("{}{}", " {
    
} {
    
}").
Definition c57 : case := ("{}} ", " {
    
}
} ").
Definition c58 : case := ("{}),", " {
    
}),
").
Definition c59 : case := ("{}><", " {
    
}><
    ").
Definition c60 : case := ("{}a(", " {
    
}a(
    ").
Definition c61 : case := ("{({{", " {
    (
         {
             {
                ").
Definition c62 : case := ("{(}a", " {
    (
        
    }a").
Definition c63 : case := ("{()>", " {
    ()>").
Definition c64 : case := ("{(>)", " {
    (>)").
Definition c65 : case := ("{(a}", " {
    (
        a
    }").
Definition c66 : case := ("{(  ", " {
    (
          ").
Definition c67 : case := ("{)},", " {
    )
},
").
Definition c68 : case := ("{))<", " {
    ))<
        ").
Definition c69 : case := ("{)>(", " {
    )>(
        ").
Definition c70 : case := ("{)a{", " {
    )a {
        ").
Definition c71 : case := ("{) a", " {
    ) a").
Definition c72 : case := ("{<}>", " {
    <
}>").
Definition c73 : case := ("{<))", " {
    <
        ))").
Definition c74 : case := ("{<>}", " {
    <>
}").
Definition c75 : case := ("{<, ", " {
    <
        ,
         ").
Definition c76 : case := ("{< ,", " {
    <
         ,
        ").
Definition c77 : case := ("{>}<", " {
    >
}<
    ").
Definition c78 : case := ("{>)(", " {
    >)(
        ").
Definition c79 : case := ("{>>{", " {
    >> {
        ").
Definition c80 : case := ("{>,a", " {
    >,
    a").
Definition c81 : case := ("{> >", " {
    > >").
Definition c82 : case := ("{,})", " {
    ,
    
})").
Definition c83 : case := ("{,)}", " {
    ,
    )
}").
Definition c84 : case := ("{,< ", " {
    ,
    <
         ").
Definition c85 : case := ("{,,,", " {
    ,
    ,
    ,
    ").
Definition c86 : case := ("{, <", " {
    ,
     <
        ").
Definition c87 : case := ("{a}(", " {
    a
}(
    ").
Definition c88 : case := ("{a){", " {
    a) {
        ").
Definition c89 : case := ("{a<a", " {
    a<
        a").
Definition c90 : case := ("{a,>", " {
    a,
    >").
Definition c91 : case := ("{a )", " {
    a )").
Definition c92 : case := ("{ }}", " {
     
}
}").
Definition c93 : case := ("{ ( ", " {
     (
         ").
Definition c94 : case := ("{ <,", " {
     <
        ,
        ").
Definition c95 : case := ("{ ,<", " {
     ,
    <
        ").
Definition c96 : case := ("{  (", " {
      (
        ").
Definition c97 : case := ("}{}{", "
} {

} {
").
Definition c98 : case := ("}{(a", "
} {
(
    a").
Definition c99 : case := ("}{<>", "
} {
<>").
Definition c100 : case := ("}{,)", "
} {
,
)").
Definition c101 : case := ("}{ }", "
} {
 
}").
Definition c102 : case := ("}}{ ", "
}
} {
 ").
Definition c103 : case := ("}}(,", "
}
}(
,
").
Definition c104 : case := ("}}<<", "
}
}<
<
").
Definition c105 : case := ("}},(", "
}
},
(
").
Definition c106 : case := ("}} {", "
}
}  {
").
Definition c107 : case := ("}({a", "
}(
 {
    a").
Definition c108 : case := ("}((>", "
}(
(
    >").
Definition c109 : case := ("}(<)", "
}(<
)").
Definition c110 : case := ("}(,}", "
}(
,

}").
Definition c111 : case := ("}(a ", "
}(
a ").
Definition c112 : case := ("}){,", "
}) {
,
").
Definition c113 : case := ("})(<", "
})(
<
    ").
Definition c114 : case := ("})<(", "
})<
(
    ").
Definition c115 : case := ("}),{", "
}),
 {
").
Definition c116 : case := ("})aa", "
})aa").
Definition c117 : case := ("}<{>", "
}<
 {
    
>").
Definition c118 : case := ("}<()", "
}<
()").
Definition c119 : case := ("}<<}", "
}<
<
    
}").
Definition c120 : case := ("}<> ", "
}<> ").
Definition c121 : case := ("}<a,", "
}<
a,
").
Definition c122 : case := ("}>{<", "
}> {
<
    ").
Definition c123 : case := ("}>((", "
}>(
(
    ").
Definition c124 : case := ("}><{", "
}><
 {
    ").
Definition c125 : case := ("}>>a", "
}>>a").
Definition c126 : case := ("}>a>", "
}>a>").
Definition c127 : case := ("},{)", "
},
 {
)").
Definition c128 : case := ("},(}", "
},
(

}").
Definition c129 : case := ("},) ", "
},
) ").
Definition c130 : case := ("},>,", "
},
>,
").
Definition c131 : case := ("},a<", "
},
a<
").
Definition c132 : case := ("}a{(", "
}a {
(
    ").
Definition c133 : case := ("}a({", "
}a(
 {
    ").
Definition c134 : case := ("}a)a", "
}a)a").
Definition c135 : case := ("}a>>", "
}a>>").
Definition c136 : case := ("}aa)", "
}aa)").
Definition c137 : case := ("} {}", "
}  {

}").
Definition c138 : case := ("} } ", "
} 
} ").
Definition c139 : case := ("} ),", "
} ),
").
Definition c140 : case := ("} ><", "
} ><
").
Definition c141 : case := ("} a(", "
} a(
").
Definition c142 : case := ("({{{", "(
     {
         {
             {
                ").
Definition c143 : case := ("({}a", "(
     {
        
    }a").
Definition c144 : case := ("({)>", "(
     {
        
    )>").
Definition c145 : case := ("({>)", "(
     {
        >
    )").
Definition c146 : case := ("({a}", "(
     {
        a
    }").
Definition c147 : case := ("({  ", "(
     {
          ").
Definition c148 : case := ("(}},", "(
    
}
},
").
Definition c149 : case := ("(})<", "(
})<
").
Definition c150 : case := ("(}>(", "(
    
}>(
    ").
Definition c151 : case := ("(}a{", "(
    
}a {
    ").
Definition c152 : case := ("(} a", "(
    
} a").
Definition c153 : case := ("((}>", "(
    (
        
    }>").
Definition c154 : case := ("(())", "(())").
Definition c155 : case := ("((>}", "(
    (
        >
    }").
Definition c156 : case := ("((, ", "(
    (
        ,
         ").
Definition c157 : case := ("(( ,", "(
    (
         ,
        ").
Definition c158 : case := ("()}<", "()
}<
").
Definition c159 : case := ("())(", "())(
    ").
Definition c160 : case := ("()>{", "()> {
    ").
Definition c161 : case := ("(),a", "(),
a").
Definition c162 : case := ("() >", "() >").
Definition c163 : case := ("(<})", "(<
    
})").
Definition c164 : case := ("(<)}", "(<
    )
}").
Definition c165 : case := ("(<< ", "(
    <
        <
             ").
Definition c166 : case := ("(<,,", "(
    <
        ,
        ,
        ").
Definition c167 : case := ("(< <", "(
    <
         <
            ").
Definition c168 : case := ("(>}(", "(
    >
}(
    ").
Definition c169 : case := ("(>){", "(>) {
    ").
Definition c170 : case := ("(><a", "(
    ><
        a").
Definition c171 : case := ("(>,>", "(
    >,
    >").
Definition c172 : case := ("(> )", "(> )").
Definition c173 : case := ("(,}}", "(
    ,
    
}
}").
Definition c174 : case := ("(,( ", "(
    ,
    (
         ").
Definition c175 : case := ("(,<,", "(
    ,
    <
        ,
        ").
Definition c176 : case := ("(,,<", "(
    ,
    ,
    <
        ").
Definition c177 : case := ("(, (", "(
    ,
     (
        ").
Definition c178 : case := ("(a}{", "(
    a
} {
    ").
Definition c179 : case := ("(a(a", "(
    a(
        a").
Definition c180 : case := ("(a<>", "(
    a<>").
Definition c181 : case := ("(a,)", "(a, )").
Definition c182 : case := ("(a }", "(
    a 
}").
Definition c183 : case := ("( { ", "(
      {
         ").
Definition c184 : case := ("( (,", "(
     (
        ,
        ").
Definition c185 : case := ("( <<", "(
     <
        <
            ").
Definition c186 : case := ("( ,(", "(
     ,
    (
        ").
Definition c187 : case := ("(  {", "(
       {
        ").
Definition c188 : case := ("){{a", ") {
     {
        a").
Definition c189 : case := ("){(>", ") {
    (
        >").
Definition c190 : case := ("){<)", ") {
    <
        )").
Definition c191 : case := ("){,}", ") {
    ,
    
}").
Definition c192 : case := ("){a ", ") {
    a ").
Definition c193 : case := (")}{,", ")
} {
,
").
Definition c194 : case := (")}(<", ")
}(
<
    ").
Definition c195 : case := (")}<(", ")
}<
(
    ").
Definition c196 : case := (")},{", ")
},
 {
").
Definition c197 : case := (")}aa", ")
}aa").
Definition c198 : case := (")({>", ")(
     {
        >").
Definition c199 : case := (")(()", ")(
    ()").
Definition c200 : case := (")(<}", ")(
    <
        
    }").
Definition c201 : case := (")(> ", ")(
    > ").
Definition c202 : case := (")(a,", ")(
    a,
    ").
Definition c203 : case := (")){<", ")) {
    <
        ").
Definition c204 : case := ("))((", "))(
    (
        ").
Definition c205 : case := ("))<{", "))<
     {
        ").
Definition c206 : case := ("))>a", "))>a").
Definition c207 : case := ("))a>", "))a>").
Definition c208 : case := (")<{)", ")<
     {
        )").
Definition c209 : case := (")<(}", ")<
    (
        
    }").
Definition c210 : case := (")<) ", ")<
    ) ").
Definition c211 : case := (")<>,", ")<>,
").
Definition c212 : case := (")<a<", ")<
    a<
        ").
Definition c213 : case := (")>{(", ")> {
    (
        ").
Definition c214 : case := (")>({", ")>(
     {
        ").
Definition c215 : case := (")>)a", ")>)a").
Definition c216 : case := (")>>>", ")>>>").
Definition c217 : case := (")>a)", ")>a)").
Definition c218 : case := ("),{}", "),
 {
    
}").
Definition c219 : case := ("),} ", "),

} ").
Definition c220 : case := ("),),", "),
),
").
Definition c221 : case := ("),><", "),
><
    ").
Definition c222 : case := ("),a(", "),
a(
    ").
Definition c223 : case := (")a{{", ")a {
     {
        ").
Definition c224 : case := (")a}a", ")a
}a").
Definition c225 : case := (")a)>", ")a)>").
Definition c226 : case := (")a>)", ")a>)").
Definition c227 : case := (")aa}", ")aa
}").
Definition c228 : case := (")a  ", ")a  ").
Definition c229 : case := (") },", ") 
},
").
Definition c230 : case := (") )<", ") )<
    ").
Definition c231 : case := (") >(", ") >(
    ").
Definition c232 : case := (") a{", ") a {
    ").
Definition c233 : case := (")  a", ")  a").
Definition c234 : case := ("<{}>", "<
     {
        
    }
>").
Definition c235 : case := ("<{))", "<
     {
        ))").
Definition c236 : case := ("<{>}", "<
     {
        
    >
}").
Definition c237 : case := ("<{, ", "<
     {
        ,
         ").
Definition c238 : case := ("<{ ,", "<
     {
         ,
        ").
Definition c239 : case := ("<}}<", "<
    
}
}<
").
Definition c240 : case := ("<})(", "<
    
})(
    ").
Definition c241 : case := ("<}>{", "<
}> {
").
Definition c242 : case := ("<},a", "<
    
},
a").
Definition c243 : case := ("<} >", "<
} >").
Definition c244 : case := ("<(})", "<
    (
})").
Definition c245 : case := ("<()}", "<
    ()
}").
Definition c246 : case := ("<(< ", "<
    (
        <
             ").
Definition c247 : case := ("<(,,", "<
    (
        ,
        ,
        ").
Definition c248 : case := ("<( <", "<
    (
         <
            ").
Definition c249 : case := ("<)}(", "<
    )
}(
    ").
Definition c250 : case := ("<)){", "<
    )) {
        ").
Definition c251 : case := ("<)<a", "<
    )<
        a").
Definition c252 : case := ("<),>", "<),
>").
Definition c253 : case := ("<) )", "<
    ) )").
Definition c254 : case := ("<<}}", "<
    <
        
    }
}").
Definition c255 : case := ("<<( ", "<
    <
        (
             ").
Definition c256 : case := ("<<<,", "<
    <
        <
            ,
            ").
Definition c257 : case := ("<<,<", "<
    <
        ,
        <
            ").
Definition c258 : case := ("<< (", "<
    <
         (
            ").
Definition c259 : case := ("<>}{", "<>
} {
").
Definition c260 : case := ("<>(a", "<>(
    a").
Definition c261 : case := ("<><>", "<><>").
Definition c262 : case := ("<>,)", "<>,
)").
Definition c263 : case := ("<> }", "<> 
}").
Definition c264 : case := ("<,{ ", "<
    ,
     {
         ").
Definition c265 : case := ("<,(,", "<
    ,
    (
        ,
        ").
Definition c266 : case := ("<,<<", "<
    ,
    <
        <
            ").
Definition c267 : case := ("<,,(", "<
    ,
    ,
    (
        ").
Definition c268 : case := ("<, {", "<
    ,
      {
        ").
Definition c269 : case := ("<a{a", "<
    a {
        a").
Definition c270 : case := ("<a(>", "<a(
    >").
Definition c271 : case := ("<a<)", "<
    a<
        )").
Definition c272 : case := ("<a,}", "<
    a,
    
}").
Definition c273 : case := ("<aa ", "<
    aa ").
Definition c274 : case := ("< {,", "<
      {
        ,
        ").
Definition c275 : case := ("< (<", "<
     (
        <
            ").
Definition c276 : case := ("< <(", "<
     <
        (
            ").
Definition c277 : case := ("< ,{", "<
     ,
     {
        ").
Definition c278 : case := ("< aa", "<
     aa").
Definition c279 : case := (">{{>", "> {
     {
        >").
Definition c280 : case := (">{()", "> {
    ()").
Definition c281 : case := (">{<}", "> {
    <
        
    }").
Definition c282 : case := (">{> ", "> {
    > ").
Definition c283 : case := (">{a,", "> {
    a,
    ").
Definition c284 : case := (">}{<", ">
} {
<
    ").
Definition c285 : case := (">}((", ">
}(
(
    ").
Definition c286 : case := (">}<{", ">
}<
 {
    ").
Definition c287 : case := (">}>a", ">
}>a").
Definition c288 : case := (">}a>", ">
}a>").
Definition c289 : case := (">({)", ">(
     {
        
    )").
Definition c290 : case := (">((}", ">(
    (
        
    }").
Definition c291 : case := (">() ", ">() ").
Definition c292 : case := (">(>,", ">(
    >,
    ").
Definition c293 : case := (">(a<", ">(
    a<
        ").
Definition c294 : case := (">){(", ">) {
    (
        ").
Definition c295 : case := (">)({", ">)(
     {
        ").
Definition c296 : case := (">))a", ">))a").
Definition c297 : case := (">)>>", ">)>>").
Definition c298 : case := (">)a)", ">)a)").
Definition c299 : case := ("><{}", "><
     {
        
    }").
Definition c300 : case := ("><} ", "><
    
} ").
Definition c301 : case := ("><),", "><
    ),
    ").
Definition c302 : case := ("><><", "><><
    ").
Definition c303 : case := ("><a(", "><
    a(
        ").
Definition c304 : case := (">>{{", ">> {
     {
        ").
Definition c305 : case := (">>}a", ">>
}a").
Definition c306 : case := (">>)>", ">>)>").
Definition c307 : case := (">>>)", ">>>)").
Definition c308 : case := (">>a}", ">>a
}").
Definition c309 : case := (">>  ", ">>  ").
Definition c310 : case := (">,},", ">,

},
").
Definition c311 : case := (">,)<", ">,
)<
    ").
Definition c312 : case := (">,>(", ">,
>(
    ").
Definition c313 : case := (">,a{", ">,
a {
    ").
Definition c314 : case := (">, a", ">,
 a").
Definition c315 : case := (">a}>", ">a
}>").
Definition c316 : case := (">a))", ">a))").
Definition c317 : case := (">a>}", ">a>
}").
Definition c318 : case := (">a, ", ">a,
 ").
Definition c319 : case := (">a ,", ">a ,
").
Definition c320 : case := ("> }<", "> 
}<
").
Definition c321 : case := ("> )(", "> )(
    ").
Definition c322 : case := ("> >{", "> > {
    ").
Definition c323 : case := ("> ,a", "> ,
a").
Definition c324 : case := (">  >", ">  >").
Definition c325 : case := (",{})", ",
 {
    
})").
Definition c326 : case := (",{)}", ",
 {
    )
}").
Definition c327 : case := (",{< ", ",
 {
    <
         ").
Definition c328 : case := (",{,,", ",
 {
    ,
    ,
    ").
Definition c329 : case := (",{ <", ",
 {
     <
        ").
Definition c330 : case := (",}}(", ",

}
}(
").
Definition c331 : case := (",}){", ",

}) {
").
Definition c332 : case := (",}<a", ",

}<
a").
Definition c333 : case := (",},>", ",

},
>").
Definition c334 : case := (",} )", ",

} )").
Definition c335 : case := (",(}}", ",
(
    
}
}").
Definition c336 : case := (",(( ", ",
(
    (
         ").
Definition c337 : case := (",(<,", ",
(
    <
        ,
        ").
Definition c338 : case := (",(,<", ",
(
    ,
    <
        ").
Definition c339 : case := (",( (", ",
(
     (
        ").
Definition c340 : case := (",)}{", ",
)
} {
").
Definition c341 : case := (",)(a", ",
)(
    a").
Definition c342 : case := (",)<>", ",
)<>").
Definition c343 : case := (",),)", ",
),
)").
Definition c344 : case := (",) }", ",
) 
}").
Definition c345 : case := (",<{ ", ",
<
     {
         ").
Definition c346 : case := (",<(,", ",
<
    (
        ,
        ").
Definition c347 : case := (",<<<", ",
<
    <
        <
            ").
Definition c348 : case := (",<,(", ",
<
    ,
    (
        ").
Definition c349 : case := (",< {", ",
<
      {
        ").
Definition c350 : case := (",>{a", ",
> {
    a").
Definition c351 : case := (",>(>", ",
>(
    >").
Definition c352 : case := (",><)", ",
><
    )").
Definition c353 : case := (",>,}", ",
>,

}").
Definition c354 : case := (",>a ", ",
>a ").
Definition c355 : case := (",,{,", ",
,
 {
    ,
    ").
Definition c356 : case := (",,(<", ",
,
(
    <
        ").
Definition c357 : case := (",,<(", ",
,
<
    (
        ").
Definition c358 : case := (",,,{", ",
,
,
 {
    ").
Definition c359 : case := (",,aa", ",
,
aa").
Definition c360 : case := (",a{>", ",
a {
    >").
Definition c361 : case := (",a()", ",
a()").
Definition c362 : case := (",a<}", ",
a<
    
}").
Definition c363 : case := (",a> ", ",
a> ").
Definition c364 : case := (",aa,", ",
aa,
").
Definition c365 : case := (", {<", ",
  {
    <
        ").
Definition c366 : case := (", ((", ",
 (
    (
        ").
Definition c367 : case := (", <{", ",
 <
     {
        ").
Definition c368 : case := (", >a", ",
 >a").
Definition c369 : case := (", a>", ",
 a>").
Definition c370 : case := ("a{{)", "a {
     {
        )").
Definition c371 : case := ("a{(}", "a {
    (
        
    }").
Definition c372 : case := ("a{) ", "a {
    ) ").
Definition c373 : case := ("a{>,", "a {
    >,
    ").
Definition c374 : case := ("a{a<", "a {
    a<
        ").
Definition c375 : case := ("a}{(", "a
} {
(
    ").
Definition c376 : case := ("a}({", "a
}(
 {
    ").
Definition c377 : case := ("a})a", "a
})a").
Definition c378 : case := ("a}>>", "a
}>>").
Definition c379 : case := ("a}a)", "a
}a)").
Definition c380 : case := ("a({}", "a(
     {
        
    }").
Definition c381 : case := ("a(} ", "a(
    
} ").
Definition c382 : case := ("a(),", "a(),
").
Definition c383 : case := ("a(><", "a(
    ><
        ").
Definition c384 : case := ("a(a(", "a(
    a(
        ").
Definition c385 : case := ("a){{", "a) {
     {
        ").
Definition c386 : case := ("a)}a", "a)
}a").
Definition c387 : case := ("a))>", "a))>").
Definition c388 : case := ("a)>)", "a)>)").
Definition c389 : case := ("a)a}", "a)a
}").
Definition c390 : case := ("a)  ", "a)  ").
Definition c391 : case := ("a<},", "a<
    
},
").
Definition c392 : case := ("a<)<", "a<
    )<
        ").
Definition c393 : case := ("a<>(", "a<>(
    ").
Definition c394 : case := ("a<a{", "a<
    a {
        ").
Definition c395 : case := ("a< a", "a<
     a").
Definition c396 : case := ("a>}>", "a>
}>").
Definition c397 : case := ("a>))", "a>))").
Definition c398 : case := ("a>>}", "a>>
}").
Definition c399 : case := ("a>, ", "a>,
 ").
Definition c400 : case := ("a> ,", "a> ,
").
Definition c401 : case := ("a,}<", "a,

}<
").
Definition c402 : case := ("a,)(", "a,
)(
    ").
Definition c403 : case := ("a,>{", "a,
> {
    ").
Definition c404 : case := ("a,,a", "a,
,
a").
Definition c405 : case := ("a, >", "a,
 >").
Definition c406 : case := ("aa})", "aa
})").
Definition c407 : case := ("aa)}", "aa)
}").
Definition c408 : case := ("aa< ", "aa<
     ").
Definition c409 : case := ("aa,,", "aa,
,
").
Definition c410 : case := ("aa <", "aa <
    ").
Definition c411 : case := ("a }(", "a 
}(
").
Definition c412 : case := ("a ){", "a ) {
    ").
Definition c413 : case := ("a <a", "a <
    a").
Definition c414 : case := ("a ,>", "a ,
>").
Definition c415 : case := ("a  )", "a  )").
Definition c416 : case := (" {}}", "  {
    
}
}").
Definition c417 : case := (" {( ", "  {
    (
         ").
Definition c418 : case := (" {<,", "  {
    <
        ,
        ").
Definition c419 : case := (" {,<", "  {
    ,
    <
        ").
Definition c420 : case := (" { (", "  {
     (
        ").
Definition c421 : case := (" }}{", " 
}
} {
").
Definition c422 : case := (" }(a", " 
}(
a").
Definition c423 : case := (" }<>", " 
}<>").
Definition c424 : case := (" },)", " 
},
)").
Definition c425 : case := (" } }", " 
} 
}").
Definition c426 : case := (" ({ ", " (
     {
         ").
Definition c427 : case := (" ((,", " (
    (
        ,
        ").
Definition c428 : case := (" (<<", " (
    <
        <
            ").
Definition c429 : case := (" (,(", " (
    ,
    (
        ").
Definition c430 : case := (" ( {", " (
      {
        ").
Definition c431 : case := (" ){a", " ) {
    a").
Definition c432 : case := (" )(>", " )(
    >").
Definition c433 : case := (" )<)", " )<
    )").
Definition c434 : case := (" ),}", " ),

}").
Definition c435 : case := (" )a ", " )a ").
Definition c436 : case := (" <{,", " <
     {
        ,
        ").
Definition c437 : case := (" <(<", " <
    (
        <
            ").
Definition c438 : case := (" <<(", " <
    <
        (
            ").
Definition c439 : case := (" <,{", " <
    ,
     {
        ").
Definition c440 : case := (" <aa", " <
    aa").
Definition c441 : case := (" >{>", " > {
    >").
Definition c442 : case := (" >()", " >()").
Definition c443 : case := (" ><}", " ><
    
}").
Definition c444 : case := (" >> ", " >> ").
Definition c445 : case := (" >a,", " >a,
").
Definition c446 : case := (" ,{<", " ,
 {
    <
        ").
Definition c447 : case := (" ,((", " ,
(
    (
        ").
Definition c448 : case := (" ,<{", " ,
<
     {
        ").
Definition c449 : case := (" ,>a", " ,
>a").
Definition c450 : case := (" ,a>", " ,
a>").
Definition c451 : case := (" a{)", " a {
    )").
Definition c452 : case := (" a(}", " a(
    
}").
Definition c453 : case := (" a) ", " a) ").
Definition c454 : case := (" a>,", " a>,
").
Definition c455 : case := (" aa<", " aa<
    ").
Definition c456 : case := ("  {(", "   {
    (
        ").
Definition c457 : case := ("  ({", "  (
     {
        ").
Definition c458 : case := ("  )a", "  )a").
Definition c459 : case := ("  >>", "  >>").
Definition c460 : case := ("  a)", "  a)").
Definition c461 : case := ("<<a>baéaéabé,baa,é,éb>,a", "<<a>baéaéabé,
baa,
é,
éb>,
a").
Definition c462 : case := ("<((a)ba,,aa,abaé,a,éaé,baaaaé,aa,,aaéb)>", "<
    (
        (a)ba,
        ,
        aa,
        abaé,
        a,
        éaé,
        baaaaé,
        aa,
        ,
        aaéb
    )
>").
Definition c463 : case := ("x{(é,bé,,a,a,,ébé,é,,,b,aééaa),a", "x {
    (é, bé, , a, a, , ébé, é, , , b, aééaa),
    a").
Definition c464 : case := ("x{<aéb,ébbb,ébééaéé,,abbéébbééééaé,éaaaabaéé,>}", "x {
    <
        aéb,
        ébbb,
        ébééaéé,
        ,
        abbéébbééééaé,
        éaaaabaéé,
        
    >
}").
Definition c465 : case := ("(,,,aa{,,bbééaaébaba,bbaébba,aaé,)", "(
    ,
    ,
    ,
    aa {
        ,
        ,
        bbééaaébaba,
        bbaébba,
        aaé,
        
    )").
Definition c466 : case := ("]x8xbb;,x;[,:[;aa,(a][bbx[,<x:[,8>,({(a,{},{(u,ab;:;a;:bxx),<]]xa[,:a][a]8>,a;x:]x8;[[})}))", "]x8xbb;,
x;[,
:[;aa,
(
    a][bbx[,
    <x:[,
    8>,
    (
         {
            (
                a,
                 {
                    
                },
                 {
                    (u, ab;:;a;:bxx),
                    <]]xa[,
                    :a][a]8>,
                    a;x:]x8;[[
                }
            )
        }
    )
)").
Definition c467 : case := ("{({][:[a;[x;88,{<b]8x;x;[x8a8,][:;;x:8,(u),[8::[[xb,{}>},<{<;x[]],u,u,u,u>,]]bb;[a8a},{{]8;[:a]b}}>})}", " {
    (
         {
            ][:[a;[x;88,
             {
                <
                    b]8x;x;[x8a8,
                    ][:;;x:8,
                    (u),
                    [8::[[xb,
                     {
                        
                    }
                >
            },
            <
                 {
                    <;x[]],
                    u,
                    u,
                    u,
                    u>,
                    ]]bb;[a8a
                },
                 {
                     {
                        ]8;[:a]b
                    }
                }
            >
        }
    )
}").
Definition c468 : case := ("({{{{x8a;]8,<u,u,[[xab],u,;;b>,{u,::]];]8],u,::},(u,u,[],x8)},<<[b[,u,[[x[;b:x:ax,u>,<>>},({[[8[]axx:8},((u))),(8;]:8b;;,(<xxa,u,u>,;)),{<(bbab8];xx)>,[[b;ba[[;xa,{(u,;x[8a[x;8x;x),[a:b8a,8b:a8[}},{{},;b;]];8,<88]88,(:bx8)>}}})", "(
     {
         {
             {
                 {
                    x8a;]8,
                    <u,
                    u,
                    [[xab],
                    u,
                    ;;b>,
                     {
                        u,
                        ::]];]8],
                        u,
                        ::
                    },
                    (u, u, [], x8)
                },
                <<[b[,
                u,
                [[x[;b:x:ax,
                u>,
                <>>
            },
            (
                 {
                    [[8[]axx:8
                },
                ((u))
            ),
            (8;]:8b;;, (<xxa, u, u>, ;)),
             {
                <(bbab8];xx)>,
                [[b;ba[[;xa,
                 {
                    (u, ;x[8a[x;8x;x),
                    [a:b8a,
                    8b:a8[
                }
            },
             {
                 {
                    
                },
                ;b;]];8,
                <88]88,
                (:bx8)>
            }
        }
    }
)").
Definition c469 : case := ("(:bbb:xa:),;,<<>>,{{((<x,a[x8b;b,{u,u,u,[8xa,u}>,<{},(u,u,u,u)>,8a8a;,{}),:;;:,:;x][abb:,][xa]8::8,abab]aab]:x)},:bb[[[[[8[8a,;:;;ax8,<(({(u)},{{u,8xxaa]}}))>}", "(:bbb:xa:),
;,
<<>>,
 {
     {
        (
            (
                <
                    x,
                    a[x8b;b,
                     {
                        u,
                        u,
                        u,
                        [8xa,
                        u
                    }
                >,
                <
                     {
                        
                    },
                    (u, u, u, u)
                >,
                8a8a;,
                 {
                    
                }
            ),
            :;;:,
            :;x][abb:,
            ][xa]8::8,
            abab]aab]:x
        )
    },
    :bb[[[[[8[8a,
    ;:;;ax8,
    <
        (
            (
                 {
                    (u)
                },
                 {
                     {
                        u,
                        8xxaa]
                    }
                }
            )
        )
    >
}").
Definition c470 : case := ("{8xb8,{[:a:xb];][,bxa]}}", " {
    8xb8,
     {
        [:a:xb];][,
        bxa]
    }
}").
Definition c471 : case := ("{}", " {
    
}").
Definition c472 : case := ("b", "b").
Definition c473 : case := ("b[x8,x[b:]x", "b[x8,
x[b:]x").
Definition c474 : case := ("{<<b8;x][:[]:;,<<b8]aaxa]:,{u,;;]]:b]x,x];ab[;ax:];}>,x8xb,{([:,]:8,u),<u,u>}>>>}", " {
    <
        <
            b8;x][:[]:;,
            <
                <
                    b8]aaxa]:,
                     {
                        u,
                        ;;]]:b]x,
                        x];ab[;ax:];
                    }
                >,
                x8xb,
                 {
                    ([:, ]:8, u),
                    <u,
                    u>
                }
            >
        >
    >
}").
Definition c475 : case := ("bbb;aa", "bbb;aa").
Definition c476 : case := ("{:,:8:[b:::a]x8},xb;8bb[ba[8x,<<>>,(({}),xba[8;:8,x:xbax:a),(;b;b;b,;[a,{},][]][;:]],{b})", " {
    :,
    :8:[b:::a]x8
},
xb;8bb[ba[8x,
<<>>,
(
    (
         {
            
        }
    ),
    xba[8;:8,
    x:xbax:a
),
(
    ;b;b;b,
    ;[a,
     {
        
    },
    ][]][;:]],
     {
        b
    }
)").
Definition c477 : case := ("(),:b[[];b;,[x", "(),
:b[[];b;,
[x").
Definition c478 : case := ("((<(bx8:[:[b;bxx),<<;]:;8,(a][b];]:;b)>,]:[,(),([b;8b,bxaa[;;[)>>,{x[[,(<(8]:[bx;x:,:[,xbbbb[[[:8a)>,a),{},:bx]a[8]:,{<{a:;8b,;8,u}>,:bb[b;],(]b;8;:x,{;a;[[a[;,u,xbb;;a;]a[:,[]b8bb;8}),(;xa]b]88,;b:a;;][[,{})}}))", "(
    (
        <
            (bx8:[:[b;bxx),
            <
                <;]:;8,
                (a][b];]:;b)>,
                ]:[,
                (),
                ([b;8b, bxaa[;;[)
            >
        >,
         {
            x[[,
            (<(8]:[bx;x:, :[, xbbbb[[[:8a)>, a),
             {
                
            },
            :bx]a[8]:,
             {
                <
                     {
                        a:;8b,
                        ;8,
                        u
                    }
                >,
                :bb[b;],
                (
                    ]b;8;:x,
                     {
                        ;a;[[a[;,
                        u,
                        xbb;;a;]a[:,
                        []b8bb;8
                    }
                ),
                (
                    ;xa]b]88,
                    ;b:a;;][[,
                     {
                        
                    }
                )
            }
        }
    )
)").
Definition c479 : case := ("{({{:8,<bx]:]]aaa]>},];:;xba::b,<]:b:;:]:;:;,<{u},a[:x[,]ax,<u,]x;]b;,]bxa>>>})}", " {
    (
         {
             {
                :8,
                <bx]:]]aaa]>
            },
            ];:;xba::b,
            <
                ]:b:;:]:;:;,
                <
                     {
                        u
                    },
                    a[:x[,
                    ]ax,
                    <u,
                    ]x;]b;,
                    ]bxa>
                >
            >
        }
    )
}").
Definition c480 : case := ("{x8xxa]a,xxa},<8,<{b8,[},(),b[;b8aaaax8a>,{(;88]8,;;:]8),(),axaxbxx,{:b;;}},:][>,<{},;:[]a;bx8a8,((;8:x,a[8:8b))>", " {
    x8xxa]a,
    xxa
},
<
    8,
    <
         {
            b8,
            [
        },
        (),
        b[;b8aaaax8a
    >,
     {
        (;88]8, ;;:]8),
        (),
        axaxbxx,
         {
            :b;;
        }
    },
    :][
>,
<
     {
        
    },
    ;:[]a;bx8a8,
    ((;8:x, a[8:8b))
>").
Definition c481 : case := ("(()),],{},(;:];xa,{({}),(ab8xa;8ab[a]),{x]a8,<{{u}}>,{<8a>,<<u,u>>,<>,{<:8a;b,u,x8xxab:[;8b[>,[;]bb8[a]}},({[b]bx,88b,xx;:a,[::x:b[;x8]},<{]xa]xxxx}>)}})", "(()),
],
 {
    
},
(
    ;:];xa,
     {
        (
             {
                
            }
        ),
        (ab8xa;8ab[a]),
         {
            x]a8,
            <
                 {
                     {
                        u
                    }
                }
            >,
             {
                <8a>,
                <<u,
                u>>,
                <>,
                 {
                    <:8a;b,
                    u,
                    x8xxab:[;8b[>,
                    [;]bb8[a]
                }
            },
            (
                 {
                    [b]bx,
                    88b,
                    xx;:a,
                    [::x:b[;x8]
                },
                <
                     {
                        ]xa]xxxx
                    }
                >
            )
        }
    }
)").
Definition c482 : case := ("<;xa;axx:,<[:[8a];x:x;b,8[xa[[]:[b],{<<(8[,][:;aab8]:8,x;xx88]]x,aba[:b;,u),8b8x:ba8,{u,u}>,x;a:xx[[,{<u,u,u,u,a[a>,(axxa::xa[a,bx;;[])}>}>>", "<
    ;xa;axx:,
    <
        [:[8a];x:x;b,
        8[xa[[]:[b],
         {
            <
                <
                    (
                        8[,
                        ][:;aab8]:8,
                        x;xx88]]x,
                        aba[:b;,
                        u
                    ),
                    8b8x:ba8,
                     {
                        u,
                        u
                    }
                >,
                x;a:xx[[,
                 {
                    <u,
                    u,
                    u,
                    u,
                    a[a>,
                    (axxa::xa[a, bx;;[])
                }
            >
        }
    >
>").
Definition c483 : case := ("<]b8a[[bb;a,({{({[x::8[[::,;,]]ab;:;b,u,u}),;;a8x}},]8[:x]],xx;;:,8b]:abxb),a,{(<88x8;:[x,<::x[[;][:a;b,[a;[:;a,{u,u,u,u},<>>>,xa]:8b;x)}>,<bb[bbx;a>", "<
    ]b8a[[bb;a,
    (
         {
             {
                (
                     {
                        [x::8[[::,
                        ;,
                        ]]ab;:;b,
                        u,
                        u
                    }
                ),
                ;;a8x
            }
        },
        ]8[:x]],
        xx;;:,
        8b]:abxb
    ),
    a,
     {
        (
            <
                88x8;:[x,
                <
                    ::x[[;][:a;b,
                    [a;[:;a,
                     {
                        u,
                        u,
                        u,
                        u
                    },
                    <>
                >
            >,
            xa]:8b;x
        )
    }
>,
<bb[bbx;a>").
Definition c484 : case := ("<a:b:][b:,[8>,][a,[[b[b8]aaxb,<>,{<;ba:aa,;;x]x]:x]]8[>,x]8b:;x,{{},]8x[b:[;;b,:x];[b],{{;;8a;8:::;]x},:88:]axa8[b8}}}", "<a:b:][b:,
[8>,
][a,
[[b[b8]aaxb,
<>,
 {
    <;ba:aa,
    ;;x]x]:x]]8[>,
    x]8b:;x,
     {
         {
            
        },
        ]8x[b:[;;b,
        :x];[b],
         {
             {
                ;;8a;8:::;]x
            },
            :88:]axa8[b8
        }
    }
}").
Definition c485 : case := ("{(x8;aax[x:ba8),(<<{ax;:a];,;,][;],x:[,bb},<x],()>>>)}", " {
    (x8;aax[x:ba8),
    (
        <
            <
                 {
                    ax;:a];,
                    ;,
                    ][;],
                    x:[,
                    bb
                },
                <x],
                ()>
            >
        >
    )
}").
Definition c486 : case := ("xa,{{{(<<u,;,ab>,(:[a]xx,:a[[]x,u,:xabb[a;),bx;;:];]xa:,<>>,bbb]8:;],a;a::8:;x]:8)}}}", "xa,
 {
     {
         {
            (
                <
                    <u,
                    ;,
                    ab>,
                    (:[a]xx, :a[[]x, u, :xabb[a;),
                    bx;;:];]xa:,
                    <>
                >,
                bbb]8:;],
                a;a::8:;x]:8
            )
        }
    }
}").
Definition c487 : case := (":;[8b][;,;aa8,[xa[8a", ":;[8b][;,
;aa8,
[xa[8a").
Definition c488 : case := (":[a]b:8a,ab:8]][;aax:", ":[a]b:8a,
ab:8]][;aax:").
Definition c489 : case := (":x:8axa,b::x]8,xx;],{]x],::b;b;8[8a]8}", ":x:8axa,
b::x]8,
xx;],
 {
    ]x],
    ::b;b;8[8a]8
}").
Definition c490 : case := ("b,[]x:,:,<a,]:xb]]a,(]]b,({{;8,<u,u>,<8]b:xa];8x[;,u,b8bx;8aa;>},{8xax];;,<u,u,u>},{{u},<:8x;,u,u>,<u,u,ab:]>,88b,{u,u,u,:8];xa][],x;88:;8b;;}},a[a[8bb;}),<[][[a]:,(8;x8xa[;:;,())>)>", "b,
[]x:,
:,
<
    a,
    ]:xb]]a,
    (
        ]]b,
        (
             {
                 {
                    ;8,
                    <u,
                    u>,
                    <8]b:xa];8x[;,
                    u,
                    b8bx;8aa;>
                },
                 {
                    8xax];;,
                    <u,
                    u,
                    u>
                },
                 {
                     {
                        u
                    },
                    <:8x;,
                    u,
                    u>,
                    <u,
                    u,
                    ab:]>,
                    88b,
                     {
                        u,
                        u,
                        u,
                        :8];xa][],
                        x;88:;8b;;
                    }
                },
                a[a[8bb;
            }
        ),
        <[][[a]:,
        (8;x8xa[;:;, ())>
    )
>").
Definition c491 : case := (";}),]}:
(Za));é 	)Z]>[bZ]𝄞	[	 }Z :<}Z€><([Z[Z>a
(;<b];),>))<€]:	 ><;),>Z:𝄞é;< ,{	{,	<𝄞€)<((,
 bZ𝄞{", ";
}),
]
}:
(Za));é 	)Z]>[bZ]𝄞	[	 
}Z :<
}Z€><([Z[Z>a
(;<b];), >))<€]:	 ><;),
>Z:𝄞é;<
 ,
 {
	 {
,
	<
𝄞€)<
    (
        (
            ,
            
 bZ𝄞 {
                ").
Definition c492 : case := ("Z
, ;é𝄞b	:{[{Zb	>(aba(b€(b,}	),)[>é<€b)]>	€}€𝄞);	{𝄞}>	))	,b(€€}
;;[b	[]	€{𝄞𝄞	 ]{
	  	,;: <{:}b<<𝄞 >Z}	€},,))}[é{[Zé[ ;€
(); >( ]𝄞[b)[	]𝄞Z	
Zé)[é𝄞	éé	:a€é	", "Z
,
 ;é𝄞b	: {
    [ {
        Zb	>(aba(b€(b, 
    }	), )[>é<€b)]>	€
}€𝄞);	 {
    𝄞
}>	))	,
b(
    €€
}
;;[b	[]	€ {
    𝄞𝄞	 ] {
        
	  	,
        ;: <
             {
                :
            }b<
                <𝄞 >Z
            }	€
        },
        ,
        
    ))
}[é {
    [Zé[ ;€
(); 
>( ]𝄞[b)[	]𝄞Z	
Zé)[é𝄞	éé	:a€é	").
Definition c493 : case := ("[a{]ab}Zé[,)𝄞(]}[<[)b)a{(  €	,{(
>]é€<(Zé}{<€b], >>	Z)(𝄞b]€)>a	€}a,éa:a>]b	:,𝄞>𝄞>
{},{a{)aa[Z>{	𝄞Z€(€(Z  ;<Z
[}a	aa,Z{a<>€bé[(	𝄞Z]}bZ)),:é
	: })){éZ}<[é €é){;€<[𝄞bZZ[	𝄞}	)
:[a]; é	),éé<	Zé(;[,,	)<a	,<b
}b]a,)𝄞:<𝄞  	€a:[}aé: b)
,;ab", "[a {
    ]ab
}Zé[,
)𝄞(]
}[<
[)b)a {
    (
          €	,
         {
            (
                

            >]é€<
                (
                    Zé
                } {
                    <€b],
                     >
                >	Z
            )(𝄞b]€)>a	€
        }a,
        éa:a>]b	:,
        𝄞>𝄞>
 {
            
        },
         {
            a {
                
            )aa[Z> {
                	𝄞Z€(
                    €(
                        Z  ;<
                            Z
[
                        }a	aa,
                        Z {
                            a<>€bé[(	𝄞Z]
                        }bZ)
                    ),
                    :é
	: 
                }
            )
        ) {
            éZ
        }<
            [é €é) {
                ;€<
                    [𝄞bZZ[	𝄞
                }	)
:[a]; é	),
                éé<
                    	Zé(;[, , 	)<
                        a	,
                        <
                            b

                        }b]a,
                        )𝄞:<
                            𝄞  	€a:[
                        }aé: b)
,
                        ;ab").
Definition c494 : case := ("b> {a, [é(𝄞<]Z};} ](
𝄞Z{:€<€ZbZ;éb,,[a;€)b;:Z{𝄞(Z,]Z[>ba b
(a
,<", "b>  {
    a,
     [é(
        𝄞<
            ]Z
        };
    } ](
        
𝄞Z {
            :€<
                €ZbZ;éb,
                ,
                [a;€
            )b;:Z {
                𝄞(
                    Z,
                    ]Z[
                >ba b
(
                    a
,
                    <
                        ").
Definition c495 : case := ("{:;𝄞]	)€		é
:é(Za}}{];::{	]{
[}(<{𝄞b>
;<[a	b]	b)𝄞{<><(]€€}€}{€<{<,𝄞}é 	,,Z{[𝄞}é<]);
,[)
>) a𝄞<]> a>;)a	}>,𝄞		𝄞>)Z,,Z}<Z
Z{(Z	:<(}b ab;;b 	}:𝄞", " {
    :;𝄞]	)€		é
:é(
        Za
    }
} {
    ];:: {
        	] {
            
[
        }(
            <
                 {
                    𝄞b
                >
;<
                    [a	b]	b
                )𝄞 {
                    <><
                        (
                            ]€€
                        }€
                    } {
                        €<
                             {
                                <
                                    ,
                                    𝄞
                                }é 	,
                                ,
                                Z {
                                    [𝄞
                                }é<]
                            );
,
                            [
                        )
>) a𝄞<]> a
                    >;)a	
                }
            >,
            𝄞		𝄞
        >)Z,
        ,
        Z
    }<
        Z
Z {
            (
                Z	:<
                    (
                        
                    }b ab;;b 	
                }:𝄞").
Definition c496 : case := (">Z><} (>𝄞>é ]b,,Z){,
a b	aZZ >ZZ[aé	>{𝄞éZ	<b,b(ab<,Z€b€(]é;<:),,
[;é	)>a𝄞𝄞;	)a(;
a[{<;€ ;>a
 [a(	:](a[,<;,(:b(>:a)(𝄞<<ba
<éb,,Z<<	([é:],[>€𝄞)€}<
 [a	<}(𝄞a
)]é	𝄞<,(]b[;éb é€), <<	: >:Z{{>éa", ">Z><
} (>𝄞>é ]b, , Z) {
,

a b	aZZ >ZZ[aé	> {
    𝄞éZ	<
        b,
        b(ab<
            , Z€b€(]é;<:), , 
[;é	)>a𝄞𝄞;	)a(
                ;
a[ {
                    <;€ ;>a
 [a(
                        	:](
                            a[,
                            <;,
                            (
                                :b(>:a)(
                                    𝄞<
                                        <
                                            ba
<
                                                éb,
                                                ,
                                                Z<
                                                    <	([é:], [>€𝄞)€
                                                }<
                                                    
 [a	<
                                                        
                                                    }(𝄞a
)]é	𝄞<
                                                        ,
                                                        (]b[;éb é€),
                                                         <
                                                            <	: >:Z {
                                                                 {
                                                                    
                                                                >éa").
Definition c497 : case := ("a,>,]((
)	<} 
>,	;:<;€}𝄞,
>	><)Zb:
{>Z€(	> 	{<€(}é:<<)
>€𝄞];b
€;	; :a:b
Zé(>Z
b:a({, )€𝄞>>>é[;}[,;€>	Zb[ b; 𝄞[]{	a aa{<

a𝄞<)[	}:: 

:;
€}(>};,{[;a<a>>{]((; 
}Z		
<€}:𝄞]{ {a:,{}](	ZZ}[],[€(a ;é}<]:>	{(𝄞b:a𝄞];,€ {Z	:;€a	]]{é[𝄞>;:b)	}<{𝄞]a[,<;)[]:;€)aZ(𝄞[a>>
	,<:,([{](<𝄞 ,𝄞
b])}>é [€", "a,
>,
]((
)	<
} 
>, 	;:<;€
}𝄞, 
>	><
)Zb:
 {

>Z€(
	> 	 {
    <
        €(
    }é:<<)
>€𝄞];b
€;	; :a:b
Zé(
        >Z
b:a(
             {
                ,
                 
            )€𝄞
        >>>é[;
    }[,
    ;€>	Zb[ b; 𝄞[] {
        	a aa {
            <
                

a𝄞<
            )[	
        }:: 

:;
€
    }(
        >
    };,
     {
        [;a<a>
    > {
        ](
            (
                ; 

            }Z		
<
                €
            }:𝄞] {
                  {
                    a:,
                     {
                        
                    }](
                        	ZZ
                    }[],
                    [€(
                        a ;é
                    }<]:>	 {
                        (
                            𝄞b:a𝄞];,
                            €  {
                                Z	:;€a	]] {
                                    é[𝄞
                                >;:b
                            )	
                        }<
                             {
                                𝄞]a[,
                                <;
                            )[]:;€
                        )aZ(
                            𝄞[a>
                        >
	,
                        <
                            :,
                            (
                                [ {
                                    ](<𝄞 , 𝄞
b])
                                }>é [€").
Definition c498 : case := (" (>)}€)b}Z][ba[;;𝄞:>é]
(bé],>[,a<(𝄞()< <€
Z]((	𝄞]]é{Z[<>é:b
,𝄞:;€	é <
({:)(]	}€}	 [€>(:)<<€>:b	𝄞	(Z::<Z:Z	};Z} €€ [bé;:>:, <𝄞𝄞(;:[([},[€[	{>:𝄞𝄞(	[	𝄞:
b,𝄞éb,b)
)€{𝄞)>é𝄞€𝄞	,Z]Z𝄞 >
<€a	
(", " (>)
}€)b
}Z][ba[;;𝄞:>é]
(
bé],
>[,
a<
(
    𝄞()<
         <
            €
Z](
                (
                    	𝄞]]é {
                        Z[<>é:b
,
                        𝄞:;€	é <
                            
(
                                 {
                                    :
                                )(
                                    ]	
                                }€
                            }	 [€
                        >(:)<
                            <€>:b	𝄞	(
                                Z::<Z:Z	
                            };Z
                        } €€ [bé;:>:,
                         <
                            𝄞𝄞(
                                ;:[(
                                    [
                                },
                                [€[	 {
                                    
                                >:𝄞𝄞(	[	𝄞:
b, 𝄞éb, b)

                            )€ {
                                𝄞
                            )
                        >é𝄞€𝄞	,
                        Z]Z𝄞 
                    >
<
                        €a	
(
                            ").
Definition c499 : case := ("];:𝄞aéé [€)}]b€é::;) } 	()])b,	{; [( }Z<Z>€)b]:,}{)é) b(:>é){ (𝄞Z a
Zé>b}] )> Z€ 𝄞<	;€<;[€a, )b€€{[> Z	{Z:}({é>é])
	ab)>[€
[𝄞Z, ,: é𝄞	
b𝄞,é(;
é  < ]Zé; ]  €}] €,,b<,Za	[>𝄞a ;{Z
;;aéa
:;a>[};;Z,, ;{	,𝄞::", "];:𝄞aéé [€)
}]b€é::;) 
} 	()])b,
	 {
; [( 
}Z<Z>€)b]:,

} {
)é) b(:>é) {
 (𝄞Z a
Zé>b
}] )> Z€ 𝄞<
	;€<
;[€a,
 )b€€ {
    [
> Z	 {
    Z:
}(
     {
        é
    >é]
)
	ab)>[€
[𝄞Z,
 ,
: é𝄞	
b𝄞,
é(
    ;
é  <
         ]Zé; ]  €
    }] €,
    ,
    b<,
    Za	[>𝄞a ; {
        Z
;;aéa
:;a
    >[
};;Z,
,
 ; {
    	,
    𝄞::").
Definition c500 : case := ("){;Z[a}Z
:𝄞aZ)][€:a	[]aaZ𝄞b)]Z𝄞	;}({𝄞Z	;a𝄞a
)aaa<b𝄞Zaé{𝄞𝄞€:	ba[(	;(>é€]{,a:,Z€;{;<;ba;):é, 
é
:

é:𝄞}(,𝄞(aa> 	€(			 , >,{€ ],,)(
(	:éa (:	a(>],>
𝄞€)(	€>a}]𝄞	[
 	b;>{;
]	])	a	{𝄞
)𝄞b𝄞>a}	𝄞 b}<)€;a}é:b}éa{	,):;	a(
	]Zé𝄞{;}}}<[ é)])€{>Z>(	)<é(:a	,< :Z", ") {
    ;Z[a
}Z
:𝄞aZ)][€:a	[]aaZ𝄞b)]Z𝄞	;
}(
 {
    𝄞Z	;a𝄞a

)aaa<
    b𝄞Zaé {
        𝄞𝄞€:	ba[(
            	;(
                
            >é€] {
                ,
                a:,
                Z€; {
                    ;<;ba;
                ):é,
                 
é
:

é:𝄞
            }(
                ,
                𝄞(
                    aa> 	€(
                        			 ,
                         >,
                         {
                            € ],
                            ,
                            
                        )(
                            
(
                                	:éa (
                                    :	a(>], >
𝄞€)(
                                        	€>a
                                    }]𝄞	[
 	b;> {
                                        ;
]	]
                                    )	a	 {
                                        𝄞

                                    )𝄞b𝄞>a
                                }	𝄞 b
                            }<
                                
                            )€;a
                        }é:b
                    }éa {
                        	,
                        
                    ):;	a(
                        
	]Zé𝄞 {
                            ;
                        }
                    }
                }<
                    [ é
                )]
            )€ {
                
            >Z
        >(	)<
            é(
                :a	,
                <
                     :Z").
Definition c501 : case := ("	(:>Z][𝄞{€[<
€é>é€
€b;}>(,€<)>Z{𝄞é:,:]><;}𝄞[)b]	𝄞{[ ,>	)}	 :ZZ}{ },[},

Z ;<<:a{(b] :a>)>	€Z[a,]b{};		({>	ba;< {€€
{€(]𝄞éa
]>Z( a𝄞]𝄞𝄞,	[b]𝄞,{ ;]𝄞Z<;", "	(
    :>Z][𝄞 {
        €[<
€é>é€
€b;
    }>(, €<)>Z {
        𝄞é:,
        :]><
            ;
        }𝄞[
    )b]	𝄞 {
        [ ,
        
    >	)
}	 :ZZ
} {
 
},
[
},


Z ;<
<
:a {
    (b] :a
>)
>	€Z[a,
]b {

};		(
 {
    >	ba;<
          {
            €€
 {
                €(
                    ]𝄞éa
]
                >Z(
                     a𝄞]𝄞𝄞,
                    	[b]𝄞,
                     {
                         ;]𝄞Z<
                            ;").
Definition c502 : case := ("<<b] b]
:]b;a𝄞
éb a>é:é>:	}b]Z
;a{)b  (a[} {Z𝄞},((((	]>(b;Z<(a<a[)<}]€>;<
(,𝄞]é:;]𝄞é
a𝄞	𝄞
𝄞>::[b};a	 (
a(𝄞€:);)]	([	<,{{]é[[ { 	;)a)bb}}€
é:[<>],)]€a>
])}{[é<		;,[(](,,éZ𝄞Z;𝄞𝄞>é €>Za	é:", "<<b] b]
:]b;a𝄞
éb a>é:é>:	
}b]Z
;a {
)b  (
    a[
}  {
    Z𝄞
},
(
    (
        (
            (
                	]>(
                    b;Z<
                        (a<
                            a[)<
                        }]€>;<
(
                            ,
                            𝄞]é:;]𝄞é
a𝄞	𝄞
𝄞>::[b
                        };a	 (
a(𝄞€:);)]	(
                            [	<
                                ,
                                 {
                                     {
                                        ]é[[  {
                                             	;
                                        )a
                                    )bb
                                }
                            }€
é:[<>],
                            
                        )]€a
                    >
]
                )
            } {
                [é<		;,
                [(
                    ](
                        ,
                        ,
                        éZ𝄞Z;𝄞𝄞>é €
                    >Za	é:").
Definition c503 : case := ("é;;)(
a
[;};>	:€	};€€𝄞é]]𝄞𝄞) b)b,[{])Z(] }€,𝄞€𝄞}<<] 𝄞(<,𝄞,:Z𝄞,>Z))𝄞)	b<é𝄞𝄞	bZ :
é,;éZ𝄞>aZZ,
b,é,€<Z>	(é)a
 : Z:<
;	𝄞<)	a)𝄞>}a𝄞:;;((), :{](€<b}𝄞	:{:;", "é;;)(
a
[;
};>	:€	
};€€𝄞é]]𝄞𝄞) b)b,
[ {
])Z(] 
}€, 𝄞€𝄞
}<
<
] 𝄞(<, 𝄞, :Z𝄞, >Z))𝄞)	b<é𝄞𝄞	bZ :
é,
;éZ𝄞>aZZ,

b,
é,
€<Z>	(é)a
 : Z:<

;	𝄞<)	a)𝄞>
}a𝄞:;;(
(),
 : {
    ](
        €<
            b
        }𝄞	: {
            :;").
Definition c504 : case := ("𝄞;};b é
𝄞	<(éa[,}𝄞;€[€,(,{>:é [abé
;	;](é	]é,)ab)
([b}]}]],𝄞>
𝄞:>{:]b€> 
€	a(é:}]{€
} aZ(]>é
é<	b;],é})( €
}> 
€ {,}(	(b]){é
;
]	<Z 	)>:ba	€[
) }<}{
:[<(:{	}) Z€<}]é
;ba,bé}<};𝄞((		]:b]([{>,,;)aZ,𝄞<ZZZ€é	b}	<;€é
	𝄞<:€Z<;Z{,€:Z:bZ>", "𝄞;
};b é
𝄞	<
(
    éa[,
    
}𝄞;€[€,
(
    ,
     {
        
    >:é [abé
;	;](é	]é, )ab
)
(
    [b
}]
}]],
𝄞>
𝄞:> {
:]b€> 
€	a(
    é:
}] {
    €

} aZ(]>é
é<	b;], é
})(
 €

}> 
€  {
,

}(
	(b]) {
    é
;
]	<Z 	
)>:ba	€[

) 
}<

} {

:[<
(
    : {
        	
    }
) Z€<
    
}]é
;ba,
bé
}<

};𝄞(
(
    		]:b](
        [ {
            
        >,
        ,
        ;
    )aZ,
    𝄞<
        ZZZ€é	b
    }	<
        ;€é
	𝄞<
            :€Z<
                ;Z {
                    ,
                    €:Z:bZ
                >").
Definition c505 : case := ("a,)< <€;}> {aZ€Z", "a,
)<
     <€;
}>  {
    aZ€Z").
Definition c506 : case := ("
b,<Za[	[]<){Z𝄞a€:<bb€,}(<b:{
)> ;a,
b)Z}b", "
b,
<
    Za[	[]<
        ) {
            Z𝄞a€:<
                bb€,
                
            }(
                <
                    b: {
                        

                    )
                > ;a,
                
b)Z
            }b").
Definition c507 : case := (",{ >	;aé𝄞[Z<; )	𝄞{b ,a];€}
{(<)𝄞
𝄞 ;;ééé:a;	}[<,

 :[:)𝄞,>}:(]éb(:>Z

[;Z, (€(()éé[{a[>éZ𝄞;{ <
", ",
 {
     >	;aé𝄞[Z<
        ; )	𝄞 {
            b ,
            a];€
        }
 {
            (<
                )𝄞
𝄞 ;;ééé:a;	
            }[<,
            

 :[:)𝄞,
            >
        }:(
            ]éb(
                :
            >Z

[;Z,
             (
                €(
                    ()éé[ {
                        a[
                    >éZ𝄞; {
                         <
                            
").
Definition c508 : case := ("€]{bé€b]<é[b<	[	a }})}](	,
;(,}é);}>ab 
<,[{>)	{>é]	baa𝄞[>;[;>
𝄞Zébaé[(€ 	[){b)a})>𝄞}<<<b	}](éb:(b𝄞b<],ZZZ[>>(
(𝄞>{{b]:>é<𝄞()(a; bb;)> )<	b))Z
Z:€é<é (𝄞)€ (}éa}	:)[Z	]>	€	}>]𝄞a", "€] {
    bé€b]<
        é[b<	[	a 
    }
})
}](
	,

;(, 
}é);
}>ab 
<
,
[ {

>
)	 {

>é]	baa𝄞[>;[;>
𝄞Zébaé[(€ 	[) {
b)a
})>𝄞
}<
<<b	
}](
éb:(
b𝄞b<],
ZZZ[>>(

(
    𝄞> {
         {
            b]:
        >é<𝄞()(a; bb;)> 
    )<
        	b
    )
)Z
Z:€é<é (𝄞)€ (
}éa
}	:)[Z	]>	€	
}
>]𝄞a").
Definition c509 : case := ("<(,;€𝄞𝄞},	(Z,a€(b[€a}𝄞:a€é𝄞]
) {>>(Z:; <€	 é(
<;:
{{;é:a<é{𝄞a𝄞}(Z[b,€(Za)>é 
))€	,}b}		>;]a Z] <(>€]}€])é>Z,,{
}	 ]}(]	<]
bZ),<]€𝄞€(>(Z(	
;;
a)]]
{é] b€: )aZb< :]],)>){é}[:	", "<
    (
        ,
        ;€𝄞𝄞
    },
    	(
        Z,
        a€(b[€a
    }𝄞:a€é𝄞]
)  {
        
    >>(
        Z:; <
            €	 é(
                
<
                    ;:
 {
                         {
                            ;é:a<
                                é {
                                    𝄞a𝄞
                                }(Z[b, €(Za)
                            >é 
)
                        )€	,
                        
                    }b
                }		
            >;]a Z] <(>€]
        }€])é
    >Z,
    ,
     {
        

    }	 ]
}(]	<
    ]
bZ),
    <]€𝄞€(
        >(
            Z(	
;;
a)]]
 {
                é] b€: 
            )aZb< :]],
            
        )>
    ) {
        é
    }[:	").
Definition c510 : case := ("enum NetworkId{ByGenesis([u8; 32]),ByFork{block_number: u64,block_hash: [u8; 32]},Polkadot,Kusama,Westend,Rococo,Wococo,Ethereum{chain_id: Compact<u64>},BitcoinCore,BitcoinCash}", "enum NetworkId {
    ByGenesis([u8; 32]),
    ByFork {
        block_number: u64,
        block_hash: [u8; 32]
    },
    Polkadot,
    Kusama,
    Westend,
    Rococo,
    Wococo,
    Ethereum {
        chain_id: Compact<u64>
    },
    BitcoinCore,
    BitcoinCash
}").
Definition c511 : case := ("enum ChildBountyStatus<AccountId32,u32>{Added,CuratorProposed{curator: struct AccountId32([u8; 32])},Active{curator: AccountId32},PendingPayout{curator: AccountId32,beneficiary: AccountId32,unlock_at: u32}}", "enum ChildBountyStatus<AccountId32,
u32> {
    Added,
    CuratorProposed {
        curator: struct AccountId32([u8; 32])
    },
    Active {
        curator: AccountId32
    },
    PendingPayout {
        curator: AccountId32,
        beneficiary: AccountId32,
        unlock_at: u32
    }
}").
Definition c512 : case := ("enum Call<_>{force_lease{para: struct Id(u32),leaser: struct AccountId32([u8; 32]),amount: u128,period_begin: u32,period_count: u32},clear_all_leases{para: Id},trigger_onboard{para: Id}}", "enum Call<_> {
    force_lease {
        para: struct Id(u32),
        leaser: struct AccountId32([u8; 32]),
        amount: u128,
        period_begin: u32,
        period_count: u32
    },
    clear_all_leases {
        para: Id
    },
    trigger_onboard {
        para: Id
    }
}").
Definition c513 : case := ("struct RoundSnapshot<AccountId32,(AccountId32,u64,BoundedVec<AccountId32,_>)>{voters: Vec<(struct AccountId32([u8; 32]),u64,struct BoundedVec<AccountId32,_>(Vec<AccountId32>))>,targets: Vec<AccountId32>}", "struct RoundSnapshot<
    AccountId32,
    (
        AccountId32,
        u64,
        BoundedVec<AccountId32,
        _>
    )
> {
    voters: Vec<
        (
            struct AccountId32([u8; 32]),
            u64,
            struct BoundedVec<AccountId32,
            _>(Vec<AccountId32>)
        )
    >,
    targets: Vec<AccountId32>
}").
Definition cases : list (case) := [c0; c1; c2; c3; c4; c5; c6; c7; c8; c9; c10; c11; c12; c13; c14; c15; c16; c17; c18; c19; c20; c21; c22; c23; c24; c25; c26; c27; c28; c29; c30; c31; c32; c33; c34; c35; c36; c37; c38; c39; c40; c41; c42; c43; c44; c45; c46; c47; c48; c49; c50; c51; c52; c53; c54; c55; c56; c57; c58; c59; c60; c61; c62; c63; c64; c65; c66; c67; c68; c69; c70; c71; c72; c73; c74; c75; c76; c77; c78; c79; c80; c81; c82; c83; c84; c85; c86; c87; c88; c89; c90; c91; c92; c93; c94; c95; c96; c97; c98; c99; c100; c101; c102; c103; c104; c105; c106; c107; c108; c109; c110; c111; c112; c113; c114; c115; c116; c117; c118; c119; c120; c121; c122; c123; c124; c125; c126; c127; c128; c129; c130; c131; c132; c133; c134; c135; c136; c137; c138; c139; c140; c141; c142; c143; c144; c145; c146; c147; c148; c149; c150; c151; c152; c153; c154; c155; c156; c157; c158; c159; c160; c161; c162; c163; c164; c165; c166; c167; c168; c169; c170; c171; c172; c173; c174; c175; c176; c177; c178; c179; c180; c181; c182; c183; c184; c185; c186; c187; c188; c189; c190; c191; c192; c193; c194; c195; c196; c197; c198; c199; c200; c201; c202; c203; c204; c205; c206; c207; c208; c209; c210; c211; c212; c213; c214; c215; c216; c217; c218; c219; c220; c221; c222; c223; c224; c225; c226; c227; c228; c229; c230; c231; c232; c233; c234; c235; c236; c237; c238; c239; c240; c241; c242; c243; c244; c245; c246; c247; c248; c249; c250; c251; c252; c253; c254; c255; c256; c257; c258; c259; c260; c261; c262; c263; c264; c265; c266; c267; c268; c269; c270; c271; c272; c273; c274; c275; c276; c277; c278; c279; c280; c281; c282; c283; c284; c285; c286; c287; c288; c289; c290; c291; c292; c293; c294; c295; c296; c297; c298; c299; c300; c301; c302; c303; c304; c305; c306; c307; c308; c309; c310; c311; c312; c313; c314; c315; c316; c317; c318; c319; c320; c321; c322; c323; c324; c325; c326; c327; c328; c329; c330; c331; c332; c333; c334; c335; c336; c337; c338; c339; c340; c341; c342; c343; c344; c345; c346; c347; c348; c349; c350; c351; c352; c353; c354; c355; c356; c357; c358; c359; c360; c361; c362; c363; c364; c365; c366; c367; c368; c369; c370; c371; c372; c373; c374; c375; c376; c377; c378; c379; c380; c381; c382; c383; c384; c385; c386; c387; c388; c389; c390; c391; c392; c393; c394; c395; c396; c397; c398; c399; c400; c401; c402; c403; c404; c405; c406; c407; c408; c409; c410; c411; c412; c413; c414; c415; c416; c417; c418; c419; c420; c421; c422; c423; c424; c425; c426; c427; c428; c429; c430; c431; c432; c433; c434; c435; c436; c437; c438; c439; c440; c441; c442; c443; c444; c445; c446; c447; c448; c449; c450; c451; c452; c453; c454; c455; c456; c457; c458; c459; c460; c461; c462; c463; c464; c465; c466; c467; c468; c469; c470; c471; c472; c473; c474; c475; c476; c477; c478; c479; c480; c481; c482; c483; c484; c485; c486; c487; c488; c489; c490; c491; c492; c493; c494; c495; c496; c497; c498; c499; c500; c501; c502; c503; c504; c505; c506; c507; c508; c509; c510; c511; c512; c513].
Eval vm_compute in ("corr_exact"%string, failing (corr_exact) cases).
Eval vm_compute in ("corr_stream"%string, failing (corr_stream) cases).
Eval vm_compute in ("prop_ws"%string, failing (prop_ws) cases).
Eval vm_compute in ("prop_discipline"%string, failing (prop_discipline) cases).
