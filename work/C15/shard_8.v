From Coq Require Import List NArith String.
From V Require Import Base.Util Corr.RunC15.
Import ListNotations. Open Scope string_scope.
Definition c0 : case := ("a", "a").
Definition c1 : case := ("}>", "
}>").
Definition c2 : case := ("))", "))").
Definition c3 : case := (">}", ">
}").
Definition c4 : case := (", ", ",
 ").
Definition c5 : case := (" ,", " ,
").
Definition c6 : case := ("{}<", " {
    
}<
    ").
Definition c7 : case := ("{)(", " {
    )(
        ").
Definition c8 : case := ("{>{", " {
    > {
        ").
Definition c9 : case := ("{,a", " {
    ,
    a").
Definition c10 : case := ("{ >", " {
     >").
Definition c11 : case := ("}})", "
}
})").
Definition c12 : case := ("})}", "
})
}").
Definition c13 : case := ("}< ", "
}<
 ").
Definition c14 : case := ("},,", "
},
,
").
Definition c15 : case := ("} <", "
} <
").
Definition c16 : case := ("(}(", "(
    
}(
    ").
Definition c17 : case := ("(){", "() {
    ").
Definition c18 : case := ("(<a", "(
    <
        a").
Definition c19 : case := ("(,>", "(
    ,
    >").
Definition c20 : case := ("( )", "( )").
Definition c21 : case := (")}}", ")
}
}").
Definition c22 : case := (")( ", ")(
     ").
Definition c23 : case := (")<,", ")<
    ,
    ").
Definition c24 : case := ("),<", "),
<
    ").
Definition c25 : case := (") (", ") (
    ").
Definition c26 : case := ("<}{", "<
    
} {
    ").
Definition c27 : case := ("<(a", "<
    (
        a").
Definition c28 : case := ("<<>", "<
    <>").
Definition c29 : case := ("<,)", "<
    ,
    )").
Definition c30 : case := ("< }", "<
     
}").
Definition c31 : case := (">{ ", "> {
     ").
Definition c32 : case := (">(,", ">(
    ,
    ").
Definition c33 : case := ("><<", "><
    <
        ").
Definition c34 : case := (">,(", ">,
(
    ").
Definition c35 : case := ("> {", ">  {
    ").
Definition c36 : case := (",{a", ",
 {
    a").
Definition c37 : case := (",(>", ",
(
    >").
Definition c38 : case := (",<)", ",
<
    )").
Definition c39 : case := (",,}", ",
,

}").
Definition c40 : case := (",a ", ",
a ").
Definition c41 : case := ("a{,", "a {
    ,
    ").
Definition c42 : case := ("a(<", "a(
    <
        ").
Definition c43 : case := ("a<(", "a<
    (
        ").
Definition c44 : case := ("a,{", "a,
 {
    ").
Definition c45 : case := ("aaa", "aaa").
Definition c46 : case := (" {>", "  {
    >").
Definition c47 : case := (" ()", " ()").
Definition c48 : case := (" <}", " <
    
}").
Definition c49 : case := (" > ", " > ").
Definition c50 : case := (" a,", " a,
").
Definition c51 : case := ("{{{<", " {
     {
         {
            <
                ").
Definition c52 : case := ("{{((", " {
     {
        (
            (
                ").
Definition c53 : case := ("{{<{", " {
     {
        <
             {
                ").
Definition c54 : case := ("{{>a", " {
     {
        >a").
Definition c55 : case := ("{{a>", " {
     {
        a>").
Definition c56 : case := ("{}{)", " {
    
} {
    )").
Definition c57 : case := ("{}(}", " {
    
}(
    
}").
Definition c58 : case := ("{}) ", " {
    
}) ").
Definition c59 : case := ("{}>,", " {
    
}>,
").
Definition c60 : case := ("{}a<", " {
    
}a<
    ").
Definition c61 : case := ("{({(", " {
    (
         {
            (
                ").
Definition c62 : case := ("{(({", " {
    (
        (
             {
                ").
Definition c63 : case := ("{()a", " {
    ()a").
Definition c64 : case := ("{(>>", " {
    (
        >>").
Definition c65 : case := ("{(a)", " {
    (a)").
Definition c66 : case := ("{){}", " {
    ) {
        
    }").
Definition c67 : case := ("{)} ", " {
    )
} ").
Definition c68 : case := ("{)),", " {
    )),
    ").
Definition c69 : case := ("{)><", " {
    )><
        ").
Definition c70 : case := ("{)a(", " {
    )a(
        ").
Definition c71 : case := ("{<{{", " {
    <
         {
             {
                ").
Definition c72 : case := ("{<}a", " {
    <
        
    }a").
Definition c73 : case := ("{<)>", " {
    <)>").
Definition c74 : case := ("{<>)", " {
    <>)").
Definition c75 : case := ("{<a}", " {
    <
        a
    }").
Definition c76 : case := ("{<  ", " {
    <
          ").
Definition c77 : case := ("{>},", " {
    >
},
").
Definition c78 : case := ("{>)<", " {
    >)<
        ").
Definition c79 : case := ("{>>(", " {
    >>(
        ").
Definition c80 : case := ("{>a{", " {
    >a {
        ").
Definition c81 : case := ("{> a", " {
    > a").
Definition c82 : case := ("{,}>", " {
    ,
    
}>").
Definition c83 : case := ("{,))", " {
    ,
    ))").
Definition c84 : case := ("{,>}", " {
    ,
    >
}").
Definition c85 : case := ("{,, ", " {
    ,
    ,
     ").
Definition c86 : case := ("{, ,", " {
    ,
     ,
    ").
Definition c87 : case := ("{a}<", " {
    a
}<
    ").
Definition c88 : case := ("{a)(", " {
    a)(
        ").
Definition c89 : case := ("{a>{", " {
    a> {
        ").
Definition c90 : case := ("{a,a", " {
    a,
    a").
Definition c91 : case := ("{a >", " {
    a >").
Definition c92 : case := ("{ })", " {
     
})").
Definition c93 : case := ("{ )}", " {
     )
}").
Definition c94 : case := ("{ < ", " {
     <
         ").
Definition c95 : case := ("{ ,,", " {
     ,
    ,
    ").
Definition c96 : case := ("{  <", " {
      <
        ").
Definition c97 : case := ("}{}(", "
} {

}(
").
Definition c98 : case := ("}{){", "
} {
) {
    ").
Definition c99 : case := ("}{<a", "
} {
<
    a").
Definition c100 : case := ("}{,>", "
} {
,
>").
Definition c101 : case := ("}{ )", "
} {
 )").
Definition c102 : case := ("}}}}", "
}
}
}
}").
Definition c103 : case := ("}}( ", "
}
}(
 ").
Definition c104 : case := ("}}<,", "
}
}<
,
").
Definition c105 : case := ("}},<", "
}
},
<
").
Definition c106 : case := ("}} (", "
}
} (
").
Definition c107 : case := ("}(}{", "
}(

} {
").
Definition c108 : case := ("}((a", "
}(
(
    a").
Definition c109 : case := ("}(<>", "
}(
<>").
Definition c110 : case := ("}(,)", "
}(, )").
Definition c111 : case := ("}( }", "
}(
 
}").
Definition c112 : case := ("}){ ", "
}) {
 ").
Definition c113 : case := ("})(,", "
})(
,
").
Definition c114 : case := ("})<<", "
})<
<
    ").
Definition c115 : case := ("}),(", "
}),
(
").
Definition c116 : case := ("}) {", "
})  {
").
Definition c117 : case := ("}<{a", "
}<
 {
    a").
Definition c118 : case := ("}<(>", "
}<(
>").
Definition c119 : case := ("}<<)", "
}<
<
    )").
Definition c120 : case := ("}<,}", "
}<
,

}").
Definition c121 : case := ("}<a ", "
}<
a ").
Definition c122 : case := ("}>{,", "
}> {
,
").
Definition c123 : case := ("}>(<", "
}>(
<
    ").
Definition c124 : case := ("}><(", "
}><
(
    ").
Definition c125 : case := ("}>,{", "
}>,
 {
").
Definition c126 : case := ("}>aa", "
}>aa").
Definition c127 : case := ("},{>", "
},
 {
>").
Definition c128 : case := ("},()", "
},
()").
Definition c129 : case := ("},<}", "
},
<

}").
Definition c130 : case := ("},> ", "
},
> ").
Definition c131 : case := ("},a,", "
},
a,
").
Definition c132 : case := ("}a{<", "
}a {
<
    ").
Definition c133 : case := ("}a((", "
}a(
(
    ").
Definition c134 : case := ("}a<{", "
}a<
 {
    ").
Definition c135 : case := ("}a>a", "
}a>a").
Definition c136 : case := ("}aa>", "
}aa>").
Definition c137 : case := ("} {)", "
}  {
)").
Definition c138 : case := ("} (}", "
} (

}").
Definition c139 : case := ("} ) ", "
} ) ").
Definition c140 : case := ("} >,", "
} >,
").
Definition c141 : case := ("} a<", "
} a<
").
Definition c142 : case := ("({{(", "(
     {
         {
            (
                ").
Definition c143 : case := ("({({", "(
     {
        (
             {
                ").
Definition c144 : case := ("({)a", "(
     {
        
    )a").
Definition c145 : case := ("({>>", "(
     {
        >>").
Definition c146 : case := ("({a)", "(
     {
        a
    )").
Definition c147 : case := ("(}{}", "(
    
} {
    
}").
Definition c148 : case := ("(}} ", "(
    
}
} ").
Definition c149 : case := ("(}),", "(
}),
").
Definition c150 : case := ("(}><", "(
    
}><
    ").
Definition c151 : case := ("(}a(", "(
    
}a(
    ").
Definition c152 : case := ("(({{", "(
    (
         {
             {
                ").
Definition c153 : case := ("((}a", "(
    (
        
    }a").
Definition c154 : case := ("(()>", "(
    ()>").
Definition c155 : case := ("((>)", "(
    (>)").
Definition c156 : case := ("((a}", "(
    (
        a
    }").
Definition c157 : case := ("((  ", "(
    (
          ").
Definition c158 : case := ("()},", "()
},
").
Definition c159 : case := ("())<", "())<
    ").
Definition c160 : case := ("()>(", "()>(
    ").
Definition c161 : case := ("()a{", "()a {
    ").
Definition c162 : case := ("() a", "() a").
Definition c163 : case := ("(<}>", "(
    <
}>").
Definition c164 : case := ("(<))", "(<
    ))").
Definition c165 : case := ("(<>}", "(
    <>
}").
Definition c166 : case := ("(<, ", "(
    <
        ,
         ").
Definition c167 : case := ("(< ,", "(
    <
         ,
        ").
Definition c168 : case := ("(>}<", "(
    >
}<
    ").
Definition c169 : case := ("(>)(", "(>)(
    ").
Definition c170 : case := ("(>>{", "(
    >> {
        ").
Definition c171 : case := ("(>,a", "(
    >,
    a").
Definition c172 : case := ("(> >", "(
    > >").
Definition c173 : case := ("(,})", "(, 
})").
Definition c174 : case := ("(,)}", "(, )
}").
Definition c175 : case := ("(,< ", "(
    ,
    <
         ").
Definition c176 : case := ("(,,,", "(
    ,
    ,
    ,
    ").
Definition c177 : case := ("(, <", "(
    ,
     <
        ").
Definition c178 : case := ("(a}(", "(
    a
}(
    ").
Definition c179 : case := ("(a){", "(a) {
    ").
Definition c180 : case := ("(a<a", "(
    a<
        a").
Definition c181 : case := ("(a,>", "(
    a,
    >").
Definition c182 : case := ("(a )", "(a )").
Definition c183 : case := ("( }}", "(
     
}
}").
Definition c184 : case := ("( ( ", "(
     (
         ").
Definition c185 : case := ("( <,", "(
     <
        ,
        ").
Definition c186 : case := ("( ,<", "(
     ,
    <
        ").
Definition c187 : case := ("(  (", "(
      (
        ").
Definition c188 : case := ("){}{", ") {
    
} {
    ").
Definition c189 : case := ("){(a", ") {
    (
        a").
Definition c190 : case := ("){<>", ") {
    <>").
Definition c191 : case := ("){,)", ") {
    ,
    )").
Definition c192 : case := ("){ }", ") {
     
}").
Definition c193 : case := (")}{ ", ")
} {
 ").
Definition c194 : case := (")}(,", ")
}(
,
").
Definition c195 : case := (")}<<", ")
}<
<
    ").
Definition c196 : case := (")},(", ")
},
(
").
Definition c197 : case := (")} {", ")
}  {
").
Definition c198 : case := (")({a", ")(
     {
        a").
Definition c199 : case := (")((>", ")(
    (
        >").
Definition c200 : case := (")(<)", ")(<
    )").
Definition c201 : case := (")(,}", ")(
    ,
    
}").
Definition c202 : case := (")(a ", ")(
    a ").
Definition c203 : case := (")){,", ")) {
    ,
    ").
Definition c204 : case := ("))(<", "))(
    <
        ").
Definition c205 : case := ("))<(", "))<
    (
        ").
Definition c206 : case := (")),{", ")),
 {
    ").
Definition c207 : case := ("))aa", "))aa").
Definition c208 : case := (")<{>", ")<
     {
        
    >").
Definition c209 : case := (")<()", ")<
    ()").
Definition c210 : case := (")<<}", ")<
    <
        
    }").
Definition c211 : case := (")<> ", ")<> ").
Definition c212 : case := (")<a,", ")<
    a,
    ").
Definition c213 : case := (")>{<", ")> {
    <
        ").
Definition c214 : case := (")>((", ")>(
    (
        ").
Definition c215 : case := (")><{", ")><
     {
        ").
Definition c216 : case := (")>>a", ")>>a").
Definition c217 : case := (")>a>", ")>a>").
Definition c218 : case := ("),{)", "),
 {
    )").
Definition c219 : case := ("),(}", "),
(
    
}").
Definition c220 : case := ("),) ", "),
) ").
Definition c221 : case := ("),>,", "),
>,
").
Definition c222 : case := ("),a<", "),
a<
    ").
Definition c223 : case := (")a{(", ")a {
    (
        ").
Definition c224 : case := (")a({", ")a(
     {
        ").
Definition c225 : case := (")a)a", ")a)a").
Definition c226 : case := (")a>>", ")a>>").
Definition c227 : case := (")aa)", ")aa)").
Definition c228 : case := (") {}", ")  {
    
}").
Definition c229 : case := (") } ", ") 
} ").
Definition c230 : case := (") ),", ") ),
").
Definition c231 : case := (") ><", ") ><
    ").
Definition c232 : case := (") a(", ") a(
    ").
Definition c233 : case := ("<{{{", "<
     {
         {
             {
                ").
Definition c234 : case := ("<{}a", "<
     {
        
    }a").
Definition c235 : case := ("<{)>", "<
     {
        )
    >").
Definition c236 : case := ("<{>)", "<
     {
        
    >)").
Definition c237 : case := ("<{a}", "<
     {
        a
    }").
Definition c238 : case := ("<{  ", "<
     {
          ").
Definition c239 : case := ("<}},", "<
    
}
},
").
Definition c240 : case := ("<})<", "<
    
})<
    ").
Definition c241 : case := ("<}>(", "<
}>(
").
Definition c242 : case := ("<}a{", "<
    
}a {
    ").
Definition c243 : case := ("<} a", "<
    
} a").
Definition c244 : case := ("<(}>", "<(
    
}>").
Definition c245 : case := ("<())", "<
    ())").
Definition c246 : case := ("<(>}", "<(
    >
}").
Definition c247 : case := ("<(, ", "<
    (
        ,
         ").
Definition c248 : case := ("<( ,", "<
    (
         ,
        ").
Definition c249 : case := ("<)}<", "<
    )
}<
    ").
Definition c250 : case := ("<))(", "<
    ))(
        ").
Definition c251 : case := ("<)>{", "<)> {
    ").
Definition c252 : case := ("<),a", "<
    ),
    a").
Definition c253 : case := ("<) >", "<) >").
Definition c254 : case := ("<<})", "<
    <
        
    })").
Definition c255 : case := ("<<)}", "<
    <
        )
    }").
Definition c256 : case := ("<<< ", "<
    <
        <
             ").
Definition c257 : case := ("<<,,", "<
    <
        ,
        ,
        ").
Definition c258 : case := ("<< <", "<
    <
         <
            ").
Definition c259 : case := ("<>}(", "<>
}(
").
Definition c260 : case := ("<>){", "<>) {
    ").
Definition c261 : case := ("<><a", "<><
    a").
Definition c262 : case := ("<>,>", "<>,
>").
Definition c263 : case := ("<> )", "<> )").
Definition c264 : case := ("<,}}", "<
    ,
    
}
}").
Definition c265 : case := ("<,( ", "<
    ,
    (
         ").
Definition c266 : case := ("<,<,", "<
    ,
    <
        ,
        ").
Definition c267 : case := ("<,,<", "<
    ,
    ,
    <
        ").
Definition c268 : case := ("<, (", "<
    ,
     (
        ").
Definition c269 : case := ("<a}{", "<
    a
} {
    ").
Definition c270 : case := ("<a(a", "<
    a(
        a").
Definition c271 : case := ("<a<>", "<
    a<>").
Definition c272 : case := ("<a,)", "<
    a,
    )").
Definition c273 : case := ("<a }", "<
    a 
}").
Definition c274 : case := ("< { ", "<
      {
         ").
Definition c275 : case := ("< (,", "<
     (
        ,
        ").
Definition c276 : case := ("< <<", "<
     <
        <
            ").
Definition c277 : case := ("< ,(", "<
     ,
    (
        ").
Definition c278 : case := ("<  {", "<
       {
        ").
Definition c279 : case := (">{{a", "> {
     {
        a").
Definition c280 : case := (">{(>", "> {
    (
        >").
Definition c281 : case := (">{<)", "> {
    <
        )").
Definition c282 : case := (">{,}", "> {
    ,
    
}").
Definition c283 : case := (">{a ", "> {
    a ").
Definition c284 : case := (">}{,", ">
} {
,
").
Definition c285 : case := (">}(<", ">
}(
<
    ").
Definition c286 : case := (">}<(", ">
}<
(
    ").
Definition c287 : case := (">},{", ">
},
 {
").
Definition c288 : case := (">}aa", ">
}aa").
Definition c289 : case := (">({>", ">(
     {
        >").
Definition c290 : case := (">(()", ">(
    ()").
Definition c291 : case := (">(<}", ">(
    <
        
    }").
Definition c292 : case := (">(> ", ">(
    > ").
Definition c293 : case := (">(a,", ">(
    a,
    ").
Definition c294 : case := (">){<", ">) {
    <
        ").
Definition c295 : case := (">)((", ">)(
    (
        ").
Definition c296 : case := (">)<{", ">)<
     {
        ").
Definition c297 : case := (">)>a", ">)>a").
Definition c298 : case := (">)a>", ">)a>").
Definition c299 : case := ("><{)", "><
     {
        )").
Definition c300 : case := ("><(}", "><
    (
        
    }").
Definition c301 : case := ("><) ", "><
    ) ").
Definition c302 : case := ("><>,", "><>,
").
Definition c303 : case := ("><a<", "><
    a<
        ").
Definition c304 : case := (">>{(", ">> {
    (
        ").
Definition c305 : case := (">>({", ">>(
     {
        ").
Definition c306 : case := (">>)a", ">>)a").
Definition c307 : case := (">>>>", ">>>>").
Definition c308 : case := (">>a)", ">>a)").
Definition c309 : case := (">,{}", ">,
 {
    
}").
Definition c310 : case := (">,} ", ">,

} ").
Definition c311 : case := (">,),", ">,
),
").
Definition c312 : case := (">,><", ">,
><
    ").
Definition c313 : case := (">,a(", ">,
a(
    ").
Definition c314 : case := (">a{{", ">a {
     {
        ").
Definition c315 : case := (">a}a", ">a
}a").
Definition c316 : case := (">a)>", ">a)>").
Definition c317 : case := (">a>)", ">a>)").
Definition c318 : case := (">aa}", ">aa
}").
Definition c319 : case := (">a  ", ">a  ").
Definition c320 : case := ("> },", "> 
},
").
Definition c321 : case := ("> )<", "> )<
    ").
Definition c322 : case := ("> >(", "> >(
    ").
Definition c323 : case := ("> a{", "> a {
    ").
Definition c324 : case := (">  a", ">  a").
Definition c325 : case := (",{}>", ",
 {
    
}>").
Definition c326 : case := (",{))", ",
 {
    ))").
Definition c327 : case := (",{>}", ",
 {
    >
}").
Definition c328 : case := (",{, ", ",
 {
    ,
     ").
Definition c329 : case := (",{ ,", ",
 {
     ,
    ").
Definition c330 : case := (",}}<", ",

}
}<
").
Definition c331 : case := (",})(", ",

})(
").
Definition c332 : case := (",}>{", ",

}> {
").
Definition c333 : case := (",},a", ",

},
a").
Definition c334 : case := (",} >", ",

} >").
Definition c335 : case := (",(})", ",
(
})").
Definition c336 : case := (",()}", ",
()
}").
Definition c337 : case := (",(< ", ",
(
    <
         ").
Definition c338 : case := (",(,,", ",
(
    ,
    ,
    ").
Definition c339 : case := (",( <", ",
(
     <
        ").
Definition c340 : case := (",)}(", ",
)
}(
").
Definition c341 : case := (",)){", ",
)) {
    ").
Definition c342 : case := (",)<a", ",
)<
    a").
Definition c343 : case := (",),>", ",
),
>").
Definition c344 : case := (",) )", ",
) )").
Definition c345 : case := (",<}}", ",
<
    
}
}").
Definition c346 : case := (",<( ", ",
<
    (
         ").
Definition c347 : case := (",<<,", ",
<
    <
        ,
        ").
Definition c348 : case := (",<,<", ",
<
    ,
    <
        ").
Definition c349 : case := (",< (", ",
<
     (
        ").
Definition c350 : case := (",>}{", ",
>
} {
").
Definition c351 : case := (",>(a", ",
>(
    a").
Definition c352 : case := (",><>", ",
><>").
Definition c353 : case := (",>,)", ",
>,
)").
Definition c354 : case := (",> }", ",
> 
}").
Definition c355 : case := (",,{ ", ",
,
 {
     ").
Definition c356 : case := (",,(,", ",
,
(
    ,
    ").
Definition c357 : case := (",,<<", ",
,
<
    <
        ").
Definition c358 : case := (",,,(", ",
,
,
(
    ").
Definition c359 : case := (",, {", ",
,
  {
    ").
Definition c360 : case := (",a{a", ",
a {
    a").
Definition c361 : case := (",a(>", ",
a(
    >").
Definition c362 : case := (",a<)", ",
a<
    )").
Definition c363 : case := (",a,}", ",
a,

}").
Definition c364 : case := (",aa ", ",
aa ").
Definition c365 : case := (", {,", ",
  {
    ,
    ").
Definition c366 : case := (", (<", ",
 (
    <
        ").
Definition c367 : case := (", <(", ",
 <
    (
        ").
Definition c368 : case := (", ,{", ",
 ,
 {
    ").
Definition c369 : case := (", aa", ",
 aa").
Definition c370 : case := ("a{{>", "a {
     {
        >").
Definition c371 : case := ("a{()", "a {
    ()").
Definition c372 : case := ("a{<}", "a {
    <
        
    }").
Definition c373 : case := ("a{> ", "a {
    > ").
Definition c374 : case := ("a{a,", "a {
    a,
    ").
Definition c375 : case := ("a}{<", "a
} {
<
    ").
Definition c376 : case := ("a}((", "a
}(
(
    ").
Definition c377 : case := ("a}<{", "a
}<
 {
    ").
Definition c378 : case := ("a}>a", "a
}>a").
Definition c379 : case := ("a}a>", "a
}a>").
Definition c380 : case := ("a({)", "a(
     {
        
    )").
Definition c381 : case := ("a((}", "a(
    (
        
    }").
Definition c382 : case := ("a() ", "a() ").
Definition c383 : case := ("a(>,", "a(
    >,
    ").
Definition c384 : case := ("a(a<", "a(
    a<
        ").
Definition c385 : case := ("a){(", "a) {
    (
        ").
Definition c386 : case := ("a)({", "a)(
     {
        ").
Definition c387 : case := ("a))a", "a))a").
Definition c388 : case := ("a)>>", "a)>>").
Definition c389 : case := ("a)a)", "a)a)").
Definition c390 : case := ("a<{}", "a<
     {
        
    }").
Definition c391 : case := ("a<} ", "a<
    
} ").
Definition c392 : case := ("a<),", "a<
    ),
    ").
Definition c393 : case := ("a<><", "a<><
    ").
Definition c394 : case := ("a<a(", "a<
    a(
        ").
Definition c395 : case := ("a>{{", "a> {
     {
        ").
Definition c396 : case := ("a>}a", "a>
}a").
Definition c397 : case := ("a>)>", "a>)>").
Definition c398 : case := ("a>>)", "a>>)").
Definition c399 : case := ("a>a}", "a>a
}").
Definition c400 : case := ("a>  ", "a>  ").
Definition c401 : case := ("a,},", "a,

},
").
Definition c402 : case := ("a,)<", "a,
)<
    ").
Definition c403 : case := ("a,>(", "a,
>(
    ").
Definition c404 : case := ("a,a{", "a,
a {
    ").
Definition c405 : case := ("a, a", "a,
 a").
Definition c406 : case := ("aa}>", "aa
}>").
Definition c407 : case := ("aa))", "aa))").
Definition c408 : case := ("aa>}", "aa>
}").
Definition c409 : case := ("aa, ", "aa,
 ").
Definition c410 : case := ("aa ,", "aa ,
").
Definition c411 : case := ("a }<", "a 
}<
").
Definition c412 : case := ("a )(", "a )(
    ").
Definition c413 : case := ("a >{", "a > {
    ").
Definition c414 : case := ("a ,a", "a ,
a").
Definition c415 : case := ("a  >", "a  >").
Definition c416 : case := (" {})", "  {
    
})").
Definition c417 : case := (" {)}", "  {
    )
}").
Definition c418 : case := (" {< ", "  {
    <
         ").
Definition c419 : case := (" {,,", "  {
    ,
    ,
    ").
Definition c420 : case := (" { <", "  {
     <
        ").
Definition c421 : case := (" }}(", " 
}
}(
").
Definition c422 : case := (" }){", " 
}) {
").
Definition c423 : case := (" }<a", " 
}<
a").
Definition c424 : case := (" },>", " 
},
>").
Definition c425 : case := (" } )", " 
} )").
Definition c426 : case := (" (}}", " (
    
}
}").
Definition c427 : case := (" (( ", " (
    (
         ").
Definition c428 : case := (" (<,", " (
    <
        ,
        ").
Definition c429 : case := (" (,<", " (
    ,
    <
        ").
Definition c430 : case := (" ( (", " (
     (
        ").
Definition c431 : case := (" )}{", " )
} {
").
Definition c432 : case := (" )(a", " )(
    a").
Definition c433 : case := (" )<>", " )<>").
Definition c434 : case := (" ),)", " ),
)").
Definition c435 : case := (" ) }", " ) 
}").
Definition c436 : case := (" <{ ", " <
     {
         ").
Definition c437 : case := (" <(,", " <
    (
        ,
        ").
Definition c438 : case := (" <<<", " <
    <
        <
            ").
Definition c439 : case := (" <,(", " <
    ,
    (
        ").
Definition c440 : case := (" < {", " <
      {
        ").
Definition c441 : case := (" >{a", " > {
    a").
Definition c442 : case := (" >(>", " >(
    >").
Definition c443 : case := (" ><)", " ><
    )").
Definition c444 : case := (" >,}", " >,

}").
Definition c445 : case := (" >a ", " >a ").
Definition c446 : case := (" ,{,", " ,
 {
    ,
    ").
Definition c447 : case := (" ,(<", " ,
(
    <
        ").
Definition c448 : case := (" ,<(", " ,
<
    (
        ").
Definition c449 : case := (" ,,{", " ,
,
 {
    ").
Definition c450 : case := (" ,aa", " ,
aa").
Definition c451 : case := (" a{>", " a {
    >").
Definition c452 : case := (" a()", " a()").
Definition c453 : case := (" a<}", " a<
    
}").
Definition c454 : case := (" a> ", " a> ").
Definition c455 : case := (" aa,", " aa,
").
Definition c456 : case := ("  {<", "   {
    <
        ").
Definition c457 : case := ("  ((", "  (
    (
        ").
Definition c458 : case := ("  <{", "  <
     {
        ").
Definition c459 : case := ("  >a", "  >a").
Definition c460 : case := ("  a>", "  a>").
Definition c461 : case := ("<<a>aabéé,é,éé,a,aé,é,é>}", "<<a>aabéé,
é,
éé,
a,
aé,
é,
é>
}").
Definition c462 : case := ("a((a)abé,a,,a,bbbéb,bébééaa,ééaébaaabééb))", "a(
    (a)abé,
    a,
    ,
    a,
    bbbéb,
    bébééaa,
    ééaébaaabééb
))").
Definition c463 : case := ("<(bébaababé,é,bababaaéaé,éaéa,)}", "<
    (bébaababé, é, bababaaéaé, éaéa, )
}").
Definition c464 : case := ("x{<,,aaé,ab,ébéb,é,,,ébb,abaaaa,baééébaééé,ébé,>)", "x {
    <
        ,
        ,
        aaé,
        ab,
        ébéb,
        é,
        ,
        ,
        ébb,
        abaaaa,
        baééébaééé,
        ébé,
        
    >)").
Definition c465 : case := ("(((a)abbaéba,éé{béé,aabbaéaa,ééabbéa)>", "(
    (
        (a)abbaéba,
        éé {
            béé,
            aabbaéaa,
            ééabbéa
        )>").
Definition c466 : case := ("{<<<(::b:[:a:,x[::[][,{u,u,u},<u,x]][:,u>)>>>}", " {
    <
        <
            <
                (
                    ::b:[:a:,
                    x[::[][,
                     {
                        u,
                        u,
                        u
                    },
                    <u,
                    x]][:,
                    u>
                )
            >
        >
    >
}").
Definition c467 : case := ("([x[8:]x;[a,<(({]8][[x[:8b,[a,<;[]b[;,a>,{}}),<({},ab::x]8x;]:,{]:8xaaaa8x:},(aa;b]];)),;;>,xa[b;]8:aax;,<<>>,<(;x;8[,:[]x];::;[;:,::[8a,{u,u,u})>),(:[b],:bba8[];[[xx)>),(<>)", "(
    [x[8:]x;[a,
    <
        (
            (
                 {
                    ]8][[x[:8b,
                    [a,
                    <;[]b[;,
                    a>,
                     {
                        
                    }
                }
            ),
            <
                (
                     {
                        
                    },
                    ab::x]8x;]:,
                     {
                        ]:8xaaaa8x:
                    },
                    (aa;b]];)
                ),
                ;;
            >,
            xa[b;]8:aax;,
            <<>>,
            <
                (
                    ;x;8[,
                    :[]x];::;[;:,
                    ::[8a,
                     {
                        u,
                        u,
                        u
                    }
                )
            >
        ),
        (:[b], :bba8[];[[xx)
    >
),
(<>)").
Definition c468 : case := ("]:b;[x[,:[,{[:,:;xb,{(]x]xa8a[aa),{(<bbab;ab:b]],x],b]]ba,]8>,[[;xx,{(u,;:a]:x,u)}),(x),<>,8[;x8;a]}}},;:a88:[;a;a,b", "]:b;[x[,
:[,
 {
    [:,
    :;xb,
     {
        (]x]xa8a[aa),
         {
            (
                <bbab;ab:b]],
                x],
                b]]ba,
                ]8>,
                [[;xx,
                 {
                    (u, ;:a]:x, u)
                }
            ),
            (x),
            <>,
            8[;x8;a]
        }
    }
},
;:a88:[;a;a,
b").
Definition c469 : case := ("{bxb;bbx[bb8,ab[a]b;a[}", " {
    bxb;bbx[bb8,
    ab[a]b;a[
}").
Definition c470 : case := ("{:8[[b][,x;88b]b;8,{<b:x,({(u,:::;]8][;b8,u),<u,u,xax[:x]],:[>,;]b[][:xaa,<>}),<]>>},{(a][:x8),(),xaxa,(b],([[;b8ax:aa),{{{},<u>},]xb8aa:b,({;;:,u})},({ba[a,::b,<u,u>},];8]a;,(;]:[]]a]b],(u,:xxa;x;;[,u,bx[]];))))}}", " {
    :8[[b][,
    x;88b]b;8,
     {
        <
            b:x,
            (
                 {
                    (u, :::;]8][;b8, u),
                    <u,
                    u,
                    xax[:x]],
                    :[>,
                    ;]b[][:xaa,
                    <>
                }
            ),
            <]>
        >
    },
     {
        (a][:x8),
        (),
        xaxa,
        (
            b],
            ([[;b8ax:aa),
             {
                 {
                     {
                        
                    },
                    <u>
                },
                ]xb8aa:b,
                (
                     {
                        ;;:,
                        u
                    }
                )
            },
            (
                 {
                    ba[a,
                    ::b,
                    <u,
                    u>
                },
                ];8]a;,
                (
                    ;]:[]]a]b],
                    (u, :xxa;x;;[, u, bx[]];)
                )
            )
        )
    }
}").
Definition c471 : case := ("<{],a:[],<{{]]},b8,(<u>,{;]xa]::xb,u,x[8;ba},{u}),8},8ax;x8:ax8]x,(<b8];[x]a[b:[,a,ax;]]]a;bb,]8bb[a>,{})>}>", "<
     {
        ],
        a:[],
        <
             {
                 {
                    ]]
                },
                b8,
                (
                    <u>,
                     {
                        ;]xa]::xb,
                        u,
                        x[8;ba
                    },
                     {
                        u
                    }
                ),
                8
            },
            8ax;x8:ax8]x,
            (
                <
                    b8];[x]a[b:[,
                    a,
                    ax;]]]a;bb,
                    ]8bb[a
                >,
                 {
                    
                }
            )
        >
    }
>").
Definition c472 : case := ("<<(({(:b;]8,u),(8[::8)},[8;a8b8;8]x[),(b8:;:bxx;,((],u,8ax][][,u,u),;b][:,(u,u),{u,:,u,:b8];[[,u},aa:x),{},<]b:[[8ab[,<b]],axx,u>,<u,]:[a,b:,u,:aa88]>,ba;>,8x[]xb),{{},<<u,u>,<u,u,u>,b[axb;;]x8,axb>,(;;;;,8;,a[)})>>", "<
    <
        (
            (
                 {
                    (:b;]8, u),
                    (8[::8)
                },
                [8;a8b8;8]x[
            ),
            (
                b8:;:bxx;,
                (
                    (], u, 8ax][][, u, u),
                    ;b][:,
                    (u, u),
                     {
                        u,
                        :,
                        u,
                        :b8];[[,
                        u
                    },
                    aa:x
                ),
                 {
                    
                },
                <
                    ]b:[[8ab[,
                    <b]],
                    axx,
                    u>,
                    <u,
                    ]:[a,
                    b:,
                    u,
                    :aa88]>,
                    ba;
                >,
                8x[]xb
            ),
             {
                 {
                    
                },
                <<u,
                u>,
                <u,
                u,
                u>,
                b[axb;;]x8,
                axb>,
                (;;;;, 8;, a[)
            }
        )
    >
>").
Definition c473 : case := ("(),a[:][]][8:]:,{<:;a88;ba:[xb>,{;b[]8[a]b[8,(),(;x[,x[[x,:,a::ba;8a),([:;[a;]a;)},<a,{(]8;[a]abb;[8,{8,{u,u,u}},a[[;[a[;),8ab;::8a[,ab[]aba[:88x,(<][[8;[[]8>)},{<{(u,[[,a;[:,u),8a]x,]8][a:[x},<[a[;8:;]axa>>,{<(u,u,u,u),()>}}>}", "(),
a[:][]][8:]:,
 {
    <:;a88;ba:[xb>,
     {
        ;b[]8[a]b[8,
        (),
        (;x[, x[[x, :, a::ba;8a),
        ([:;[a;]a;)
    },
    <
        a,
         {
            (
                ]8;[a]abb;[8,
                 {
                    8,
                     {
                        u,
                        u,
                        u
                    }
                },
                a[[;[a[;
            ),
            8ab;::8a[,
            ab[]aba[:88x,
            (<][[8;[[]8>)
        },
         {
            <
                 {
                    (u, [[, a;[:, u),
                    8a]x,
                    ]8][a:[x
                },
                <[a[;8:;]axa>
            >,
             {
                <(u, u, u, u),
                ()>
            }
        }
    >
}").
Definition c474 : case := ("(),a[;[[bxx,b[:xbb8,<<;[axx[xx,<]xb[;8,{(;,;[;],(),b,{u,u,u,[x:[a]x}),:]:[a]8x},(<::>,b,[xa;8b8;;;)>>>", "(),
a[;[[bxx,
b[:xbb8,
<
    <
        ;[axx[xx,
        <
            ]xb[;8,
             {
                (
                    ;,
                    ;[;],
                    (),
                    b,
                     {
                        u,
                        u,
                        u,
                        [x:[a]x
                    }
                ),
                :]:[a]8x
            },
            (<::>, b, [xa;8b8;;;)
        >
    >
>").
Definition c475 : case := ("<:;ab8b;[8[ax>,(()),a;:b];];xx", "<:;ab8b;[8[ax>,
(()),
a;:b];];xx").
Definition c476 : case := ("<<(bb;),{([:,[;a:x;8bb,(<u,:aba[b>,ax;b8;;xxbb,<u,u,u,u>,;;x;8:8[;,{u,u,u,u}),baa88a,<>)},b]bx8,<;8:;xaxxxa;;>,[x:]xaa:a>>", "<
    <
        (bb;),
         {
            (
                [:,
                [;a:x;8bb,
                (
                    <u,
                    :aba[b>,
                    ax;b8;;xxbb,
                    <u,
                    u,
                    u,
                    u>,
                    ;;x;8:8[;,
                     {
                        u,
                        u,
                        u,
                        u
                    }
                ),
                baa88a,
                <>
            )
        },
        b]bx8,
        <;8:;xaxxxa;;>,
        [x:]xaa:a
    >
>").
Definition c477 : case := ("(<]babx;[]abbx,xa[;a[x>,([[][;aab,[ba]8:;bb,{a];,{[],{(u,u),(u,];,u,u),<:b;8;b]x,u,bab8:,b8bax8[x>,()},aa[a88a;[;[]}}))", "(
    <]babx;[]abbx,
    xa[;a[x>,
    (
        [[][;aab,
        [ba]8:;bb,
         {
            a];,
             {
                [],
                 {
                    (u, u),
                    (u, ];, u, u),
                    <:b;8;b]x,
                    u,
                    bab8:,
                    b8bax8[x>,
                    ()
                },
                aa[a88a;[;[]
            }
        }
    )
)").
Definition c478 : case := (":bxxa][]::,{{({<>,;,({8x]a,u,u,u,u},:;;ab;bxb]x,{},{:]:]x[],u,u})},{<>,a,<]:xb,{u,u,u,u},(u,u,u,u,u),]:]]][8]x,(::[,u)>},{(),(8:a;b;]b:;x[,{u,u,u,u,b;b]]a8x]a8})},aa:[),(]8,:)}},<(<>,<<>,{},<<(),<u,u,u>,:;8x]>>>)>", ":bxxa][]::,
 {
     {
        (
             {
                <>,
                ;,
                (
                     {
                        8x]a,
                        u,
                        u,
                        u,
                        u
                    },
                    :;;ab;bxb]x,
                     {
                        
                    },
                     {
                        :]:]x[],
                        u,
                        u
                    }
                )
            },
             {
                <>,
                a,
                <
                    ]:xb,
                     {
                        u,
                        u,
                        u,
                        u
                    },
                    (u, u, u, u, u),
                    ]:]]][8]x,
                    (::[, u)
                >
            },
             {
                (),
                (
                    8:a;b;]b:;x[,
                     {
                        u,
                        u,
                        u,
                        u,
                        b;b]]a8x]a8
                    }
                )
            },
            aa:[
        ),
        (]8, :)
    }
},
<
    (
        <>,
        <
            <>,
             {
                
            },
            <<(),
            <u,
            u,
            u>,
            :;8x]>>
        >
    )
>").
Definition c479 : case := ("ba:b[[,b", "ba:b[[,
b").
Definition c480 : case := ("({},b[;x;a8,:;;b8:b,;b),{<<>,<>>}", "(
     {
        
    },
    b[;x;a8,
    :;;b8:b,
    ;b
),
 {
    <<>,
    <>>
}").
Definition c481 : case := ("{xx,]8[,]abx;x:8:[,xb][]x},{<x[x;,8a:a:]>}", " {
    xx,
    ]8[,
    ]abx;x:8:[,
    xb][]x
},
 {
    <x[x;,
    8a:a:]>
}").
Definition c482 : case := ("({},())", "(
     {
        
    },
    ()
)").
Definition c483 : case := ("<(<{([8a,{u,u}),ba:;8,:;;,8:a}>,;xa;b:;a;b[,{{{},{baab},];},]88:8,:x[88,<:a[bx]88x]b:,b>},()),(x),abx>,{}", "<
    (
        <
             {
                (
                    [8a,
                     {
                        u,
                        u
                    }
                ),
                ba:;8,
                :;;,
                8:a
            }
        >,
        ;xa;b:;a;b[,
         {
             {
                 {
                    
                },
                 {
                    baab
                },
                ];
            },
            ]88:8,
            :x[88,
            <:a[bx]88x]b:,
            b>
        },
        ()
    ),
    (x),
    abx
>,
 {
    
}").
Definition c484 : case := ("b[::,{{[x][;[::b],<{(),(;xa,(u,u,u,u),<>)}>}}", "b[::,
 {
     {
        [x][;[::b],
        <
             {
                (),
                (;xa, (u, u, u, u), <>)
            }
        >
    }
}").
Definition c485 : case := ("(),(<<<{<u,b];bx8>,(u,;8x)}>>>)", "(),
(
    <
        <
            <
                 {
                    <u,
                    b];bx8>,
                    (u, ;8x)
                }
            >
        >
    >
)").
Definition c486 : case := ("8[[a];;88][;,8:88b;b,axa8:[8x;]:,];[abbx:[x:a", "8[[a];;88][;,
8:88b;b,
axa8:[8x;]:,
];[abbx:[x:a").
Definition c487 : case := ("<b,{:xb::bb,{:;8],{xa:a;b:;ba8;,<x;8ba[[x[b],b]]8x::bbx:x,{u},(u,;aa;:,u)>,{b:,8][,<[8[]xbab;xb>,{u,u,u},b];::;},<(]8b]a,8;b;b[),b:][:b8:8b;b>},(;[;[8[)}}>", "<
    b,
     {
        :xb::bb,
         {
            :;8],
             {
                xa:a;b:;ba8;,
                <
                    x;8ba[[x[b],
                    b]]8x::bbx:x,
                     {
                        u
                    },
                    (u, ;aa;:, u)
                >,
                 {
                    b:,
                    8][,
                    <[8[]xbab;xb>,
                     {
                        u,
                        u,
                        u
                    },
                    b];::;
                },
                <(]8b]a, 8;b;b[),
                b:][:b8:8b;b>
            },
            (;[;[8[)
        }
    }
>").
Definition c488 : case := ("<{},<b:x8:]]8b,{{:xaba]]x},{{[a;xbb,(u,b)},{},{{u,u,xa[b},x;;;][:[;8a,(u,aa;:a8];]xb,u,b;a]]x8;aa,]a8::xb;x;b),{u}}}},<>,<>,<b[8b[:[],{;xb8,;[]b];,{;8][bxb]]8,]8:b;bxa,<u,:88[x[a8[bb>,:8aa[;]8}}>>>", "<
     {
        
    },
    <
        b:x8:]]8b,
         {
             {
                :xaba]]x
            },
             {
                 {
                    [a;xbb,
                    (u, b)
                },
                 {
                    
                },
                 {
                     {
                        u,
                        u,
                        xa[b
                    },
                    x;;;][:[;8a,
                    (
                        u,
                        aa;:a8];]xb,
                        u,
                        b;a]]x8;aa,
                        ]a8::xb;x;b
                    ),
                     {
                        u
                    }
                }
            }
        },
        <>,
        <>,
        <
            b[8b[:[],
             {
                ;xb8,
                ;[]b];,
                 {
                    ;8][bxb]]8,
                    ]8:b;bxa,
                    <u,
                    :88[x[a8[bb>,
                    :8aa[;]8
                }
            }
        >
    >
>").
Definition c489 : case := ("[8x;,bbbax[,(b8xx:;xb,xba,aa;b]xx;:)", "[8x;,
bbbax[,
(b8xx:;xb, xba, aa;b]xx;:)").
Definition c490 : case := ("8[;8xa;]:[a8,[a8a;[ab],<],([88a:[:x8bb),[8ab[,<(),;bbb;,:ab8a[x]8x,{(<]x888[a>)}>>", "8[;8xa;]:[a8,
[a8a;[ab],
<
    ],
    ([88a:[:x8bb),
    [8ab[,
    <
        (),
        ;bbb;,
        :ab8a[x]8x,
         {
            (<]x888[a>)
        }
    >
>").
Definition c491 : case := ("é
)	
[>é
);€
	]{𝄞,{{bZ;[Z>}]{𝄞	b{:(Z[	 , {b;;	é( )(,){[
)>,[é", "é
)	
[>é
);€
	] {
    𝄞,
     {
         {
            bZ;[Z>
        }] {
            𝄞	b {
                :(
                    Z[	 ,
                      {
                        b;;	é( )(, ) {
                            [

                        )>,
                        [é").
Definition c492 : case := ("	(;[Z)Z:Z);}Z[;é>;a]Z	(<}b<)::(>é[{] (𝄞( (
[
};[ ééZ:(}><[[,,[>[𝄞a€	[]<𝄞Z)(€é>}[b> b<{bZ(éa€Z(,b(>€[Z	Zb:{Z:(
)]<] }}[>)<,b)[] )>
({,}},𝄞;
 b<<€[é
>;b𝄞}]<<}<aZ{€𝄞[€𝄞{b;]{;:€€]Za
 ; é
	,", "	(;[Z)Z:Z);
}Z[;é>;a]Z	(<

}b<)::(
>é[ {
    ] (
        𝄞(
             (
                
[

            };[ ééZ:(
        }
    ><[[, , [>[𝄞a€	[]<𝄞Z)(
        €é>
    }[b> b<
         {
            bZ(
                éa€Z(
                    ,
                    b(
                        
                    >€[Z	Zb: {
                        Z:(
)]<] 
                    }
                }[>
            )<,
            b
        )[] 
    )>
(
         {
            ,
            
        }
    },
    𝄞;
 b<
        <€[é
>;b𝄞
    }]<
        <
            
        }<
            aZ {
                €𝄞[€𝄞 {
                    b;] {
                        ;:€€]Za
 ; é
	,
                        ").
Definition c493 : case := ("<𝄞>€b<;ab}é𝄞𝄞a€,;ab<	abéb)(;
,,
Z},;;Zé:𝄞𝄞>€]a{, 𝄞 	é)𝄞)Z{([{]>]}b][	Z( 
;:€:;€b:é)é€	)<]é<<>;(b)<},(
]:>€	}<<{é( 	}𝄞):):]),:a(é
:	<€) {:<	,Z,,>]()>,,	 )>]bZéZ<:bb
,b}{é[<{:é:é Z€{;𝄞{Z𝄞(𝄞}€:
ZZ<	é<((,é]<a:	:]𝄞):𝄞,€𝄞	>{
𝄞<)> €;b>€,	aéZé
;<a{<𝄞€:(𝄞b]Z 	é
𝄞é{é; b({{a){é(é:é}	Z}é{:>;𝄞<", "<𝄞>€b<
    ;ab
}é𝄞𝄞a€,
;ab<	abéb)(
    ;
,
    ,
    
Z
},
;;Zé:𝄞𝄞>€]a {
    ,
     𝄞 	é
)𝄞)Z {
    (
        [ {
            ]
        >]
    }b][	Z( 
;:€:;€b:é)é€	
)<
    ]é<
        <>;(b)<
    },
    (
        
]:>€	
    }<
        <
             {
                é( 	
            }𝄞):
        ):]),
        :a(é
:	<
            €)  {
                :<	,
                Z,
                ,
                >]()
            >,
            ,
            	 )
        >]bZéZ<
            :bb
,
            b
        } {
            é[<
                 {
                    :é:é Z€ {
                        ;𝄞 {
                            Z𝄞(
                                𝄞
                            }€:
ZZ<
                                	é<
                                    (
                                        (, é]<a:	:]𝄞):𝄞,
                                        €𝄞	> {
                                            
𝄞<
                                        )> €;b
                                    >€,
                                    	aéZé
;<
                                        a {
                                            <
                                                𝄞€:(
                                                    𝄞b]Z 	é
𝄞é {
                                                        é; b(
                                                             {
                                                                 {
                                                                    a
                                                                ) {
                                                                    é(
                                                                        é:é
                                                                    }	Z
                                                                }é {
                                                                    :
                                                                >;𝄞<
                                                                    ").
Definition c494 : case := ("<
>[:[b", "<
>[:[b").
Definition c495 : case := ("(éé>:a;
é
>,[[[((𝄞Z{€[bé>ZbZ<>)€}é>]	]b)}	Z()	𝄞a : 𝄞[
é é	𝄞}(:>
baZ	 >€,:;;::Z,{Z:baZ;(€:(}𝄞é;[}};]a]€𝄞;	;>{𝄞ba;]	>a(	(>)]b{{(b>
a b:b{: }:𝄞a[,{ ;]a", "(
    éé>:a;
é
>,
    [[[(
        (
            𝄞Z {
                €[bé>ZbZ<>
            )€
        }é>]	]b
    )
}	Z()	𝄞a : 𝄞[
é é	𝄞
}(
:>
baZ	 >€,
:;;::Z,
 {
    Z:baZ;(
        €:(
            
        }𝄞é;[
    }
};]a]€𝄞;	;> {
    𝄞ba;]	>a(
        	(>)]b {
             {
                (
                    b>
a b:b {
                        : 
                    }:𝄞a[,
                     {
                         ;]a").
Definition c496 : case := ("Z],𝄞]€[}){bb(𝄞]]€€:,<€({({,,}a<;€€({}aé[é:𝄞,)]Z
([,):
:]€é{éa;€<>𝄞 <>𝄞é<:a
[>éa >]b
); a	é
)(a):;:><€>:(,a),

𝄞,[ ,>:)€€ab

<:;bé,
Z]]bZb<	[{}[(>  ])			::€,}{€
::a(<]}<,€	}>](]]é€Z} ", "Z],
𝄞]€[
}) {
bb(
    𝄞]]€€:,
    <
        €(
             {
                (
                     {
                        ,
                        ,
                        
                    }a<
                        ;€€(
                             {
                                
                            }aé[é:𝄞,
                            
                        )]Z
([, ):
:]€é {
                            éa;€<>𝄞 <>𝄞é<:a
[>éa 
                        >]b

                    ); a	é

                )(a):;:
            ><€>:(, a),
            

𝄞,
            [ ,
            >:
        )€€ab

<
            :;bé,
            
Z]]bZb<
                	[ {
                    
                }[(
            >  ])			::€,
            
        } {
            €
::a(
                <
                    ]
                }<,
                €	
            }>](
                ]]é€Z
            } ").
Definition c497 : case := ("][[<
;<𝄞, ) 𝄞}
ZZ;,(	{[:<
:<<:
<é)  : 𝄞Za](>	b€€𝄞< ),;)}
 é[ ,[};é <	)[€}b		€a;(}}éé)]:)]])[]b€[𝄞>Z]a];ZZZaé:é>ZaZ >aa{>
,>}
𝄞€é>)Zé(}{>(€;Z;,}a  {éb
>	]é]a({aé;{{a	(	:
𝄞;:;<Z(;:𝄞Za,<{:𝄞({𝄞:>) , ]€a<€,a€)
:€)€{;€{{(]	𝄞((a:<Zb
); }ZZ(Z]}>(	b<	>;>]Z]}];b𝄞<bZ,{𝄞}}{é[,	Z)>:", "][[<
    
;<
        𝄞,
         ) 𝄞
    }
ZZ;,
    (
        	 {
            [:<
                
:<
                    <
                        :
<é
                    )  : 𝄞Za](>	b€€𝄞<
                         ),
                        ;)
                    }
 é[ ,
                    [
                };é <	)[€
            }b		€a;(
        }
    }éé)]:)]])[]b€[𝄞>Z]a];ZZZaé:é
>ZaZ 
>aa {

>
,

>
}
𝄞€é
>)Zé(

} {

>(
€;Z;,

}a   {
éb
>	]é]a(
 {
aé; {
 {
    a	(
        	:
𝄞;:;<
            Z(
                ;:𝄞Za,
                <
                     {
                        :𝄞(
                             {
                                𝄞:
                            >
                        ) ,
                         ]€a<
                            €,
                            a€
                        )
:€
                    )€ {
                        ;€ {
                             {
                                (
                                    ]	𝄞(
                                        (a:<Zb
); 
                                    }ZZ(
                                        Z]
                                    }>(
                                        	b<	>;
                                    >]Z]
                                }];b𝄞<
                                    bZ,
                                     {
                                        𝄞
                                    }
                                } {
                                    é[,
                                    	Z
                                )
                            >:").
Definition c498 : case := (" <);(,	𝄞Z <:𝄞b{b{]Zb>;
𝄞€[	é(},b>é	

𝄞
€},{é <
(	éZ)	𝄞>,;; ,𝄞 )€>,é>,	€
 {		]]]})éZ[b€,:b:[[𝄞;€ 𝄞Z][𝄞,()é𝄞} €[;(a[]é	:€()Z<>}{ ({é:]}{
)]}a)<<é>[é[,é
(>𝄞}(<] a}{;
	}	𝄞Z[>,𝄞]Z
<>,aaab𝄞 (é]:{
(,a (	((<,a]a
[ ;		[𝄞{,}b	<[;,	(< 
,)]:)é}];; <Z	", " <
    );(
        ,
        	𝄞Z <
            :𝄞b {
                b {
                    ]Zb
                >;
𝄞€[	é(
                    
                },
                b
            >é	

𝄞
€
        },
         {
            é <
(	éZ)	𝄞>,
            ;; ,
            𝄞 
        )€>,
        é>,
        	€
  {
            		]]]
        }
    )éZ[b€,
    :b:[[𝄞;€ 𝄞Z][𝄞,
    ()é𝄞
} €[;(
    a[]é	:€()Z<>
} {
     (
         {
            é:]
        } {
            

        )]
    }a
)<<é>[é[,
é
(
    >𝄞
}(
    <
        ] a
    } {
        ;
	
    }	𝄞Z[
>,
𝄞]Z
<>,
aaab𝄞 (
    é]: {
        
(
            ,
            a (
                	(
                    (
                        <
                            ,
                            a]a
[ ;		[𝄞 {
                                ,
                                
                            }b	<
                                [;,
                                	(<
                                     
, )]:
                                )é
                            }];; <
                                Z	").
Definition c499 : case := ("	b
b>}	(;)é> b<{Z,€<}𝄞a	}€,,[é>)
a}<<>]:ba]é
: {]Za}Za
aZ
 {,€𝄞
}{	:€<;<a	)
) b{€{𝄞𝄞𝄞]𝄞[{:	[;{[(Z	𝄞Zé;𝄞( }{>] }Z<;}]b<}}b:(>{,]𝄞<:);𝄞
Z),€,(,, Z)[]€	é)Z))]:( ,]ba:a}b};𝄞{[[(€ <a::(>]>a€>b) 
,((€:]
:]éZ,é	 :é>;)		]ab
>,€{Zé(]𝄞[,)Z][𝄞;é]}):}>)<<𝄞€[);)Z<€
<( ,€>]
ébb<	<𝄞a𝄞]€<;))
}(
,} 
])b)a,bb[é
{)(", "	b
b>
}	(;)é> b<
 {
    Z,
    €<
}𝄞a	
}€,
,
[é>)
a
}<
<>]:ba]é
:  {
]Za
}Za
aZ
  {
,
€𝄞

} {
	:€<
    ;<
        a	)
) b {
            € {
                𝄞𝄞𝄞]𝄞[ {
                    :	[; {
                        [(
                            Z	𝄞Zé;𝄞(
                                 
                            } {
                                
                            >] 
                        }Z<
                            ;
                        }]b<
                    }
                }b:(
                    > {
                        ,
                        ]𝄞<
                            :
                        );𝄞
Z
                    ),
                    €,
                    (, ,  Z)[]€	é
                )Z))]:(
                     ,
                    ]ba:a
                }b
            };𝄞 {
                [[(
                    € <a::(>]
                >a€
            >b) 
,
            (
                (€:]
:]éZ, é	 :é
            >;)		]ab

        >,
        € {
            Zé(]𝄞[, )Z][𝄞;é]
        }
    ):
}
>
)<
<
𝄞€[
);)Z<
€
<( , €>]
ébb<
    	<
        𝄞a𝄞]€<
            ;))

        }(
, 
    } 
])b)a,
    bb[é
 {
        )(
            ").
Definition c500 : case := (",	bé", ",
	bé").
Definition c501 : case := (" b Z}ZaZ[{𝄞 [
[}<]é(<a<}[,
<
b;é
{
;(é{[éa Zba€	{>>,[[
;}(Z{
	
>}>{
,)
b>,	];;(>Z<>𝄞€,}[𝄞[()𝄞]", " b Z
}ZaZ[ {
𝄞 [
[
}<
]é(
    <
        a<
            
        }[,
        
<
            
b;é
 {
                
;(
                    é {
                        [éa Zba€	 {
                            
                        >
                    >,
                    [[
;
                }(
                    Z {
                        
	

                    >
                }
            > {
                
,
                
            )
b>,
            	];;(
                >Z<>𝄞€,
                
            }[𝄞[()𝄞]").
Definition c502 : case := ("
𝄞b:,Z	 ;€ ,([<;{; ,;(]>(>é](€<,[,>]}}	( b,é	:é( ,
𝄞,)𝄞	>	𝄞b)];
;);{𝄞a];€],
b]", "
𝄞b:,
Z	 ;€ ,
(
    [<
        ; {
            ; ,
            ;(
                ]
            >(
                >é](
                    €<,
                    [,
                    >]
                }
            }	( b, é	:é( , 
𝄞, )𝄞	>	𝄞b)];
;
        ); {
            𝄞a];€],
            
b]").
Definition c503 : case := (" }𝄞,𝄞{,a{é:,", " 
}𝄞,
𝄞 {
,
a {
    é:,
    ").
Definition c504 : case := ("
}(b<]>]{,{a)[a([a	(€)}<>[Z€é𝄞[ é<
b )<> },é<
>[
>€<)Z((
(	a€[)	)𝄞Z:
,€]
{𝄞,:	(a	>a
€}𝄞€[𝄞)𝄞]>] ]>;{)
 <}<b{𝄞𝄞€[[(
{(	<𝄞]<b€<)<]<é
([[ )ZZ][(𝄞{	:] 𝄞}]béZ(	>{€€ }€ 	([éa>Z] ;€;€𝄞[)[)
}{a)<{[𝄞 }[:a>{ b €€>(]<> [Z>}b:{b>Z>
	{]é;é<()(:<é:b](aa	a𝄞é𝄞<(){,	(({
é);{ b€}:}𝄞
b	;{a>)Z){b>{𝄞[>b€b;]𝄞}é{𝄞:", "

}(
b<]>] {
    ,
     {
        a
    )[a([a	(€)
}<>[Z€é𝄞[ é<
b )<> 
},
é<
>[
>€<
)Z(
    (
(	a€[)	)𝄞Z:
,
    €]
 {
        𝄞,
        :	(a	
    >a
€
}𝄞€[𝄞)𝄞]>] ]>; {
    
)
 <
    
}<
    b {
        𝄞𝄞€[[(
            
 {
                (	<
                    𝄞]<
                        b€<
                            )<
                                ]<
                                    é
([[ )ZZ][(
                                        𝄞 {
                                            	:] 𝄞
                                        }]béZ(
                                            	
                                        > {
                                            €€ 
                                        }€ 	([éa
                                    >Z] ;€;€𝄞[)[
                                )

                            } {
                                a
                            )<
                                 {
                                    [𝄞 
                                }[:a
                            > {
                                 b €€
                            >(
                                ]<> [Z
                            >
                        }b: {
                            b
                        >Z
                    >
	 {
                        ]é;é<
                            ()(
                                :<
                                    é:b](
                                        aa	a𝄞é𝄞<
                                            () {
                                                ,
                                                	(
                                                    (
                                                         {
                                                            
é
                                                        ); {
                                                             b€
                                                        }:
                                                    }𝄞
b	; {
                                                        a
                                                    >
                                                )Z
                                            ) {
                                                b
                                            > {
                                                𝄞[
                                            >b€b;]𝄞
                                        }é {
                                            𝄞:").
Definition c505 : case := (";)}>	béa;é}]{<}b
é{[}:,{:>:€{ }{>:)}]}𝄞[<<ZaaZ; 
b𝄞{Z}[>}b
]{a
>:;(;}}]{[(é[>}};bZ(
, 𝄞€:a,<]>Z 𝄞}Z€]𝄞[:
}{éé]€a<,€𝄞([]]	];[€,a,{)	,;{<[€<(;>a)éba:
𝄞𝄞]b€𝄞[}	€)>)(€
[€
é<𝄞𝄞;{<;} b:a>}éa{;{a
:;𝄞}Zb[][)> (", ";)
}>	béa;é
}] {
<

}b
é {
[
}:,
 {
:
>:€ {
 
} {
>:)
}]
}𝄞[<
<
ZaaZ; 
b𝄞 {
    Z
}[
>
}b
] {
a

>:;(
;
}
}] {
[(
é[>
}
};bZ(

,
 𝄞€:a,
<]>Z 𝄞
}Z€]𝄞[:

} {
éé]€a<
,
€𝄞(
[]]	];[€,
a,
 {

)	,
; {
<[€<(;>a)éba:
𝄞𝄞]b€𝄞[
}	€
)>
)(
€
[€
é<
𝄞𝄞; {
<;
} b:a>
}éa {
; {
a
:;𝄞
}Zb[][
)
> (
").
Definition c506 : case := ("€
>ba]>(;Z Z{", "€
>ba]>(
    ;Z Z {
        ").
Definition c507 : case := ("𝄞}}{[€(
Z>a{;;
[{<(:]a>}aé{,:éa€𝄞;)Z)(a[]<))
a[)})([];< 	€𝄞[𝄞{>[a}:(
{b]	 (]<{(	é]{,", "𝄞
}
} {
[€(

Z>a {
    ;;
[ {
        <(
            :]a>
        }aé {
            ,
            :éa€𝄞;
        )Z
    )(a[]<
        ))
a[)
    })(
        [];<
             	€𝄞[𝄞 {
                
            >[a
        }:(
            
 {
                b]	 (
                    ]<
                         {
                            (
                                	é] {
                                    ,
                                    ").
Definition c508 : case := (">,>>))
{](,€é(€,	€𝄞}
)(
[éa(aaa]<Z(,a	ab>aa𝄞((];,é]€,[		(€}b >}];[{}<(
]a< €( ]	€,<]b[b( abaa€,[;a;]),;[](
bb	Zé,;]:>€,:€b>é]a€<]b	b𝄞(:b(]<]€(}>}))[)é
é< Z]𝄞))𝄞:>;,}:>;:Zb[, {
>]<
}Z𝄞𝄞[<,[b{é
a	Zé{>
b,)	Z))Za,b;(;	
€
,)", ">,
>>))
 {
    ](
        ,
        €é(€, 	€𝄞
    }
)(
        
[éa(
            aaa]<Z(
                ,
                a	ab>aa𝄞(
                    (
                        ];,
                        é]€,
                        [		(
                            €
                        }b >
                    }];[ {
                        
                    }<
                        (
                            
]a<
                                 €(
                                     ]	€,
                                    <
                                        ]b[b( abaa€, [;a;]),
                                        ;[](
                                            
bb	Zé,
                                            ;]:
                                        >€,
                                        :€b
                                    >é]a€<
                                        ]b	b𝄞(:b(]<]€(
                                    }>
                                }))[)é
é< Z]𝄞
                            )
                        )𝄞:>;,
                        
                    }:
                >;:Zb[,
                  {
                    

                >]<
                    

                }Z𝄞𝄞[<
                    ,
                    [b {
                        é
a	Zé {
                            
                        >
b,
                        
                    )	Z
                )
            )Za,
            b;(;	
€
, )").
Definition c509 : case := ("]):	€(aé){}	é]	,  <)}éb]b),é𝄞:,;Z:;;𝄞 )𝄞b]}[}éZb ,[(é 
	})>  >[<<,<[b[:é
 €:	,(𝄞aé 𝄞{<,:b>;>}[{]Z Z,:>}€ ; 	}a><::a}:Z)](;:( é>;é( é𝄞b:	a<€[;:>€}Z ][:Z;:<<Z", "]):	€(aé) {
    
}	é]	,
  <
    )
}éb]b),
é𝄞:,
;Z:;;𝄞 )𝄞b]
}[
}éZb ,
[(é 
	
})
>  >[<
<
,
<
[b[:é
 €:	,
(
𝄞aé 𝄞 {
    <,
    :b>;
>
}[ {
]Z Z,
:
>
}€ ; 	
}a
><::a
}:Z
)](
;:(
 é>;é(
 é𝄞b:	a<€[;:>€
}Z ][:Z;:<
<
Z").
Definition c510 : case := ("struct IndividualExposure<AccountId32,u128>{who: struct AccountId32([u8; 32]),value: Compact<u128>}", "struct IndividualExposure<AccountId32,
u128> {
    who: struct AccountId32([u8; 32]),
    value: Compact<u128>
}").
Definition c511 : case := ("enum Option<u128>{None,Some(u128)}", "enum Option<u128> {
    None,
    Some(u128)
}").
Definition c512 : case := ("enum MultiSignature{Ed25519(struct Signature([u8; 64])),Sr25519(struct Signature([u8; 64])),Ecdsa(struct Signature([u8; 65]))}", "enum MultiSignature {
    Ed25519(struct Signature([u8; 64])),
    Sr25519(struct Signature([u8; 64])),
    Ecdsa(struct Signature([u8; 65]))
}").
Definition c513 : case := ("enum Option<ValidatorSet<Public>>{None,Some(struct ValidatorSet<Public>{validators: Vec<struct Public(struct Public([u8; 33]))>,id: u64})}", "enum Option<ValidatorSet<Public>> {
    None,
    Some(
        struct ValidatorSet<Public> {
            validators: Vec<
                struct Public(struct Public([u8; 33]))
            >,
            id: u64
        }
    )
}").
Definition cases : list (case) := [c0; c1; c2; c3; c4; c5; c6; c7; c8; c9; c10; c11; c12; c13; c14; c15; c16; c17; c18; c19; c20; c21; c22; c23; c24; c25; c26; c27; c28; c29; c30; c31; c32; c33; c34; c35; c36; c37; c38; c39; c40; c41; c42; c43; c44; c45; c46; c47; c48; c49; c50; c51; c52; c53; c54; c55; c56; c57; c58; c59; c60; c61; c62; c63; c64; c65; c66; c67; c68; c69; c70; c71; c72; c73; c74; c75; c76; c77; c78; c79; c80; c81; c82; c83; c84; c85; c86; c87; c88; c89; c90; c91; c92; c93; c94; c95; c96; c97; c98; c99; c100; c101; c102; c103; c104; c105; c106; c107; c108; c109; c110; c111; c112; c113; c114; c115; c116; c117; c118; c119; c120; c121; c122; c123; c124; c125; c126; c127; c128; c129; c130; c131; c132; c133; c134; c135; c136; c137; c138; c139; c140; c141; c142; c143; c144; c145; c146; c147; c148; c149; c150; c151; c152; c153; c154; c155; c156; c157; c158; c159; c160; c161; c162; c163; c164; c165; c166; c167; c168; c169; c170; c171; c172; c173; c174; c175; c176; c177; c178; c179; c180; c181; c182; c183; c184; c185; c186; c187; c188; c189; c190; c191; c192; c193; c194; c195; c196; c197; c198; c199; c200; c201; c202; c203; c204; c205; c206; c207; c208; c209; c210; c211; c212; c213; c214; c215; c216; c217; c218; c219; c220; c221; c222; c223; c224; c225; c226; c227; c228; c229; c230; c231; c232; c233; c234; c235; c236; c237; c238; c239; c240; c241; c242; c243; c244; c245; c246; c247; c248; c249; c250; c251; c252; c253; c254; c255; c256; c257; c258; c259; c260; c261; c262; c263; c264; c265; c266; c267; c268; c269; c270; c271; c272; c273; c274; c275; c276; c277; c278; c279; c280; c281; c282; c283; c284; c285; c286; c287; c288; c289; c290; c291; c292; c293; c294; c295; c296; c297; c298; c299; c300; c301; c302; c303; c304; c305; c306; c307; c308; c309; c310; c311; c312; c313; c314; c315; c316; c317; c318; c319; c320; c321; c322; c323; c324; c325; c326; c327; c328; c329; c330; c331; c332; c333; c334; c335; c336; c337; c338; c339; c340; c341; c342; c343; c344; c345; c346; c347; c348; c349; c350; c351; c352; c353; c354; c355; c356; c357; c358; c359; c360; c361; c362; c363; c364; c365; c366; c367; c368; c369; c370; c371; c372; c373; c374; c375; c376; c377; c378; c379; c380; c381; c382; c383; c384; c385; c386; c387; c388; c389; c390; c391; c392; c393; c394; c395; c396; c397; c398; c399; c400; c401; c402; c403; c404; c405; c406; c407; c408; c409; c410; c411; c412; c413; c414; c415; c416; c417; c418; c419; c420; c421; c422; c423; c424; c425; c426; c427; c428; c429; c430; c431; c432; c433; c434; c435; c436; c437; c438; c439; c440; c441; c442; c443; c444; c445; c446; c447; c448; c449; c450; c451; c452; c453; c454; c455; c456; c457; c458; c459; c460; c461; c462; c463; c464; c465; c466; c467; c468; c469; c470; c471; c472; c473; c474; c475; c476; c477; c478; c479; c480; c481; c482; c483; c484; c485; c486; c487; c488; c489; c490; c491; c492; c493; c494; c495; c496; c497; c498; c499; c500; c501; c502; c503; c504; c505; c506; c507; c508; c509; c510; c511; c512; c513].
Eval vm_compute in ("corr_exact"%string, failing (corr_exact) cases).
Eval vm_compute in ("corr_stream"%string, failing (corr_stream) cases).
Eval vm_compute in ("prop_ws"%string, failing (prop_ws) cases).
Eval vm_compute in ("prop_discipline"%string, failing (prop_discipline) cases).
